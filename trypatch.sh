#!/bin/sh
# trypatch.sh [-R] <patch> <property>...   apply a patch to /repo, run the checks, undo it.
REV=""
if [ "$1" = "-R" ]; then REV="-R"; shift; fi
P="$1"; shift
cd /repo && git apply $REV "$P" || { echo "patch does not apply"; exit 3; }
cd /verif
export VERIF_EVIDENCE_DIR=/verif/.build/scratch-evidence
for p in "$@"; do ./check "$p" 2>&1 | grep -E "^VIOLATION|^KNOWN|^C[0-9]+:|NOT-ANALYSABLE" ; done
cd /repo && git checkout -- . && git status --short | head -3
