#!/bin/bash
# rsel.sh <jobs> "<packs>" <names...>
J=$1; PROPS="$2"; shift 2
OUT=$(mktemp -d /tmp/verif-rsel-XXXXXX)
for n in "$@"; do echo "/verif/refactorings/$n/patch.diff $n"; done > $OUT/list
cat > $OUT/run.sh <<EOS
#!/bin/sh
export VERIF_BUILD_DIR=/verif/.build/slot\$SLOT
/verif/tryall_scratch.sh \$1 $PROPS > $OUT/\$2.txt 2>&1
EOS
chmod +x $OUT/run.sh
cat $OUT/list | xargs --process-slot-var=SLOT -P $J -n 2 $OUT/run.sh
for f in $OUT/*.txt; do
  if grep -q "patch does not apply" $f; then echo "NOT-APPLICABLE $(basename $f .txt)"; continue; fi
  r=$(grep -v '^UNDECIDED' $f | tr '\n' ' ')
  [ -n "$r" ] && echo "FALSE-ALARM $(basename $f .txt): $r"
done
echo "$(ls $OUT/*.txt | wc -l) refactorings x $PROPS done"
rm -rf $OUT
