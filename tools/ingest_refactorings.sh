#!/bin/bash
# ingest_refactorings.sh <agent e.g. SG> : confirm each refactoring of the agent, store it as refactorings/<agent>-<k>, run all
# packs on it (scratch copy) and record the first-run alarms in its meta.json
A=$1
cd /verif
for k in 1 2 3 4 5 6; do
  [ -f /tmp/wt/$A-out/$k/patch.diff ] || continue
  r=$(./confirm_refactor.sh /tmp/wt/$A-out/$k $A-$k 2>&1 | tail -1)
  if echo "$r" | grep -q CONFIRMED; then
    v=$(./tryall_scratch.sh /verif/refactorings/$A-$k/patch.diff | grep -v "^UNDECIDED" | tr '\n' ' ')
    python3 - "$A-$k" "$v" <<'PY'
import json,sys
p='/verif/refactorings/%s/meta.json'%sys.argv[1]
m=json.load(open(p)); m['first_run_alarms']=sys.argv[2].split(); json.dump(m,open(p,'w'),indent=1)
PY
    echo "$A/$k : ${v:-silent}"
  else
    echo "$A/$k : $r"
  fi
done
