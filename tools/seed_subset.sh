#!/bin/sh
# seed_subset.sh <jobs> <seed names...> : each named seeded change x its own property's pack on a scratch copy; prints MISSED lines
J=$1; shift
OUT=$(mktemp -d /tmp/verif-ssx-XXXXXX)
for s in "$@"; do echo "$s"; done > $OUT/list
cat > $OUT/run.sh <<EOS
#!/bin/sh
export VERIF_BUILD_DIR=/verif/.build/slot\$SLOT
p=\$(echo \$1 | cut -c1-3)
/verif/tryall_scratch.sh /verif/seeded/\$1/patch.diff \$p > $OUT/\$1.txt 2>&1
EOS
chmod +x $OUT/run.sh
cat $OUT/list | xargs --process-slot-var=SLOT -P $J -n 1 $OUT/run.sh
n=0; m=0
for s in "$@"; do
  n=$((n+1))
  r=$(grep -v '^UNDECIDED' $OUT/$s.txt | head -3 | tr '\n' ' ')
  if [ -z "$r" ] || echo "$r" | grep -q "does not apply"; then echo "MISSED $s: $r"; m=$((m+1)); fi
done
echo "$n changes, $m not reported"
rm -rf $OUT
