#!/bin/sh
# refactor_matrix.sh [jobs] ["C12 C15 .."] : every stored behaviour-preserving refactoring x every pack, on scratch copies of /repo's current tree
# (one extraction per refactoring).  Prints one line per refactoring that raises an alarm; exit 1 if any does.
J=${1:-6}
PROPS="${2:-}"
OUT=$(mktemp -d /tmp/verif-rmx-XXXXXX)
cd /verif
ls -d refactorings/*/ | while read d; do n=$(basename $d); echo "/verif/$d/patch.diff $n"; done > $OUT/list
cat > $OUT/run.sh <<EOS
#!/bin/sh
export VERIF_BUILD_DIR=/verif/.build/slot\$SLOT
/verif/tryall_scratch.sh \$1 $PROPS > $OUT/\$2.txt 2>&1
EOS
chmod +x $OUT/run.sh
cat $OUT/list | xargs --process-slot-var=SLOT -P $J -n 2 $OUT/run.sh
bad=0
for f in $OUT/*.txt; do
  if grep -q "patch does not apply" $f; then echo "NOT-APPLICABLE $(basename $f .txt): the stored patch no longer applies to the current tree (re-base it)"; continue; fi
  r=$(grep -v '^UNDECIDED' $f | tr '\n' ' ')
  if [ -n "$r" ]; then echo "FALSE-ALARM-ON-REFACTORING $(basename $f .txt): $r"; bad=1; fi
done
echo "$(ls $OUT/*.txt | wc -l) refactorings x ${PROPS:-20 packs}; undecided obligations: $(cat $OUT/*.txt | grep -c '^UNDECIDED')"
rm -rf $OUT
exit $bad
