#!/bin/bash
# ingest.sh <agent>: parallel-safe wrapper
A=$1
export CONFIRM_WT=/tmp/wt/confirm-$A
if [[ $A == C* ]]; then /verif/tools/ingest_seeds.sh $A > /tmp/wt/ingest_$A.log 2>&1; else /verif/tools/ingest_refactorings.sh $A > /tmp/wt/ingest_$A.log 2>&1; fi
git -C /repo worktree remove --force $CONFIRM_WT 2>/dev/null
git -C /repo worktree remove --force /tmp/wt/$A 2>/dev/null
echo "== $A"; cat /tmp/wt/ingest_$A.log
