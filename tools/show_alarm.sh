#!/bin/sh
# fa.sh <G/k> <props...> : show full violation detail on scratch copy
P=/tmp/wt/$(dirname $1)-out/$(basename $1)/patch.diff; shift
T=$(mktemp -d /tmp/verif-fa-XXXXXX)
rsync -a --exclude target --exclude .git --exclude node_modules /repo/ $T/repo/
cd $T/repo && git apply "$P" || exit 3
cd /verif
export VERIF_REPO=$T/repo VERIF_EVIDENCE_DIR=$T/ev VERIF_OUT_DIR=$T/out
for p in "$@"; do ./check $p 2>&1 | grep -v "^KNOWN" | cut -c1-700; done
rm -rf $T
