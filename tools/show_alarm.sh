#!/bin/sh
# show_alarm.sh <patch|G/k|stored-name> <props...> : full violation detail of the packs on a scratch copy with the patch applied
A=$1; shift
if [ -f "$A" ]; then P=$A; elif [ -f /verif/refactorings/$A/patch.diff ]; then P=/verif/refactorings/$A/patch.diff; elif [ -f /verif/seeded/$A/patch.diff ]; then P=/verif/seeded/$A/patch.diff; else P=/tmp/wt/$(dirname $A)-out/$(basename $A)/patch.diff; fi
T=$(mktemp -d /tmp/verif-fa-XXXXXX)
rsync -a --exclude target --exclude .git --exclude node_modules /repo/ $T/repo/
cd $T/repo && git apply "$P" || exit 3
cd /verif
export VERIF_REPO=$T/repo VERIF_EVIDENCE_DIR=$T/ev VERIF_OUT_DIR=$T/out
for p in "$@"; do ./check $p 2>&1 | grep -v "^KNOWN" | cut -c1-700; done
rm -rf $T
