//! mirfacts: rustc_private driver that dumps type-resolved facts of the local crate.
//! Used as RUSTC_WORKSPACE_WRAPPER; facts are written to $MIRFACTS_OUT/<crate>.<kind>.<pid>.jsonl
#![feature(rustc_private)]
extern crate rustc_abi;
extern crate rustc_driver;
extern crate rustc_hir;
extern crate rustc_interface;
extern crate rustc_middle;
extern crate rustc_span;

use rustc_driver::Compilation;
use rustc_hir::def::DefKind;
use rustc_middle::mir::{
    AggregateKind, BorrowKind, Body, Operand, Place, Rvalue, StatementKind, TerminatorKind,
};
use rustc_middle::ty::{self, TyCtxt};
use rustc_span::Span;
use std::fmt::Write as _;

struct Cb;

fn esc(s: &str) -> String {
    let mut o = String::with_capacity(s.len() + 2);
    o.push('"');
    for c in s.chars() {
        match c {
            '"' => o.push_str("\\\""),
            '\\' => o.push_str("\\\\"),
            '\n' => o.push_str("\\n"),
            '\t' => o.push_str("\\t"),
            '\r' => o.push_str("\\r"),
            c if (c as u32) < 0x20 => {
                let _ = write!(o, "\\u{:04x}", c as u32);
            }
            c => o.push(c),
        }
    }
    o.push('"');
    o
}

fn short_name(dbg: &str) -> String {
    // Debug form of FileName on this nightly is verbose; pull the absolute path out of it.
    for key in ["embeddable_name: \"", "name: \""] {
        if let Some(i) = dbg.find(key) {
            let rest = &dbg[i + key.len()..];
            if let Some(j) = rest.find('"') {
                return rest[..j].to_string();
            }
        }
    }
    dbg.trim_matches('"').to_string()
}

fn loc<'tcx>(tcx: TyCtxt<'tcx>, mut span: Span) -> (String, bool) {
    let sm = tcx.sess.source_map();
    let from_exp = span.from_expansion();
    let mut depth = 0;
    loop {
        let lo = sm.lookup_char_pos(span.lo());
        let name = format!("{:?}", lo.file.name);
        let local = !name.contains("/rustc/") && !name.contains("/.cargo/") && !name.contains("/rustlib/") && !name.starts_with("<");
        if local || !span.from_expansion() || depth > 12 {
            let name = short_name(&name);
            return (format!("{}:{}:{}", name, lo.line, lo.col.0), from_exp);
        }
        span = span.source_callsite();
        depth += 1;
    }
}

fn field_chain<'tcx>(tcx: TyCtxt<'tcx>, body: &Body<'tcx>, place: &Place<'tcx>) -> Vec<(String, String)> {
    let mut out = Vec::new();
    for (base, elem) in place.iter_projections() {
        if let rustc_middle::mir::ProjectionElem::Field(fidx, _) = elem {
            let pty = base.ty(body, tcx);
            if let ty::Adt(def, _) = pty.ty.kind() {
                let variant = match pty.variant_index {
                    Some(v) => def.variant(v),
                    None => {
                        if def.is_enum() {
                            continue;
                        }
                        def.non_enum_variant()
                    }
                };
                let fname = variant.fields[fidx].name.to_string();
                let mut adt = tcx.def_path_str(def.did());
                if def.is_enum() {
                    adt = format!("{}::{}", adt, variant.name);
                }
                out.push((adt, fname));
            } else if let ty::Tuple(_) = pty.ty.kind() {
                out.push(("(tuple)".to_string(), format!("{}", fidx.as_usize())));
            } else if let ty::Closure(..) = pty.ty.kind() {
                out.push(("(closure)".to_string(), format!("{}", fidx.as_usize())));
            }
        }
    }
    out
}

impl rustc_driver::Callbacks for Cb {
    fn after_analysis<'tcx>(
        &mut self,
        _c: &rustc_interface::interface::Compiler,
        tcx: TyCtxt<'tcx>,
    ) -> Compilation {
        let krate = tcx.crate_name(rustc_hir::def_id::LOCAL_CRATE).to_string();
        if !krate.starts_with("glass_easel") && std::env::var("MIRFACTS_ALL").is_err() {
            return Compilation::Continue;
        }
        let outdir = match std::env::var("MIRFACTS_OUT") {
            Ok(p) => p,
            Err(_) => return Compilation::Continue,
        };
        let crate_types: Vec<String> = tcx.crate_types().iter().map(|t| format!("{:?}", t)).collect();
        let is_test = tcx.sess.opts.test;
        let mut out = String::new();
        for ldid in tcx.mir_keys(()) {
            let did = ldid.to_def_id();
            let kind = tcx.def_kind(did);
            if !matches!(kind, DefKind::Fn | DefKind::AssocFn | DefKind::Closure) {
                continue;
            }
            if tcx.is_const_fn(did) && false {
                continue;
            }
            let body: &Body<'tcx> = tcx.optimized_mir(did);
            let name = tcx.def_path_str(did);
            let (fspan, _) = loc(tcx, tcx.def_span(did));
            let parent = if matches!(kind, DefKind::Closure) {
                tcx.def_path_str(tcx.typeck_root_def_id(did))
            } else {
                String::new()
            };
            let env = ty::TypingEnv::post_analysis(tcx, did);
            let mut calls = String::new();
            let mut asserts = String::new();
            let mut writes = String::new();
            let mut closures = String::new();
            let mut nbb = 0usize;
            for bb in body.basic_blocks.iter() {
                nbb += 1;
                for st in bb.statements.iter() {
                    if let StatementKind::Assign(b) = &st.kind {
                        let (place, rv) = &**b;
                        let chain = field_chain(tcx, body, place);
                        if let Some((adt, f)) = chain.last() {
                            let (l, fe) = loc(tcx, st.source_info.span);
                            if !writes.is_empty() {
                                writes.push(',');
                            }
                            let _ = write!(
                                writes,
                                "{{\"how\":\"assign\",\"adt\":{},\"field\":{},\"span\":{},\"exp\":{}}}",
                                esc(adt), esc(f), esc(&l), fe
                            );
                        }
                        match rv {
                            Rvalue::Ref(_, BorrowKind::Mut { .. }, p) | Rvalue::RawPtr(rustc_middle::mir::RawPtrKind::Mut, p) => {
                                let chain = field_chain(tcx, body, p);
                                if let Some((adt, f)) = chain.last() {
                                    let (l, fe) = loc(tcx, st.source_info.span);
                                    if !writes.is_empty() {
                                        writes.push(',');
                                    }
                                    let _ = write!(
                                        writes,
                                        "{{\"how\":\"mutborrow\",\"adt\":{},\"field\":{},\"span\":{},\"exp\":{}}}",
                                        esc(adt), esc(f), esc(&l), fe
                                    );
                                }
                            }
                            Rvalue::Aggregate(ak, _) => {
                                if let AggregateKind::Closure(cdid, _) = &**ak {
                                    if !closures.is_empty() {
                                        closures.push(',');
                                    }
                                    closures.push_str(&esc(&tcx.def_path_str(*cdid)));
                                }
                            }
                            _ => {}
                        }
                    }
                }
                if let Some(t) = &bb.terminator {
                    match &t.kind {
                        TerminatorKind::Call { func, args, .. } => {
                            let (l, fe) = loc(tcx, t.source_info.span);
                            let mut callee = String::new();
                            let mut generic = String::new();
                            let mut resolved = false;
                            let mut krate_of = String::new();
                            let mut base = String::new();
                            if let Operand::Constant(c) = func {
                                if let ty::FnDef(cd, gargs) = c.const_.ty().kind() {
                                    base = tcx.def_path_str(*cd);
                                    match ty::Instance::try_resolve(tcx, env, *cd, gargs) {
                                        Ok(Some(inst)) => {
                                            callee = tcx.def_path_str(inst.def_id());
                                            generic = tcx.def_path_str_with_args(inst.def_id(), inst.args);
                                            krate_of = tcx.crate_name(inst.def_id().krate).to_string();
                                            resolved = true;
                                        }
                                        _ => {
                                            callee = tcx.def_path_str(*cd);
                                            generic = tcx.def_path_str_with_args(*cd, gargs);
                                            krate_of = tcx.crate_name(cd.krate).to_string();
                                        }
                                    }
                                }
                            }
                            if callee.is_empty() {
                                callee = "(indirect)".to_string();
                            }
                            // argument types
                            let mut atys = String::new();
                            for (i, a) in args.iter().enumerate() {
                                if i > 0 {
                                    atys.push(',');
                                }
                                let aty = a.node.ty(&body.local_decls, tcx);
                                atys.push_str(&esc(&format!("{}", aty)));
                            }
                            if !calls.is_empty() {
                                calls.push(',');
                            }
                            let _ = write!(
                                calls,
                                "{{\"callee\":{},\"base\":{},\"generic\":{},\"crate\":{},\"resolved\":{},\"span\":{},\"exp\":{},\"argtys\":[{}]}}",
                                esc(&callee), esc(&base), esc(&generic), esc(&krate_of), resolved, esc(&l), fe, atys
                            );
                        }
                        TerminatorKind::Assert { msg, .. } => {
                            let (l, fe) = loc(tcx, t.source_info.span);
                            let mut kind = format!("{:?}", msg);
                            if let rustc_middle::mir::AssertKind::Overflow(_, l, _) = &**msg {
                                kind = format!("{} :: {}", kind, l.ty(&body.local_decls, tcx));
                            } else if let rustc_middle::mir::AssertKind::OverflowNeg(l) = &**msg {
                                kind = format!("{} :: {}", kind, l.ty(&body.local_decls, tcx));
                            }
                            let short: String = kind.chars().take(200).collect();
                            if !asserts.is_empty() {
                                asserts.push(',');
                            }
                            let _ = write!(
                                asserts,
                                "{{\"kind\":{},\"span\":{},\"exp\":{}}}",
                                esc(&short), esc(&l), fe
                            );
                        }
                        _ => {}
                    }
                }
            }
            let _ = writeln!(
                out,
                "{{\"fn\":{},\"kind\":{},\"span\":{},\"parent\":{},\"nbb\":{},\"calls\":[{}],\"asserts\":[{}],\"writes\":[{}],\"closures\":[{}]}}",
                esc(&name), esc(&format!("{:?}", kind)), esc(&fspan), esc(&parent), nbb, calls, asserts, writes, closures
            );
        }
        let kind = if is_test { "test".to_string() } else { crate_types.join("+") };
        let path = format!("{}/{}.{}.{}.jsonl", outdir, krate, kind, std::process::id());
        std::fs::write(&path, out.as_bytes()).unwrap();
        Compilation::Continue
    }
}

fn main() {
    let mut args: Vec<String> = std::env::args().collect();
    // RUSTC_WORKSPACE_WRAPPER passes the real rustc path as argv[1]
    args.remove(1);
    rustc_driver::run_compiler(&args, &mut Cb);
}
