#!/bin/bash
# ingest.sh <agentname e.g. C18g> : confirm each change, store as seeded/<PID>-<next>, run the pack on it
A=$1; PID=${A:0:3}
cd /verif
for k in 1 2 3 4 5 6; do
  [ -f /tmp/wt/$A-out/$k/patch.diff ] || continue
  n=$(ls -d seeded/$PID-* 2>/dev/null | sed -E 's/.*-([0-9]+)$/\1/' | sort -n | tail -1); n=$((n+1))
  r=$(./confirm_seeded.sh /tmp/wt/$A-out/$k $PID-$n 2>&1 | tail -1)
  if echo "$r" | grep -q CONFIRMED; then
    v=$(./tryall_scratch.sh /verif/seeded/$PID-$n/patch.diff $PID | grep -v "^UNDECIDED" | head -3 | tr '\n' ' ')
    echo "$A/$k -> $PID-$n : ${v:-MISSED}"
  else
    echo "$A/$k : $r"
  fi
done
