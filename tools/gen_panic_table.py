#!/usr/bin/env python3
"""One-off generator of refs/panic_sites.json: enumerates today's potential panic sites (same enumeration as rules/c01.py)
and attaches the reason each group was accepted with when it was reviewed by reading (see DESIGN.md, C01.panic).
Re-running it REPLACES the reviewed table - do that only after reviewing the new sites by hand."""
import json, os, re, sys
sys.path.insert(0, '/verif'); sys.path.insert(0, '/verif/lib')
import importlib.machinery, importlib.util
loader = importlib.machinery.SourceFileLoader('chk', '/verif/check')
spec = importlib.util.spec_from_loader('chk', loader)
chk = importlib.util.module_from_spec(spec); loader.exec_module(chk)
import extract
from rules.c01 import classified_sites
ctx = chk.Ctx(extract.extract(), 'quick', 0)
SPECIFIC = {
 ("StyleSheetTransformer::append_nested_block", "panic"): "unreachable!(): every caller passes a block-opening token (Curly/Square/Paren/Function), see the dispatch arms checked by C08.ctx",
 ("parse_at_rule", "panic"): "unreachable!() after `matches!(xs, \"layer\" | \"supports\")` was tested on the same string",
 ("parse_at_rule", "unwrap"): "import_sign.unwrap() under `import_sign.is_some()`",
 ("write_maybe_class_name", "unwrap"): "class_prefix.unwrap() under `class_prefix.is_some()`",
 ("output::StyleSheetOutput::get_output_segment", "index:String"): "byte range produced by cur_utf8_len() of the same string (C17.pair/capture-offsets)",
 ("entities::decode", "index:str"): "the entity text is ASCII (`&`, `#`, `x`, digits, letters, `;`) by construction in parse_next_entity; offsets are guarded by the length tests (C12.entity)",
 ("escape::escape_html_body", "panic"): "unreachable!(): the regex character class equals the match arms (C14.escape)",
 ("escape::escape_html_quote", "panic"): "unreachable!(): the regex character class equals the match arms (C14.escape)",
 ("parse::tag::Element::for_each_value_mut", "panic"): "todo!() arms of ClassAttribute/StyleAttribute::Multiple, which are never constructed (C01.panic/never-constructed)",
 ("proc_gen::tag::to_proc_gen", "panic"): "unimplemented!() arms of ClassAttribute/StyleAttribute::Multiple, which are never constructed",
 ("stringify::tag::stringify_write", "panic"): "todo!() arms of the never-constructed Multiple variants; unreachable!() for ElementKind::If, which returned earlier in the same function",
 ("stringify::expr::expression_strigify_write", "panic"): "panic!(\"illegal expression\") for ToStringWithoutUndefined, which the text printer unwraps first; the parser only builds it as a direct operand of a text concatenation (C01.guard)",
 ("parse::tag::Element::parse", "panic"): "unreachable!() arms pairing an attribute-prefix kind with the element kind that produced it (TemplateIs/TemplateData/Src/SlotName are only classified for that element kind); `_` after peek returned `/` or `>`; debug_assert on a non-empty tag name after a start character was peeked",
 ("parse::tag::Element::parse", "unwrap"): "consume_str(..).unwrap() directly after the same string/character was peeked; pop()/first() on name segment lists that are non-empty after a start character was peeked; wx_for.unwrap() under `wx_for.is_none()` excluded; prefix_location set for every slot value ref",
 ("parse::tag::Element::parse", "index:Vec"): "ret[if_index] with if_index found by scanning `ret` in the same call",
 ("parse::tag::Value::parse_until_before", "panic"): "unreachable!(): `ret` was just normalised to `Plus { right: LitStr }` by the statement before",
 ("proc_gen::tag::to_proc_gen", "index:Vec"): "args[1..=5]: the vector was spliced with five generated identifiers after `C` in the closure passed alongside (C04.proto/for-callback-order)",
 ("proc_gen::tag::to_proc_gen_define_children_content_inner", "assert:Overflow:i32"): "per-element counter of slot value refs, bounded by the attribute count",
 ("proc_gen::get_var_name", "assert:BoundsCheck"): "index is `id % table.len()`",
 ("proc_gen::get_var_name", "assert:DivisionByZero"): "divisor is the length of a non-empty const table",
 ("proc_gen::get_var_name", "assert:RemainderByZero"): "divisor is the length of a non-empty const table",
 ("parse::ParseState::peek_n", "assert:BoundsCheck"): "`for i in 0..N` indexes `[char; N]`",
 ("parse::ParseState::new", "index:str"): "truncation index moved back to a char boundary",
}
GENERIC = [
 (r"unwrap$", r"(append_token|finish|declare_on_top|declare_on_top_init|get_runtime_string|stringify_tmpl)$", "unwrap of fmt::Write into a String (never fails)"),
 (r"unwrap$", r"__static_ref_initialize$", "Regex::new(<literal>) inside lazy_static"),
 (r"unwrap$", r"(get_block|get_block_mut|expr_stmt)$", "as_ref()/as_mut().unwrap() under `self.block.is_some()`"),
 (r"unwrap$", r"(skip_bytes|write_str)$", "rfind('\\n').unwrap() under `line_wrap_count > 0`"),
 (r"unwrap$", r"(parse_number|try_parse_field_name|parse_colon_separated)$", "ps.next().unwrap() after a successful peek in the same iteration"),
 (r"unwrap$", r"to_proc_gen_define_children$", "as_mut().unwrap() directly after the option was set to Some"),
 (r"index:str$", r"ParseState::", "cursor slicing: the index is the maintained cursor, the length of a string just matched, or a find()/char_indices offset (C16.cursor keeps the cursor on char boundaries)"),
 (r"index:String$", r"StyleSheetOutput::append_", "slice from the length taken before the append"),
 (r"index:str$", r"(write_str|path::resolve)$", "offset from rfind + 1 / after starts_with('/')"),
 (r"index:Captures$", r"escape_html", "capture group 0 always exists"),
 (r"index:Vec$", r"proc_gen::expr::", "scopes[index]: scope indices are assigned and consumed by mirrored scope stacks (C05.mirror)"),
 (r"index:Vec$", r"Stringifier::add_scope$", "index of the element pushed one line above"),
]
rows = []
unreviewed = []
for (crate, root, cat), spans in sorted(classified_sites(ctx).items()):
    why = None
    for (fn, kind), w in SPECIFIC.items():
        if root.endswith(fn) and (cat == kind or cat.startswith(kind + ":") or (kind.startswith("assert:") and cat.startswith(kind))):
            why = w
    if why is None:
        for crx, frx, w in GENERIC:
            if re.search(crx, cat) and re.search(frx, root):
                why = w
                break
    if cat in ('unwrap:fmt', 'panic:covered', 'index:boundary', 'unwrap:peeked'):
        continue  # discharged mechanically by rules/c01.py, not by this table
    if why is None:
        unreviewed.append((crate, root, cat, spans))
        continue
    rows.append({"crate": crate, "fn": root, "kind": cat, "count": len(spans), "why": why})
for u in unreviewed:
    print("UNREVIEWED", u)
json.dump({"_doc": "reviewed potential panic sites (C01.panic); key = crate + function + kind; a site outside this table is a violation", "sites": rows},
          open('/verif/refs/panic_sites.json', 'w'), indent=1)
print(len(rows), "groups,", sum(r["count"] for r in rows), "sites;", len(unreviewed), "unreviewed")
