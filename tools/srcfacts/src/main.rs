//! srcfacts: lower Rust source files (original or macro-expanded) to a JSON IR.
//!
//! usage: srcfacts <out.json> <file.rs>...
//! Output: {"files":[{"path":..., "items":[...]}]}
//!
//! The IR is a plain syntax tree (no name resolution). Every node carries
//! "k" (kind) and "sp" = [line, col, end_line, end_col] (1-based line, 0-based col).
//! Macro invocations keep their name; their argument token stream is parsed as a
//! comma separated expression list when possible ("args"), `matches!` is parsed as
//! (expr, pattern, guard), and the raw tokens are always kept ("raw").

use proc_macro2::{Span, TokenStream, TokenTree};
use quote::ToTokens;
use serde_json::{json, Map, Value};
use syn::parse::Parser;
use syn::punctuated::Punctuated;
use syn::spanned::Spanned;
use syn::*;

fn sp(s: Span) -> Value {
    let a = s.start();
    let b = s.end();
    json!([a.line, a.column, b.line, b.column])
}

fn node(k: &str, s: Span) -> Map<String, Value> {
    let mut m = Map::new();
    m.insert("k".into(), Value::String(k.into()));
    m.insert("sp".into(), sp(s));
    m
}

fn toks<T: ToTokens>(t: &T) -> String {
    // normalised token string
    let s = t.to_token_stream().to_string();
    s
}

fn ty_str(t: &Type) -> String {
    toks(t).replace(" :: ", "::").replace(" < ", "<").replace(" >", ">").replace("< ", "<").replace(" ,", ",").replace("& ", "&")
}

fn path_segs(p: &Path) -> Vec<String> {
    p.segments.iter().map(|s| s.ident.to_string()).collect()
}

fn path_val(p: &Path) -> Value {
    let segs = path_segs(p);
    let mut generic = Vec::new();
    for s in p.segments.iter() {
        if let PathArguments::AngleBracketed(a) = &s.arguments {
            generic.push(toks(a));
        }
    }
    json!({"segs": segs, "s": segs.join("::"), "g": generic.join("")})
}

fn lower_lit(l: &Lit) -> Value {
    let mut m = node("lit", l.span());
    match l {
        Lit::Str(s) => {
            m.insert("t".into(), "str".into());
            m.insert("v".into(), s.value().into());
        }
        Lit::ByteStr(s) => {
            m.insert("t".into(), "bytestr".into());
            m.insert("v".into(), String::from_utf8_lossy(&s.value()).to_string().into());
        }
        Lit::CStr(_) => {
            m.insert("t".into(), "cstr".into());
        }
        Lit::Byte(b) => {
            m.insert("t".into(), "byte".into());
            m.insert("v".into(), (b.value() as u64).into());
        }
        Lit::Char(c) => {
            m.insert("t".into(), "char".into());
            m.insert("v".into(), c.value().to_string().into());
            m.insert("cp".into(), (c.value() as u32).into());
        }
        Lit::Int(i) => {
            m.insert("t".into(), "int".into());
            m.insert("v".into(), i.base10_digits().to_string().into());
            m.insert("suffix".into(), i.suffix().to_string().into());
        }
        Lit::Float(f) => {
            m.insert("t".into(), "float".into());
            m.insert("v".into(), f.base10_digits().to_string().into());
            m.insert("suffix".into(), f.suffix().to_string().into());
        }
        Lit::Bool(b) => {
            m.insert("t".into(), "bool".into());
            m.insert("v".into(), b.value.into());
        }
        Lit::Verbatim(v) => {
            m.insert("t".into(), "verbatim".into());
            m.insert("v".into(), v.to_string().into());
        }
        _ => {
            m.insert("t".into(), "other".into());
        }
    }
    Value::Object(m)
}

fn lower_macro(mac: &Macro, s: Span) -> Value {
    let mut m = node("mac", s);
    let name = path_segs(&mac.path).last().cloned().unwrap_or_default();
    m.insert("name".into(), name.clone().into());
    m.insert("path".into(), path_segs(&mac.path).join("::").into());
    m.insert("raw".into(), mac.tokens.to_string().into());
    if name == "matches" {
        // expr , pat [if guard]
        let parser = |input: parse::ParseStream| -> Result<(Expr, Pat, Option<Expr>)> {
            let e: Expr = input.parse()?;
            input.parse::<Token![,]>()?;
            let p = Pat::parse_multi_with_leading_vert(input)?;
            let g = if input.peek(Token![if]) {
                input.parse::<Token![if]>()?;
                Some(input.parse::<Expr>()?)
            } else {
                None
            };
            let _ = input.parse::<Option<Token![,]>>();
            Ok((e, p, g))
        };
        if let Ok((e, p, g)) = parser.parse2(mac.tokens.clone()) {
            m.insert("e".into(), lower_expr(&e));
            m.insert("pat".into(), lower_pat(&p));
            m.insert("guard".into(), g.map(|g| lower_expr(&g)).unwrap_or(Value::Null));
        }
    } else if name == "macro_rules" {
        // definition: keep only raw
    } else {
        let parser = Punctuated::<Expr, Token![,]>::parse_terminated;
        if let Ok(args) = parser.parse2(mac.tokens.clone()) {
            let v: Vec<Value> = args.iter().map(lower_expr).collect();
            m.insert("args".into(), Value::Array(v));
        } else {
            // try as a block of statements (e.g. lazy_static!)
            m.insert("args".into(), Value::Null);
        }
    }
    Value::Object(m)
}

fn lower_block(b: &Block) -> Value {
    let mut m = node("block", b.span());
    m.insert("stmts".into(), Value::Array(b.stmts.iter().map(lower_stmt).collect()));
    Value::Object(m)
}

fn lower_stmt(s: &Stmt) -> Value {
    match s {
        Stmt::Local(l) => {
            let mut m = node("local", l.span());
            let (pat, ty) = match &l.pat {
                Pat::Type(pt) => (lower_pat(&pt.pat), Value::String(ty_str(&pt.ty))),
                p => (lower_pat(p), Value::Null),
            };
            m.insert("pat".into(), pat);
            m.insert("ty".into(), ty);
            if let Some(init) = &l.init {
                m.insert("init".into(), lower_expr(&init.expr));
                m.insert(
                    "else".into(),
                    init.diverge.as_ref().map(|(_, e)| lower_expr(e)).unwrap_or(Value::Null),
                );
            } else {
                m.insert("init".into(), Value::Null);
                m.insert("else".into(), Value::Null);
            }
            Value::Object(m)
        }
        Stmt::Item(i) => {
            let mut m = node("item", i.span());
            m.insert("item".into(), lower_item(i));
            Value::Object(m)
        }
        Stmt::Expr(e, semi) => {
            let mut m = node("expr", e.span());
            m.insert("e".into(), lower_expr(e));
            m.insert("semi".into(), semi.is_some().into());
            Value::Object(m)
        }
        Stmt::Macro(sm) => {
            let mut m = node("expr", sm.span());
            m.insert("e".into(), lower_macro(&sm.mac, sm.span()));
            m.insert("semi".into(), sm.semi_token.is_some().into());
            Value::Object(m)
        }
    }
}

fn label_str(l: &Option<Label>) -> Value {
    l.as_ref().map(|l| Value::String(l.name.ident.to_string())).unwrap_or(Value::Null)
}

fn binop_str(op: &BinOp) -> String {
    toks(op)
}

fn lower_expr(e: &Expr) -> Value {
    let s = e.span();
    match e {
        Expr::Lit(l) => lower_lit(&l.lit),
        Expr::Path(p) => {
            let mut m = node("path", s);
            let pv = path_val(&p.path);
            m.insert("segs".into(), pv["segs"].clone());
            m.insert("s".into(), pv["s"].clone());
            m.insert("g".into(), pv["g"].clone());
            if let Some(q) = &p.qself {
                m.insert("qself".into(), ty_str(&q.ty).into());
            }
            Value::Object(m)
        }
        Expr::Call(c) => {
            let mut m = node("call", s);
            m.insert("f".into(), lower_expr(&c.func));
            m.insert("args".into(), Value::Array(c.args.iter().map(lower_expr).collect()));
            Value::Object(m)
        }
        Expr::MethodCall(c) => {
            let mut m = node("mcall", s);
            m.insert("recv".into(), lower_expr(&c.receiver));
            m.insert("m".into(), c.method.to_string().into());
            m.insert("msp".into(), sp(c.method.span()));
            m.insert(
                "tf".into(),
                c.turbofish.as_ref().map(|t| Value::String(toks(t))).unwrap_or(Value::Null),
            );
            m.insert("args".into(), Value::Array(c.args.iter().map(lower_expr).collect()));
            Value::Object(m)
        }
        Expr::Macro(mc) => lower_macro(&mc.mac, s),
        Expr::Field(f) => {
            let mut m = node("field", s);
            m.insert("base".into(), lower_expr(&f.base));
            let name = match &f.member {
                Member::Named(i) => i.to_string(),
                Member::Unnamed(i) => i.index.to_string(),
            };
            m.insert("name".into(), name.into());
            Value::Object(m)
        }
        Expr::Index(i) => {
            let mut m = node("index", s);
            m.insert("base".into(), lower_expr(&i.expr));
            m.insert("idx".into(), lower_expr(&i.index));
            Value::Object(m)
        }
        Expr::Unary(u) => {
            let mut m = node("unary", s);
            m.insert("op".into(), toks(&u.op).into());
            m.insert("e".into(), lower_expr(&u.expr));
            Value::Object(m)
        }
        Expr::Binary(b) => {
            let mut m = node("binary", s);
            m.insert("op".into(), binop_str(&b.op).into());
            m.insert("l".into(), lower_expr(&b.left));
            m.insert("r".into(), lower_expr(&b.right));
            Value::Object(m)
        }
        Expr::Assign(a) => {
            let mut m = node("assign", s);
            m.insert("l".into(), lower_expr(&a.left));
            m.insert("r".into(), lower_expr(&a.right));
            Value::Object(m)
        }
        Expr::Reference(r) => {
            let mut m = node("ref", s);
            m.insert("mut".into(), r.mutability.is_some().into());
            m.insert("e".into(), lower_expr(&r.expr));
            Value::Object(m)
        }
        Expr::RawAddr(r) => {
            let mut m = node("ref", s);
            m.insert("mut".into(), matches!(r.mutability, PointerMutability::Mut(_)).into());
            m.insert("raw".into(), true.into());
            m.insert("e".into(), lower_expr(&r.expr));
            Value::Object(m)
        }
        Expr::If(i) => {
            let mut m = node("if", s);
            m.insert("cond".into(), lower_expr(&i.cond));
            m.insert("then".into(), lower_block(&i.then_branch));
            m.insert(
                "else".into(),
                i.else_branch.as_ref().map(|(_, e)| lower_expr(e)).unwrap_or(Value::Null),
            );
            Value::Object(m)
        }
        Expr::Let(l) => {
            let mut m = node("let", s);
            m.insert("pat".into(), lower_pat(&l.pat));
            m.insert("e".into(), lower_expr(&l.expr));
            Value::Object(m)
        }
        Expr::Match(mt) => {
            let mut m = node("match", s);
            m.insert("e".into(), lower_expr(&mt.expr));
            let arms: Vec<Value> = mt
                .arms
                .iter()
                .map(|a| {
                    let mut am = node("arm", a.span());
                    am.insert("pat".into(), lower_pat(&a.pat));
                    am.insert(
                        "guard".into(),
                        a.guard.as_ref().map(|(_, g)| lower_expr(g)).unwrap_or(Value::Null),
                    );
                    am.insert("body".into(), lower_expr(&a.body));
                    Value::Object(am)
                })
                .collect();
            m.insert("arms".into(), Value::Array(arms));
            Value::Object(m)
        }
        Expr::Block(b) => {
            let mut v = lower_block(&b.block);
            if let Value::Object(m) = &mut v {
                m.insert("label".into(), label_str(&b.label));
            }
            v
        }
        Expr::Unsafe(b) => {
            let mut v = lower_block(&b.block);
            if let Value::Object(m) = &mut v {
                m.insert("unsafe".into(), true.into());
            }
            v
        }
        Expr::Const(b) => lower_block(&b.block),
        Expr::Loop(l) => {
            let mut m = node("loop", s);
            m.insert("label".into(), label_str(&l.label));
            m.insert("body".into(), lower_block(&l.body));
            Value::Object(m)
        }
        Expr::While(w) => {
            let mut m = node("while", s);
            m.insert("label".into(), label_str(&w.label));
            m.insert("cond".into(), lower_expr(&w.cond));
            m.insert("body".into(), lower_block(&w.body));
            Value::Object(m)
        }
        Expr::ForLoop(f) => {
            let mut m = node("for", s);
            m.insert("label".into(), label_str(&f.label));
            m.insert("pat".into(), lower_pat(&f.pat));
            m.insert("e".into(), lower_expr(&f.expr));
            m.insert("body".into(), lower_block(&f.body));
            Value::Object(m)
        }
        Expr::Break(b) => {
            let mut m = node("break", s);
            m.insert(
                "label".into(),
                b.label.as_ref().map(|l| Value::String(l.ident.to_string())).unwrap_or(Value::Null),
            );
            m.insert("e".into(), b.expr.as_ref().map(|e| lower_expr(e)).unwrap_or(Value::Null));
            Value::Object(m)
        }
        Expr::Continue(c) => {
            let mut m = node("continue", s);
            m.insert(
                "label".into(),
                c.label.as_ref().map(|l| Value::String(l.ident.to_string())).unwrap_or(Value::Null),
            );
            Value::Object(m)
        }
        Expr::Return(r) => {
            let mut m = node("return", s);
            m.insert("e".into(), r.expr.as_ref().map(|e| lower_expr(e)).unwrap_or(Value::Null));
            Value::Object(m)
        }
        Expr::Closure(c) => {
            let mut m = node("closure", s);
            m.insert("params".into(), Value::Array(c.inputs.iter().map(lower_pat).collect()));
            m.insert("move".into(), c.capture.is_some().into());
            m.insert(
                "ret".into(),
                match &c.output {
                    ReturnType::Default => Value::Null,
                    ReturnType::Type(_, t) => Value::String(ty_str(t)),
                },
            );
            m.insert("body".into(), lower_expr(&c.body));
            Value::Object(m)
        }
        Expr::Try(t) => {
            let mut m = node("try", s);
            m.insert("e".into(), lower_expr(&t.expr));
            Value::Object(m)
        }
        Expr::Struct(st) => {
            let mut m = node("struct", s);
            let pv = path_val(&st.path);
            m.insert("path".into(), pv["s"].clone());
            m.insert("segs".into(), pv["segs"].clone());
            let fields: Vec<Value> = st
                .fields
                .iter()
                .map(|f| {
                    let name = match &f.member {
                        Member::Named(i) => i.to_string(),
                        Member::Unnamed(i) => i.index.to_string(),
                    };
                    json!({"name": name, "e": lower_expr(&f.expr), "short": f.colon_token.is_none()})
                })
                .collect();
            m.insert("fields".into(), Value::Array(fields));
            m.insert("rest".into(), st.rest.as_ref().map(|e| lower_expr(e)).unwrap_or(Value::Null));
            Value::Object(m)
        }
        Expr::Tuple(t) => {
            let mut m = node("tuple", s);
            m.insert("elems".into(), Value::Array(t.elems.iter().map(lower_expr).collect()));
            Value::Object(m)
        }
        Expr::Array(a) => {
            let mut m = node("array", s);
            m.insert("elems".into(), Value::Array(a.elems.iter().map(lower_expr).collect()));
            Value::Object(m)
        }
        Expr::Repeat(r) => {
            let mut m = node("repeat", s);
            m.insert("e".into(), lower_expr(&r.expr));
            m.insert("len".into(), lower_expr(&r.len));
            Value::Object(m)
        }
        Expr::Range(r) => {
            let mut m = node("range", s);
            m.insert("from".into(), r.start.as_ref().map(|e| lower_expr(e)).unwrap_or(Value::Null));
            m.insert("to".into(), r.end.as_ref().map(|e| lower_expr(e)).unwrap_or(Value::Null));
            m.insert("incl".into(), matches!(r.limits, RangeLimits::Closed(_)).into());
            Value::Object(m)
        }
        Expr::Cast(c) => {
            let mut m = node("cast", s);
            m.insert("e".into(), lower_expr(&c.expr));
            m.insert("ty".into(), ty_str(&c.ty).into());
            Value::Object(m)
        }
        Expr::Paren(p) => lower_expr(&p.expr),
        Expr::Group(g) => lower_expr(&g.expr),
        Expr::Await(a) => {
            let mut m = node("await", s);
            m.insert("e".into(), lower_expr(&a.base));
            Value::Object(m)
        }
        Expr::Async(a) => lower_block(&a.block),
        Expr::TryBlock(b) => lower_block(&b.block),
        Expr::Yield(_) | Expr::Infer(_) => Value::Object(node("other", s)),
        Expr::Verbatim(v) => {
            let mut m = node("verbatim", s);
            m.insert("raw".into(), v.to_string().into());
            Value::Object(m)
        }
        _ => {
            let mut m = node("other", s);
            m.insert("raw".into(), toks(e).into());
            Value::Object(m)
        }
    }
}

fn lower_pat(p: &Pat) -> Value {
    let s = p.span();
    match p {
        Pat::Ident(i) => {
            let mut m = node("p_ident", s);
            m.insert("name".into(), i.ident.to_string().into());
            m.insert("by_ref".into(), i.by_ref.is_some().into());
            m.insert("mut".into(), i.mutability.is_some().into());
            m.insert(
                "sub".into(),
                i.subpat.as_ref().map(|(_, p)| lower_pat(p)).unwrap_or(Value::Null),
            );
            Value::Object(m)
        }
        Pat::Wild(_) => Value::Object(node("p_wild", s)),
        Pat::Rest(_) => Value::Object(node("p_rest", s)),
        Pat::Lit(l) => {
            let mut m = node("p_lit", s);
            m.insert("e".into(), lower_lit(&l.lit));
            Value::Object(m)
        }
        Pat::Path(pp) => {
            let mut m = node("p_path", s);
            let pv = path_val(&pp.path);
            m.insert("s".into(), pv["s"].clone());
            m.insert("segs".into(), pv["segs"].clone());
            Value::Object(m)
        }
        Pat::Tuple(t) => {
            let mut m = node("p_tuple", s);
            m.insert("elems".into(), Value::Array(t.elems.iter().map(lower_pat).collect()));
            Value::Object(m)
        }
        Pat::TupleStruct(t) => {
            let mut m = node("p_ts", s);
            let pv = path_val(&t.path);
            m.insert("s".into(), pv["s"].clone());
            m.insert("segs".into(), pv["segs"].clone());
            m.insert("elems".into(), Value::Array(t.elems.iter().map(lower_pat).collect()));
            Value::Object(m)
        }
        Pat::Struct(st) => {
            let mut m = node("p_struct", s);
            let pv = path_val(&st.path);
            m.insert("s".into(), pv["s"].clone());
            m.insert("segs".into(), pv["segs"].clone());
            let fields: Vec<Value> = st
                .fields
                .iter()
                .map(|f| {
                    let name = match &f.member {
                        Member::Named(i) => i.to_string(),
                        Member::Unnamed(i) => i.index.to_string(),
                    };
                    json!({"name": name, "pat": lower_pat(&f.pat), "short": f.colon_token.is_none()})
                })
                .collect();
            m.insert("fields".into(), Value::Array(fields));
            m.insert("rest".into(), st.rest.is_some().into());
            Value::Object(m)
        }
        Pat::Or(o) => {
            let mut m = node("p_or", s);
            m.insert("cases".into(), Value::Array(o.cases.iter().map(lower_pat).collect()));
            Value::Object(m)
        }
        Pat::Range(r) => {
            let mut m = node("p_range", s);
            m.insert("lo".into(), r.start.as_ref().map(|e| lower_expr(e)).unwrap_or(Value::Null));
            m.insert("hi".into(), r.end.as_ref().map(|e| lower_expr(e)).unwrap_or(Value::Null));
            m.insert("incl".into(), matches!(r.limits, RangeLimits::Closed(_)).into());
            Value::Object(m)
        }
        Pat::Reference(r) => {
            let mut m = node("p_ref", s);
            m.insert("mut".into(), r.mutability.is_some().into());
            m.insert("pat".into(), lower_pat(&r.pat));
            Value::Object(m)
        }
        Pat::Slice(sl) => {
            let mut m = node("p_slice", s);
            m.insert("elems".into(), Value::Array(sl.elems.iter().map(lower_pat).collect()));
            Value::Object(m)
        }
        Pat::Type(t) => {
            let mut m = node("p_type", s);
            m.insert("pat".into(), lower_pat(&t.pat));
            m.insert("ty".into(), ty_str(&t.ty).into());
            Value::Object(m)
        }
        Pat::Paren(pp) => lower_pat(&pp.pat),
        Pat::Const(c) => {
            let mut m = node("p_const", s);
            m.insert("e".into(), lower_block(&c.block));
            Value::Object(m)
        }
        Pat::Macro(mc) => lower_macro(&mc.mac, s),
        _ => {
            let mut m = node("p_other", s);
            m.insert("raw".into(), toks(p).into());
            Value::Object(m)
        }
    }
}

fn attrs_val(attrs: &[Attribute]) -> Value {
    Value::Array(
        attrs
            .iter()
            .map(|a| Value::String(toks(&a.meta)))
            .collect(),
    )
}

fn is_cfg_test(attrs: &[Attribute]) -> bool {
    attrs.iter().any(|a| {
        let s = toks(&a.meta).replace(' ', "");
        s == "cfg(test)" || s == "test"
    })
}

fn vis_str(v: &Visibility) -> String {
    match v {
        Visibility::Public(_) => "pub".into(),
        Visibility::Restricted(r) => format!("pub({})", path_segs(&r.path).join("::")),
        Visibility::Inherited => "".into(),
    }
}

fn lower_sig(sig: &Signature, m: &mut Map<String, Value>) {
    m.insert("name".into(), sig.ident.to_string().into());
    m.insert("namesp".into(), sp(sig.ident.span()));
    let params: Vec<Value> = sig
        .inputs
        .iter()
        .map(|a| match a {
            FnArg::Receiver(r) => {
                json!({"self": true, "mut": r.mutability.is_some(), "ref": r.reference.is_some(), "ty": ty_str(&r.ty)})
            }
            FnArg::Typed(t) => json!({"pat": lower_pat(&t.pat), "ty": ty_str(&t.ty)}),
        })
        .collect();
    m.insert("params".into(), Value::Array(params));
    m.insert(
        "ret".into(),
        match &sig.output {
            ReturnType::Default => Value::Null,
            ReturnType::Type(_, t) => Value::String(ty_str(t)),
        },
    );
    m.insert("generics".into(), toks(&sig.generics).into());
    m.insert("unsafe".into(), sig.unsafety.is_some().into());
}

fn lower_fields(f: &Fields) -> Value {
    match f {
        Fields::Named(n) => Value::Array(
            n.named
                .iter()
                .map(|f| json!({"name": f.ident.as_ref().unwrap().to_string(), "ty": ty_str(&f.ty), "vis": vis_str(&f.vis)}))
                .collect(),
        ),
        Fields::Unnamed(u) => Value::Array(
            u.unnamed
                .iter()
                .enumerate()
                .map(|(i, f)| json!({"name": i.to_string(), "ty": ty_str(&f.ty), "vis": vis_str(&f.vis)}))
                .collect(),
        ),
        Fields::Unit => Value::Array(vec![]),
    }
}

fn lower_item(i: &Item) -> Value {
    let s = i.span();
    match i {
        Item::Fn(f) => {
            let mut m = node("fn", s);
            lower_sig(&f.sig, &mut m);
            m.insert("vis".into(), vis_str(&f.vis).into());
            m.insert("attrs".into(), attrs_val(&f.attrs));
            m.insert("test".into(), is_cfg_test(&f.attrs).into());
            m.insert("body".into(), lower_block(&f.block));
            Value::Object(m)
        }
        Item::Impl(im) => {
            let mut m = node("impl", s);
            m.insert("self_ty".into(), ty_str(&im.self_ty).into());
            m.insert(
                "trait".into(),
                im.trait_.as_ref().map(|(_, p, _)| Value::String(toks(p).replace(' ', ""))).unwrap_or(Value::Null),
            );
            m.insert("generics".into(), toks(&im.generics).into());
            m.insert("test".into(), is_cfg_test(&im.attrs).into());
            let items: Vec<Value> = im
                .items
                .iter()
                .filter_map(|ii| match ii {
                    ImplItem::Fn(f) => {
                        let mut fm = node("fn", f.span());
                        lower_sig(&f.sig, &mut fm);
                        fm.insert("vis".into(), vis_str(&f.vis).into());
                        fm.insert("attrs".into(), attrs_val(&f.attrs));
                        fm.insert("test".into(), is_cfg_test(&f.attrs).into());
                        fm.insert("body".into(), lower_block(&f.block));
                        Some(Value::Object(fm))
                    }
                    ImplItem::Const(c) => {
                        let mut cm = node("const", c.span());
                        cm.insert("name".into(), c.ident.to_string().into());
                        cm.insert("ty".into(), ty_str(&c.ty).into());
                        cm.insert("e".into(), lower_expr(&c.expr));
                        Some(Value::Object(cm))
                    }
                    ImplItem::Macro(mc) => Some(lower_macro(&mc.mac, mc.span())),
                    _ => None,
                })
                .collect();
            m.insert("items".into(), Value::Array(items));
            Value::Object(m)
        }
        Item::Mod(md) => {
            let mut m = node("mod", s);
            m.insert("name".into(), md.ident.to_string().into());
            m.insert("test".into(), is_cfg_test(&md.attrs).into());
            m.insert("attrs".into(), attrs_val(&md.attrs));
            if let Some((_, items)) = &md.content {
                m.insert("items".into(), Value::Array(items.iter().map(lower_item).collect()));
            } else {
                m.insert("items".into(), Value::Null);
            }
            Value::Object(m)
        }
        Item::Enum(en) => {
            let mut m = node("enum", s);
            m.insert("name".into(), en.ident.to_string().into());
            m.insert("attrs".into(), attrs_val(&en.attrs));
            let vars: Vec<Value> = en
                .variants
                .iter()
                .map(|v| {
                    json!({
                        "name": v.ident.to_string(),
                        "sp": sp(v.span()),
                        "named": matches!(v.fields, Fields::Named(_)),
                        "fields": lower_fields(&v.fields),
                        "disc": v.discriminant.as_ref().map(|(_, e)| lower_expr(e)).unwrap_or(Value::Null),
                    })
                })
                .collect();
            m.insert("variants".into(), Value::Array(vars));
            Value::Object(m)
        }
        Item::Struct(st) => {
            let mut m = node("structdef", s);
            m.insert("name".into(), st.ident.to_string().into());
            m.insert("attrs".into(), attrs_val(&st.attrs));
            m.insert("named".into(), matches!(st.fields, Fields::Named(_)).into());
            m.insert("fields".into(), lower_fields(&st.fields));
            Value::Object(m)
        }
        Item::Const(c) => {
            let mut m = node("const", s);
            m.insert("name".into(), c.ident.to_string().into());
            m.insert("ty".into(), ty_str(&c.ty).into());
            m.insert("e".into(), lower_expr(&c.expr));
            Value::Object(m)
        }
        Item::Static(c) => {
            let mut m = node("static", s);
            m.insert("name".into(), c.ident.to_string().into());
            m.insert("ty".into(), ty_str(&c.ty).into());
            m.insert("e".into(), lower_expr(&c.expr));
            Value::Object(m)
        }
        Item::Trait(t) => {
            let mut m = node("trait", s);
            m.insert("name".into(), t.ident.to_string().into());
            let items: Vec<Value> = t
                .items
                .iter()
                .filter_map(|ti| match ti {
                    TraitItem::Fn(f) => {
                        let mut fm = node("fn", f.span());
                        lower_sig(&f.sig, &mut fm);
                        fm.insert("vis".into(), "".into());
                        fm.insert("attrs".into(), attrs_val(&f.attrs));
                        fm.insert("test".into(), false.into());
                        fm.insert(
                            "body".into(),
                            f.default.as_ref().map(lower_block).unwrap_or(Value::Null),
                        );
                        Some(Value::Object(fm))
                    }
                    _ => None,
                })
                .collect();
            m.insert("items".into(), Value::Array(items));
            Value::Object(m)
        }
        Item::Macro(mc) => {
            let mut v = lower_macro(&mc.mac, s);
            if let Value::Object(m) = &mut v {
                if let Some(id) = &mc.ident {
                    m.insert("def".into(), id.to_string().into());
                }
                m.insert("item_level".into(), true.into());
            }
            v
        }
        Item::Use(u) => {
            let mut m = node("use", s);
            m.insert("raw".into(), toks(&u.tree).replace(' ', "").into());
            Value::Object(m)
        }
        Item::Type(t) => {
            let mut m = node("typealias", s);
            m.insert("name".into(), t.ident.to_string().into());
            m.insert("ty".into(), ty_str(&t.ty).into());
            Value::Object(m)
        }
        _ => {
            let mut m = node("other_item", s);
            let raw = toks(i);
            m.insert("raw".into(), raw.chars().take(200).collect::<String>().into());
            Value::Object(m)
        }
    }
}

#[allow(dead_code)]
fn count_tokens(ts: TokenStream) -> usize {
    ts.into_iter()
        .map(|t| match t {
            TokenTree::Group(g) => 1 + count_tokens(g.stream()),
            _ => 1,
        })
        .sum()
}

fn main() {
    let args: Vec<String> = std::env::args().collect();
    if args.len() < 3 {
        eprintln!("usage: srcfacts <out.json> <file.rs>...");
        std::process::exit(2);
    }
    let mut files = Vec::new();
    for p in &args[2..] {
        let src = match std::fs::read_to_string(p) {
            Ok(s) => s,
            Err(e) => {
                eprintln!("srcfacts: cannot read {}: {}", p, e);
                std::process::exit(3);
            }
        };
        let file = match syn::parse_file(&src) {
            Ok(f) => f,
            Err(e) => {
                let st = e.span().start();
                eprintln!("srcfacts: parse error in {} at {}:{}: {}", p, st.line, st.column, e);
                std::process::exit(4);
            }
        };
        let items: Vec<Value> = file.items.iter().map(lower_item).collect();
        files.push(json!({"path": p, "items": items}));
    }
    let out = json!({"files": files});
    std::fs::write(&args[1], serde_json::to_vec(&out).unwrap()).unwrap();
}
