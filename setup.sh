#!/bin/sh
# Build the analysis tools offline and warm the dependency build of the three extraction target dirs.
set -e
cd "$(dirname "$0")"
export CARGO_NET_OFFLINE=true
(cd tools/srcfacts && cargo build --release --offline)
(cd tools/mirfacts && cargo +nightly build --release --offline)
python3 lib/extract.py
