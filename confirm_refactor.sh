#!/bin/bash
# confirm_refactor.sh <src dir with patch.diff demo.rs meta.json> <dest name under /verif/refactorings>
# Confirms in a scratch worktree: applies, builds, the differential demo passes on the clean tree AND with the patch, suite = 84.
set -u
SRC="$1"; NAME="$2"
WT=${CONFIRM_WT:-/tmp/wt/confirm}
export CARGO_NET_OFFLINE=true
if [ ! -d "$WT" ]; then git -C /repo worktree add -q --detach "$WT" HEAD || exit 9; fi
cd "$WT" && git reset -q --hard && git checkout -q --detach "$(git -C /repo rev-parse HEAD)" && git reset -q --hard && git clean -fdq -e target
CRATE=$(python3 -c "import json,sys;m=json.load(open('$SRC/meta.json'));c=m.get('crate','');print('glass-easel-stylesheet-compiler' if 'stylesheet' in c else 'glass-easel-template-compiler')")
LOG="$SRC/confirm.log"; : > "$LOG"
mkdir -p "$WT/$CRATE/tests"; cp "$SRC/demo.rs" "$WT/$CRATE/tests/seeded_demo.rs"
timeout 900 cargo test -p $CRATE --test seeded_demo --offline >>"$LOG" 2>&1; CLEAN=$?
git apply "$SRC/patch.diff" >>"$LOG" 2>&1; AP=$?
timeout 900 cargo build --workspace --offline >>"$LOG" 2>&1; BUILD=$?
timeout 900 cargo test -p $CRATE --test seeded_demo --offline >>"$LOG" 2>&1; WITH=$?
rm -f "$WT/$CRATE/tests/seeded_demo.rs"
timeout 900 cargo test --workspace --no-fail-fast --offline >"$SRC/suite.log" 2>&1; SUITE=$?
PASSED=$(grep -E "^test result: ok" "$SRC/suite.log" | sed -E 's/.* ([0-9]+) passed.*/\1/' | paste -sd+ | bc)
git reset -q --hard ; git clean -fdq -e target
echo "$NAME apply=$AP build=$BUILD demo_clean=$CLEAN demo_with_patch=$WITH suite=$SUITE passed=$PASSED"
if [ $AP -eq 0 ] && [ $BUILD -eq 0 ] && [ $CLEAN -eq 0 ] && [ $WITH -eq 0 ] && [ $SUITE -eq 0 ] && [ "$PASSED" = "84" ]; then
  mkdir -p /verif/refactorings/$NAME && cp "$SRC/patch.diff" "$SRC/demo.rs" /verif/refactorings/$NAME/
  python3 - "$SRC/meta.json" /verif/refactorings/$NAME/meta.json "$NAME" <<'PY'
import json,sys
m=json.load(open(sys.argv[1]))
m["confirmed_by_me"]={"ran":["differential demo on the clean tree: pass","git apply patch.diff","cargo build --workspace --offline: ok","differential demo with the refactoring: pass","cargo test --workspace --no-fail-fast --offline: 84 passed"]}
m["name"]=sys.argv[3]
json.dump(m,open(sys.argv[2],"w"),indent=1)
PY
  echo "$NAME CONFIRMED"
else
  echo "$NAME REJECTED"
fi
