#!/usr/bin/env python3
"""Regenerate MANIFEST.json from the rule packs present under rules/ (run after adding a pack)."""
import importlib, json, os, sys
VERIF = os.path.dirname(os.path.abspath(__file__))
sys.path.insert(0, VERIF)
sys.path.insert(0, os.path.join(VERIF, "lib"))
props = [json.loads(l) for l in open(os.path.join(VERIF, "properties.jsonl"))]
NA = {}
na_path = os.path.join(VERIF, "not_applicable.json")
if os.path.exists(na_path):
    NA = json.load(open(na_path))
checks, na = [], []
for p in props:
    pid = p["id"]
    if os.path.exists(os.path.join(VERIF, "rules", pid.lower() + ".py")) and pid not in NA:
        m = importlib.import_module("rules." + pid.lower())
        checks.append({
            "property_id": pid,
            "quick_cmd": "./check %s --tier quick" % pid,
            "thorough_cmd": "./check %s --tier thorough" % pid,
            "evidence_file": "/verif/evidence/%s.json" % pid,
            "replay_cmd_template": "./check --explain {path}",
            "engine": "rulepack",
            "level_claimed": {
                "category": "other",
                "text": getattr(m, "LEVEL_TEXT", m.EXPLANATION),
                "design_ref": "DESIGN.md section 3, " + pid,
            },
            "level_note": "; ".join(m.ASSUMPTIONS),
            "technique": getattr(m, "TECHNIQUE", "static analysis: rules over syntax IR (syn) and resolved MIR facts (rustc_private driver)"),
        })
    else:
        na.append({"property_id": pid, "reason": NA.get(pid, "check under construction (see DESIGN.md section 3); not yet claimed")})
man = {
    "version": 1,
    "setup_cmd": "./setup.sh",
    "hooks": {
        "guard": "glass_easel_verif",
        "enable": "none needed: static analysis reads the tree as it is; no hook commits exist",
        "baseline_off_cmd": "cd /repo && cargo test --workspace --no-fail-fast --offline",
        "source_commits": [],
        "add_only": True,
    },
    "engines": [
        {"name": "srcfacts", "path": "tools/srcfacts", "serves_properties": [c["property_id"] for c in checks],
         "kind_free_text": "syn-based lowering of original and macro-expanded sources to a JSON syntax IR"},
        {"name": "mirfacts", "path": "tools/mirfacts", "serves_properties": [c["property_id"] for c in checks],
         "kind_free_text": "rustc_private driver: resolved callees, assert terminators, field writes per MIR body"},
        {"name": "rulepack", "path": "check", "serves_properties": [c["property_id"] for c in checks],
         "kind_free_text": "python rule packs (rules/cNN.py) over the two fact bases; known-findings and evidence plumbing"},
    ],
    "checks": checks,
    "not_applicable": na,
    "notes": "All checks are static analyses of /repo's working tree (never executes the compilers). See DESIGN.md.",
}
json.dump(man, open(os.path.join(VERIF, "MANIFEST.json"), "w"), indent=1)
print("claimed:", [c["property_id"] for c in checks])
