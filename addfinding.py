#!/usr/bin/env python3
"""addfinding.py <property> <key> <status known|fixed> <commit|-> <what> [witness]"""
import json, sys
p = "/verif/known_findings.json"
d = json.load(open(p))
prop, key, status, commit, what = sys.argv[1:6]
wit = sys.argv[6] if len(sys.argv) > 6 else ""
d["findings"] = [f for f in d["findings"] if not (f["property"] == prop and f["key"] == key)]
pre = "fixed: property=%s %s " % (prop, commit) if status == "fixed" else ""
d["findings"].append({"property": prop, "key": key, "status": status, "commit": None if commit == "-" else commit, "what": pre + what, "witness": wit})
json.dump(d, open(p, "w"), indent=1)
