#!/usr/bin/env python3
"""dbg.py <prop> [substr] : print all obligations of a pack (debug helper)"""
import sys, importlib.machinery, importlib.util
sys.path.insert(0, '/verif'); sys.path.insert(0, '/verif/lib')
loader = importlib.machinery.SourceFileLoader('chk', '/verif/check')
spec = importlib.util.spec_from_loader('chk', loader)
chk = importlib.util.module_from_spec(spec); loader.exec_module(chk)
import extract
ctx = chk.Ctx(extract.extract(), 'quick', 0); ctx.ob = chk.ob
mod = importlib.import_module('rules.' + sys.argv[1].lower())
sub = sys.argv[2] if len(sys.argv) > 2 else ''
for o in mod.run(ctx):
    if sub in o['key'] or sub in o['detail']:
        print('OK ' if o['ok'] else 'BAD', o['key'], '|', o['where'], '|', o['detail'][:300])
