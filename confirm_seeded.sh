#!/bin/bash
# confirm_seeded.sh <src dir with patch.diff demo.rs meta.json> <dest name under /verif/seeded>
# Confirms in a scratch worktree (outside /repo and /verif): builds, suite passes with patch, demo fails with / passes without.
set -u
SRC="$1"; NAME="$2"
WT=${CONFIRM_WT:-/tmp/wt/confirm}
export CARGO_NET_OFFLINE=true
if [ ! -d "$WT" ]; then git -C /repo worktree add -q --detach "$WT" HEAD || exit 9; fi
cd "$WT" && git reset -q --hard && git checkout -q --detach "$(git -C /repo rev-parse HEAD)" && git reset -q --hard && git clean -fdq -e target
CRATE=$(python3 -c "import json,sys;m=json.load(open('$SRC/meta.json'));c=m.get('crate','');print('glass-easel-stylesheet-compiler' if 'stylesheet' in c else 'glass-easel-template-compiler')")
LOG="$SRC/confirm.log"; : > "$LOG"
mkdir -p "$WT/$CRATE/tests"; cp "$SRC/demo.rs" "$WT/$CRATE/tests/seeded_demo.rs"
# without patch
timeout 600 cargo test -p $CRATE --test seeded_demo --offline >>"$LOG" 2>&1; CLEAN=$?
git apply "$SRC/patch.diff" >>"$LOG" 2>&1 || { git reset -q --hard; git apply --3way "$SRC/patch.diff" >>"$LOG" 2>&1; }; AP=$?
timeout 600 cargo build --workspace --offline >>"$LOG" 2>&1; BUILD=$?
timeout 600 cargo test -p $CRATE --test seeded_demo --offline >>"$LOG" 2>&1; WITH=$?
rm -f "$WT/$CRATE/tests/seeded_demo.rs"
timeout 900 cargo test --workspace --no-fail-fast --offline >"$SRC/suite.log" 2>&1; SUITE=$?
PASSED=$(grep -E "^test result: ok" "$SRC/suite.log" | sed -E 's/.* ([0-9]+) passed.*/\1/' | paste -sd+ | bc)
git reset -q --hard ; git clean -fdq -e target
echo "$NAME apply=$AP build=$BUILD demo_clean=$CLEAN demo_with_patch=$WITH suite=$SUITE passed=$PASSED"
if [ $AP -eq 0 ] && [ $BUILD -eq 0 ] && [ $CLEAN -eq 0 ] && [ $WITH -ne 0 ] && [ $SUITE -eq 0 ] && [ "$PASSED" = "84" ]; then
  mkdir -p /verif/seeded/$NAME && cp "$SRC/patch.diff" "$SRC/demo.rs" /verif/seeded/$NAME/
  python3 - "$SRC/meta.json" /verif/seeded/$NAME/meta.json "$NAME" <<'PY'
import json,sys
m=json.load(open(sys.argv[1]))
m["confirmed_by_me"]={"worktree":"/tmp/wt/confirm (scratch, removed afterwards)","ran":["cargo test -p <crate> --test seeded_demo (clean tree): pass","git apply patch.diff","cargo build --workspace --offline: ok","cargo test -p <crate> --test seeded_demo (patched): FAIL","cargo test --workspace --no-fail-fast --offline (patched, without demo): 84 passed"]}
m["name"]=sys.argv[3]
json.dump(m,open(sys.argv[2],"w"),indent=1)
PY
  echo "$NAME CONFIRMED"
else
  echo "$NAME REJECTED"
fi
