#!/bin/sh
# tryall_scratch.sh <patch> [props...] : like tryall.sh but on a scratch copy of /repo (does not touch /repo)
P="$1"; shift
T=$(mktemp -d /tmp/verif-try-XXXXXX)
rsync -a --exclude target --exclude .git --exclude node_modules /repo/ $T/repo/
cd $T/repo && git apply "$P" || { echo "patch does not apply"; rm -rf $T; exit 3; }
cd /verif
export VERIF_REPO=$T/repo VERIF_EVIDENCE_DIR=$T/ev VERIF_OUT_DIR=$T/out
PROPS="$@"; [ -z "$PROPS" ] && PROPS="C01 C02 C03 C04 C05 C06 C07 C08 C09 C10 C11 C12 C13 C14 C15 C16 C17 C18 C19 C20"
for p in $PROPS; do ./check $p 2>&1 | grep -E "^  C[0-9]+\.|NOT-ANALYSABLE|^UNDECIDED" | sed -E 's/^  //' | cut -c1-160; done
rm -rf $T
