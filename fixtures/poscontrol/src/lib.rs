//! Positive controls: each function below violates one zero-expected rule of the rule packs.
//! The packs run their detectors over this crate on every run and fail closed if the
//! violation is not reported here (a detector that matches nothing passes vacuously forever).
use std::collections::{HashMap, HashSet};
use std::fmt::Write;

pub struct Group {
    pub trees: HashMap<String, String>,
    pub names: HashSet<String>,
}

/// C20.hash: hash-ordered iteration reaching an output buffer.
pub fn hash_order_emit(g: &Group) -> String {
    let mut s = String::new();
    for (k, v) in g.trees.iter() {
        write!(s, "{}={};", k, v).unwrap();
    }
    for k in &g.names {
        s.push_str(k);
    }
    s
}

/// C20.hash (accepted idiom): sorted before use.
pub fn hash_order_sorted(g: &Group) -> String {
    let mut v: Vec<_> = g.trees.iter().collect();
    v.sort();
    let mut s = String::new();
    for (k, val) in v {
        write!(s, "{}={};", k, val).unwrap();
    }
    s
}

/// C20.src: nondeterministic sources.
pub fn nondeterministic_sources() -> String {
    let t = std::time::SystemTime::now();
    let e = std::env::var("X").unwrap_or_default();
    let x = 5u8;
    static N: std::sync::atomic::AtomicUsize = std::sync::atomic::AtomicUsize::new(0);
    static M: std::sync::Mutex<u32> = std::sync::Mutex::new(0);
    let n = N.fetch_add(1, std::sync::atomic::Ordering::Relaxed);
    let m = *M.lock().unwrap();
    format!("{:?}{}{:p}{}{}", t, e, &x, n, m)
}

/// C02.float / C03.literal: a float displayed without a finiteness test.
pub fn float_display(x: f64) -> String {
    format!("{}", x)
}

/// C12.escaper: a string literal emitter that delegates to Rust's Debug.
pub fn debug_escaper(s: &str) -> String {
    format!("{:?}", s)
}

pub struct Cursor {
    pub cur_index: usize,
    pub utf16_col: u32,
}

/// C16.cursor: a cursor field written outside its owner's methods.
pub fn foreign_cursor_write(c: &mut Cursor) {
    c.cur_index += 1;
}
