"""C14 - stringify is a faithful, stable inverse of parse (structural half)."""
import re
import sir
import prectables as pt
from exprmodel import ExprModel, arm_table, bound_fields

RULE = ("C14.prec/ops: for every operator arm of the expression printer: allowed(left) <= class(op), allowed(right) < class(op), "
        "unary operand <= Unary, conditional test <= LogicOr; the printer's level table equals the ECMA class of the parser's token; "
        "the token printed equals the token the parser consumes for that variant. C14.children: every child position of every "
        "variant is printed. C14.literal: the escape forms the string-literal emitter can produce are read back by parse_lit_str. "
        "C14.escape: static text and quoted values reach the output through the HTML escapers, whose character classes cover "
        "`< \" &` (body) and `\" &` (quoted) with the right replacements. C14.prefix: every directive/prefix/attribute word the printer "
        "writes is one the parser's classifier recognises, and the event-prefix decision tree of the printer is the inverse of the "
        "parser's prefix -> (catch, mut, capture) table. C14.scope: a printer that adds scope names saves the stack height first and resets "
        "it unconditionally after its children are printed. (Scope-stack mirror: see C05.mirror.)")
EXPLANATION = ("Parser and printer are compared as sibling implementations of one grammar: operator tables, traversal completeness, "
               "attribute vocabulary and escaping classes are extracted from both and checked against each other and ECMA-262; the "
               "printer's output is never re-parsed.")
ASSUMPTIONS = ["regex crate character-class semantics", "ECMA-262 precedence table in refs/ecma_ops.json", "behavioural equality of re-parsed templates is not decided"]


def printer_rules(ctx):
    ob = ctx.ob
    tc = ctx.tc
    obs = []
    ref = pt.load_ref("ecma_ops.json")
    model = ExprModel(tc)
    order = pt.level_order(tc)
    rank = {n: i for i, n in enumerate(order)}
    consumers = pt.operator_consumers(tc)
    levels = pt.parser_levels(tc, model)
    var_token = {}
    for l in levels.values():
        for o in l["ops"]:
            c = consumers.get(o["consumer"])
            if c and c["token"]:
                var_token[o["variant"]] = c["token"]
    # unary tokens from parse_reverse-like function
    for f in tc.fns:
        if f.base == "Expression" and f.body and f.name.startswith("parse"):
            for n in sir.walk(f.body):
                if n.get("k") == "if" and n["cond"].get("k") == "let":
                    e = n["cond"]["e"]
                    if e.get("k") == "call" and (sir.call_path(e) or "").startswith("ParseOperator::"):
                        cons = e["f"]["segs"][-1]
                        for x in sir.walk(n["then"]):
                            if x.get("k") == "struct" and x["segs"][-1] in model.unary_variants():
                                c = consumers.get(cons)
                                if c and c["token"]:
                                    var_token.setdefault(x["segs"][-1], c["token"])
    tables = pt.level_tables(tc, model)
    prn = [t for q, t in tables.items() if "stringify" in t[0].module]
    if len(prn) != 1:
        return [ob("C14.prec/table/anchor", False, "stringify/expr.rs", "printer level table not found")]
    pf, ptab = prn[0]
    g = pt.main_expression_fn(tc, model, "stringify")
    if g is None:
        return [ob("C14.prec/printer/anchor", False, "stringify/expr.rs", "expression printer not found")]
    prf, pm, _n = g
    where = ctx.where(prf)
    table = arm_table(pm, model)
    binvars = model.binary_variants()
    unvars = model.unary_variants()
    for v in model.variants:
        kids = model.child_fields(v)
        if v not in table:
            obs.append(ob("C14.children/%s" % v, False, where, "variant %s has no arm in the expression printer" % v))
            continue
        arm, case = table[v][0]
        bf = bound_fields(case)
        names = [b for b in bf.values() if b]
        ev = pt.arm_events(arm["body"], names, variant=v)
        # children printed
        printed = set(e[1] for e in ev if e[0] == "child")
        missing = []
        for (fname, kind, target) in kids:
            b = bf.get(fname)
            if kind == "one":
                if b not in printed:
                    missing.append(fname)
            else:
                # list: a loop over the binding that prints the element values
                # (`for x in b..`, `while let Some(x) = it.next()` over an iterator made from b, `b.iter().for_each(|x| ..)`)
                import guards as G
                derived = G.derived_names(arm["body"], b) | {b} if b is not None else set()

                def about_b(e_):
                    return any(x.get("k") == "path" and len(x["segs"]) == 1 and x["segs"][0] in derived for x in sir.walk(e_))
                bodies = []
                for n in sir.walk(arm["body"]):
                    if n.get("k") == "for" and about_b(n["e"]):
                        bodies.append(n["body"])
                    elif n.get("k") == "while" and about_b(n["cond"]):
                        bodies.append(n["body"])
                    elif n.get("k") == "mcall" and n["m"] in ("for_each", "try_for_each") and about_b(n["recv"]):
                        bodies += [a_["body"] for a_ in n["args"] if a_.get("k") == "closure"]
                    elif n.get("k") == "call" and any(about_b(a_) for a_ in n["args"] if a_.get("k") != "closure") and any(a_.get("k") == "closure" for a_ in n["args"]):
                        # the list and a per-item closure are handed to a private helper that walks the list and calls the closure
                        # for every item (`comma_separated_strigify_write(fields, stringifier, |field, s| ..)`)
                        hs_ = [h_ for h_ in tc.fns if h_.name == sir.call_name(n) and h_.body and not h_.base and len(h_.params) == len(n["args"])]
                        if len(hs_) == 1:
                            hp_ = hs_[0].param_names()
                            li_ = [i_ for i_, a_ in enumerate(n["args"]) if a_.get("k") != "closure" and about_b(a_)]
                            ci_ = [i_ for i_, a_ in enumerate(n["args"]) if a_.get("k") == "closure"]
                            if li_ and ci_ and hp_[li_[0]] and hp_[ci_[0]]:
                                dl_ = G.derived_names(hs_[0].body, hp_[li_[0]]) | {hp_[li_[0]]}
                                walks_ = any(l_.get("k") in ("for", "while") and any(x_.get("k") == "path" and len(x_["segs"]) == 1 and x_["segs"][0] in dl_ for x_ in sir.walk(l_["e"] if l_.get("k") == "for" else l_["cond"]))
                                             and any(c_.get("k") == "call" and sir.call_name(c_) == hp_[ci_[0]] for c_ in sir.walk(l_["body"])) for l_ in sir.walk(hs_[0].body))
                                if walks_:
                                    bodies.append(n["args"][ci_[0]]["body"])
                okl = any(x.get("k") == "call" and pt._level_arg(x["args"]) for bd in bodies for x in sir.walk(bd))
                if not okl:
                    missing.append(fname)
        panics = any(sir.is_panic_node(n) for n in sir.walk(arm["body"]))
        if panics and v == "ToStringWithoutUndefined":
            obs.append(ob("C14.children/%s" % v, True, where, "internal wrapper is unwrapped by the text printer before expressions are printed (arm is a guard)"))
        else:
            obs.append(ob("C14.children/%s" % v, not missing, where, "children %s printed" % [k[0] for k in kids] if not missing else "children never printed: %s" % missing))
        tok = var_token.get(v)
        if v in binvars:
            if tok not in ref["binary"]:
                obs.append(ob("C14.prec/printer/%s" % v, False, where, "no parser token for %s" % v))
                continue
            cls = ref["binary"][tok]
            lb, rb = bf.get("left"), bf.get("right")
            li = ri = None
            for i, e in enumerate(ev):
                if e[0] == "child" and e[1] == lb and li is None:
                    li = i
                if e[0] == "child" and e[1] == rb:
                    ri = i
            p = []
            if li is None or ri is None:
                p.append("operands are not printed with explicit levels")
            else:
                ll, rl = ev[li][2], ev[ri][2]
                lit = "".join(e[1] for e in ev[li + 1:ri] if e[0] == "lit")
                if rank[ll] > cls:
                    p.append("left operand allowed level %s is looser than class %s" % (ll, order[cls]))
                if rank[rl] >= cls:
                    p.append("right operand allowed level %s is not tighter than class %s" % (rl, order[cls]))
                if lit.strip() != tok:
                    p.append("printed token %r differs from the parser's token %r" % (lit, tok))
                if li > ri:
                    p.append("operands printed right-to-left")
            if rank.get(ptab.get(v), -1) != cls:
                p.append("printer level of %s is %s, ECMA class of %r is %s" % (v, ptab.get(v), tok, order[cls]))
            obs.append(ob("C14.prec/printer/%s" % v, not p, where, "; ".join(p) if p else "%s prints %r with left<=%s right<=%s" % (v, tok, ev[li][2], ev[ri][2])))
        elif v in unvars:
            ch = [e for e in ev if e[0] == "child"]
            lit = "".join(e[1] for e in ev if e[0] == "lit").strip()
            p = []
            if not ch or rank[ch[0][2]] > 2:
                p.append("operand allowed level is looser than Unary")
            if tok and lit != tok:
                p.append("printed token %r differs from the parser's token %r" % (lit, tok))
            if rank.get(ptab.get(v), -1) != 2:
                p.append("printer level of %s is %s (expected Unary)" % (v, ptab.get(v)))
            obs.append(ob("C14.prec/printer/%s" % v, not p, where, "; ".join(p) if p else "unary %r operand<=%s" % (lit, ch[0][2])))
        elif v == "Cond":
            ch = {e[1]: e[2] for e in ev if e[0] == "child"}
            c, t, f = bf.get("cond"), bf.get("true_br"), bf.get("false_br")
            p = []
            if rank.get(ch.get(c), 99) > 12:
                p.append("conditional test allowed level %s is looser than LogicOr" % ch.get(c))
            lits = [e[1] for e in ev if e[0] == "lit"]
            if "?" not in lits or ":" not in lits:
                p.append("`?`/`:` not printed")
            if rank.get(ptab.get(v), -1) != 13:
                p.append("printer level of Cond is %s" % ptab.get(v))
            obs.append(ob("C14.prec/printer/Cond", not p, where, "; ".join(p) if p else "test<=%s ? %s : %s" % (ch.get(c), ch.get(t), ch.get(f))))
        elif v in ("StaticMember", "DynamicMember", "FuncCall"):
            ch = [e for e in ev if e[0] == "child"]
            first = bf.get("obj") or bf.get("func")
            lv = [e[2] for e in ch if e[1] == first]
            okm = bool(lv) and rank[lv[0]] <= 1 and rank.get(ptab.get(v), -1) == 1
            obs.append(ob("C14.prec/printer/%s" % v, okm, where, "object/callee printed at level %s, %s has level %s" % (lv, v, ptab.get(v))))
    # leaves have level Lit (never parenthesised) - and literals that print as more than a primary must not be Lit
    return obs


def escape_rules(ctx):
    ob = ctx.ob
    tc = ctx.tc
    obs = []
    want = {"escape_html_body": {"<": "&lt;", '"': "&quot;", "&": "&amp;"}, "escape_html_quote": {'"': "&quot;", "&": "&amp;"}}
    for name, repl in want.items():
        fs = [f for f in tc.fns if f.name == name and f.body]
        if len(fs) != 1:
            obs.append(ob("C14.escape/%s" % name, False, "escape.rs", "%s not found" % name))
            continue
        f = fs[0]
        # regex literal: lazy_static is expanded; find Regex::new("<class>")
        cls = None
        for n in sir.walk(f.node, into_items=True):
            if n.get("k") == "call" and (sir.call_path(n) or "").endswith("Regex::new") and n["args"] and n["args"][0].get("k") == "lit":
                cls = n["args"][0]["v"]
        chars = set()
        if cls:
            m = re.fullmatch(r"\[(.*)\]", cls)
            if m:
                body = m.group(1)
                i = 0
                while i < len(body):
                    if body[i] == "\\" and i + 1 < len(body):
                        chars.add(body[i + 1])
                        i += 2
                    else:
                        chars.add(body[i])
                        i += 1
        got = {}
        for n in sir.walk(f.body):
            if n.get("k") == "arm" and n["pat"].get("k") == "p_lit" and n["pat"]["e"].get("t") == "str":
                for x in sir.walk(n["body"]):
                    if x.get("k") == "lit" and x.get("t") == "str":
                        got[n["pat"]["e"]["v"]] = x["v"]
                    elif x.get("k") == "path" and sir.const_text(x) is not None:
                        got[n["pat"]["e"]["v"]] = sir.const_text(x)   # a named constant holding the entity text
        p = []
        for ch, rep in repl.items():
            if ch not in chars:
                p.append("character class %r does not match %r" % (cls, ch))
            if got.get(ch) != rep:
                p.append("%r is replaced by %r (expected %r)" % (ch, got.get(ch), rep))
        for ch in chars - set(repl):
            if ch not in got:
                p.append("matched character %r has no replacement arm" % ch)
        obs.append(ob("C14.escape/%s" % name, not p, ctx.where(f), "; ".join(p) if p else "class %r, replacements %s" % (cls, got)))
    # `{{` in text would be read back as the start of a binding: the body escaper has to neutralise it
    fs = [f for f in tc.fns if f.name == "escape_html_body" and f.body]
    if fs:
        f = fs[0]
        okb = False
        d = "static text containing `{{` is printed as it is"
        cls_has = False
        for n in sir.walk(f.node, into_items=True):
            if n.get("k") == "call" and (sir.call_path(n) or "").endswith("Regex::new") and n["args"] and n["args"][0].get("k") == "lit" and "{" in n["args"][0]["v"]:
                cls_has = True
        if cls_has:
            okb = any(n.get("k") == "arm" and n["pat"].get("k") == "p_lit" and n["pat"]["e"].get("v") == "{" and "{" not in "".join(x.get("v", "") for x in sir.walk(n["body"]) if x.get("k") == "lit" and x.get("t") == "str") for n in sir.walk(f.body))
            d = "`{` is in the escaped class and replaced by an entity: %s" % okb
        for n in sir.walk(f.body):
            if n.get("k") == "mcall" and n["m"] == "replace" and len(n["args"]) == 2 and sir.strip_ref(n["args"][0]).get("v") == "{{":
                rep = sir.strip_ref(n["args"][1]).get("v")
                okb = isinstance(rep, str) and "{{" not in rep and "{" not in rep.replace("&#123;", "").replace("&#x7b;", "").replace("&lbrace;", "").replace("&lcub;", "")
                # the result of the replacement must be what is returned
                d = "`{{` is rewritten to `%s` before the text is returned: %s" % (rep, okb)
                tail = f.body["stmts"][-1]
                if okb and not any(x is n for x in sir.walk(tail)):
                    okb = False
                    d = "`{{` is rewritten, but the rewritten text is not the value returned"
        obs.append(ob("C14.escape/binding-open", okb, ctx.where(f), d, witness=None if okb else "`p&#123;&#123;q` is printed as `p{{q`, which re-parses with `missing expression end`"))
    # sinks: static text / literal pieces / quoted names go through the escapers
    pv = [f for f in tc.fns if f.base == "Value" and f.name == "stringify_write" and f.body]
    if len(pv) != 1:
        obs.append(ob("C14.escape/sinks", False, "stringify/tag.rs", "Value printer not found"))
    else:
        f = pv[0]
        bad = []
        n_sinks = 0
        for n in sir.walk(f.node, into_items=True):
            if n.get("k") == "mcall" and n["m"] in ("write_token", "write_str") and n["args"]:
                a = sir.strip_ref(n["args"][0])
                if a.get("k") == "lit":
                    continue
                n_sinks += 1
                s = sir.expr_str(a)
                # accepted: escape_html_body(..) directly, or a local bound to it, or format!("{}", quoted)
                okk = "escape_html_body" in s
                if not okk:
                    names = [x["s"] for x in sir.walk(a) if x.get("k") == "path" and len(x["segs"]) == 1]
                    for nm in names:
                        for m in sir.walk(f.node, into_items=True):
                            if m.get("k") == "local" and m["pat"].get("name") == nm and m.get("init") is not None and "escape_html_body" in sir.expr_str(m["init"]):
                                okk = True
                if not okk:
                    bad.append(s)
        obs.append(ob("C14.escape/sinks/text", not bad and n_sinks >= 2, ctx.where(f), "%d non-literal text sinks, all through escape_html_body" % n_sinks if not bad else "text written without HTML escaping: %s" % bad))
    q = [f for f in tc.fns if f.name == "write_str_name_quoted" and f.body]
    okq = False
    if len(q) == 1:
        # every non-constant text handed to write_token/write_str is a local whose initialiser IS the escaper call
        consts = set(it["item"].get("name") for it in sir.walk(q[0].body) if it.get("k") == "item" and it["item"].get("k") in ("const", "static"))
        consts |= set(name for (_m, name) in tc.consts)
        sinks = []
        for n in sir.walk(q[0].body):
            if n.get("k") == "mcall" and n["m"] in ("write_token", "write_str") and n["args"] and sir.strip_ref(n["args"][0]).get("k") != "lit":
                a0 = sir.strip_ref(n["args"][0])
                if a0.get("k") == "path" and a0["segs"][-1] in consts:
                    continue
                nm = sir.root_expr_name(a0)
                ini = [m.get("init") for m in sir.walk(q[0].body) if m.get("k") == "local" and m["pat"].get("name") == nm]
                sinks.append(bool(ini) and ini[0] is not None and ini[0].get("k") == "call" and (sir.call_name(ini[0]) or "").endswith("escape_html_quote"))
        okq = bool(sinks) and all(sinks)
    obs.append(ob("C14.escape/sinks/quoted", okq, "stringify/mod.rs", "quoted static values go through escape_html_quote: %s" % okq))
    return obs


def vocabulary_rules(ctx):
    ob = ctx.ob
    tc = ctx.tc
    obs = []
    ep = [f for f in tc.fns if f.base == "Element" and f.name == "parse" and f.body]
    if len(ep) != 1:
        return [ob("C14.prefix/anchor", False, "parse/tag.rs", "Element::parse not found")]
    f = ep[0]
    # parser vocabulary: string-literal patterns of matches in Element::parse, grouped by what is matched
    prefixes, wx_dirs, plain = set(), set(), set()
    tags = set()
    event_flags = {}
    for m in sir.walk(f.body, into_items=True):
        if m.get("k") != "match":
            continue
        scrut = sir.expr_str(m["e"])
        lits = []
        for a in m["arms"]:
            for c in (a["pat"]["cases"] if a["pat"].get("k") == "p_or" else [a["pat"]]):
                if c.get("k") == "p_lit" and c["e"].get("t") == "str":
                    lits.append(c["e"]["v"])
                elif c.get("k") == "p_tuple":
                    for e in c["elems"]:
                        if e.get("k") == "p_lit" and e["e"].get("t") == "str":
                            plain.add(e["e"]["v"])
        if not lits:
            continue
        if "wx" in lits and "model" in lits:
            prefixes.update(lits)
        elif "if" in lits and "elif" in lits:
            wx_dirs.update(lits)
        elif "block" in lits or "import" in lits:
            tags.update(lits)
    # event prefix -> flags: AttrPrefixKind::X arms calling add_element_event_binding(.., is_catch, is_mut, is_capture, ..)
    kind_of_prefix = {}
    for m in sir.walk(f.body, into_items=True):
        if m.get("k") == "match":
            for a in m["arms"]:
                if a["pat"].get("k") == "p_lit" and a["pat"]["e"].get("t") == "str":
                    b = a["body"]
                    for x in sir.walk(b):
                        if x.get("k") == "call" and (sir.call_path(x) or "").startswith("AttrPrefixKind::"):
                            kind_of_prefix[a["pat"]["e"]["v"]] = x["f"]["segs"][-1]
    for m in sir.walk(f.body, into_items=True):
        if m.get("k") == "match":
            for a in m["arms"]:
                vs = sir.pat_variants(a["pat"])
                for x in sir.walk(a["body"]):
                    if x.get("k") == "call" and sir.call_name(x) == "add_element_event_binding" and vs:
                        # flags by NAME: positional booleans (named by the callee's parameters) or a struct literal with named fields
                        callee = [g for g in sir.walk(f.node, into_items=True) if g.get("k") == "fn" and g.get("name") == "add_element_event_binding"]
                        callee += [g.node for g in tc.fns if g.name == "add_element_event_binding"]
                        pnames = [(pp.get("pat") or {}).get("name") for pp in callee[0].get("params", [])] if callee else []
                        named = {}
                        for pn_, a_ in zip(pnames, x["args"]):
                            a_ = sir.strip_ref(a_)
                            if a_.get("k") == "lit" and a_.get("t") == "bool" and pn_:
                                named[pn_] = bool(a_["v"])
                            elif a_.get("k") == "struct":
                                for fl in a_["fields"]:
                                    if fl["e"].get("k") == "lit" and fl["e"].get("t") == "bool":
                                        named[fl["name"]] = bool(fl["e"]["v"])
                        if all(k_ in named for k_ in ("is_catch", "is_mut", "is_capture")):
                            event_flags[vs[0]] = (named["is_catch"], named["is_mut"], named["is_capture"])
    ev_table = {p: event_flags[k] for p, k in kind_of_prefix.items() if k in event_flags}
    obs.append(ob("C14.prefix/parser-vocabulary", len(prefixes) >= 15 and len(wx_dirs) >= 7 and len(ev_table) == 6, ctx.where(f),
                  "parser recognises prefixes %s, wx directives %s, event prefixes %s" % (sorted(prefixes), sorted(wx_dirs), ev_table)))
    # printer vocabulary
    words = []
    for g in tc.fns:
        if not g.body or "stringify" not in g.module or "tag" not in g.module:
            continue
        for n in sir.walk(g.body):
            if n.get("k") == "call" and sir.call_name(n) in ("write_named_attr", "write_named_static_attr") and len(n["args"]) >= 2 and n["args"][1].get("k") == "lit":
                words.append(("named", n["args"][1]["v"], g))
            if n.get("k") == "tuple" and len(n["elems"]) == 2 and n["elems"][0].get("k") == "lit" and n["elems"][0].get("t") == "str":
                words.append(("prefix", n["elems"][0]["v"], g))
            if n.get("k") == "call" and sir.call_name(n) == "Some" and n["args"] and n["args"][0].get("k") == "tuple" and n["args"][0]["elems"] and n["args"][0]["elems"][0].get("k") == "lit":
                pass
            if n.get("k") == "mcall" and n["m"] == "write_token" and n["args"] and n["args"][0].get("k") == "lit" and n["args"][0].get("t") == "str":
                v = n["args"][0]["v"]
                if re.fullmatch(r"[a-z][a-z:-]*", v) and len(v) > 1:
                    words.append(("token", v, g))
            if n.get("k") == "mcall" and n["m"] == "write_str" and n["args"] and n["args"][0].get("k") == "lit":
                v = n["args"][0]["v"].strip()
                if re.fullmatch(r"[a-z][a-z-]*", v) and len(v) > 2:
                    words.append(("tag", v, g))
            if n.get("k") == "local" and n.get("init") is not None and n["pat"].get("name") in ("name", "prefix"):
                for x in sir.walk(n["init"]):
                    if x.get("k") == "lit" and x.get("t") == "str" and re.fullmatch(r"[a-z][a-z:-]*", x["v"]):
                        words.append(("named" if ":" in x["v"] else "prefix", x["v"], g))
    seen = set()
    for kind, w, g in words:
        if (kind, w) in seen:
            continue
        seen.add((kind, w))
        if kind == "tag":
            okw = w in tags or w in ("block", "template", "include", "slot", "import", "wxs")
            obs.append(ob("C14.prefix/tag/%s" % w, okw, ctx.where(g), "printer writes tag `%s`; parser treats it as a special tag: %s" % (w, okw)))
        elif ":" in w:
            p, d = w.split(":", 1)
            okw = p in prefixes and (p != "wx" or d in wx_dirs)
            obs.append(ob("C14.prefix/word/%s" % w, okw, ctx.where(g), "printer writes `%s`; parser recognises prefix `%s` and directive `%s`: %s" % (w, p, d, okw)))
        elif kind == "prefix":
            okw = w in prefixes
            obs.append(ob("C14.prefix/word/%s" % w, okw, ctx.where(g), "printer writes prefix `%s:`; parser recognises it: %s" % (w, okw)))
        elif kind in ("named", "token"):
            okw = w in plain or w in ("src", "module", "name", "is", "data", "id", "slot", "class", "style") and (w in plain)
            obs.append(ob("C14.prefix/word/%s" % w, okw, ctx.where(g), "printer writes attribute `%s`; parser classifies it specially: %s" % (w, okw)))
    # event prefix decision tree
    wc = [g for g in tc.fns if g.name == "write_common_attributes_without_slot" and g.body]
    if len(wc) != 1:
        obs.append(ob("C14.prefix/events/anchor", False, "stringify/tag.rs", "common attribute printer not found"))
    else:
        g = wc[0]
        import minieval
        tree = None
        for n in sir.walk(g.body):
            if n.get("k") == "local" and n["pat"].get("k") == "p_ident" and n.get("init") is not None and n["init"].get("k") in ("if", "match") \
                    and {"is_catch", "is_mut", "is_capture"} <= set(x.get("name") for x in sir.walk(n["init"]) if x.get("k") == "field"):
                tree = n["init"]
        if tree is None:
            obs.append(ob("C14.prefix/events/tree", None, ctx.where(g), "the printer's choice of the event prefix is not a decision over (is_catch, is_mut, is_capture) that this rule reads"))
        else:
            for pfx, (c, mu, ca) in sorted(ev_table.items()):
                try:
                    got = minieval.ev(tree, {"$field": {"is_catch": c, "is_mut": mu, "is_capture": ca}})
                    okp = got == pfx
                except minieval.Unknown as ex:
                    got, okp = "? (%s)" % ex, None
                obs.append(ob("C14.prefix/events/%s" % pfx, okp, ctx.where(g), "parser maps `%s:` to (catch=%s, mut=%s, capture=%s); the printer's decision prints `%s:` for those flags" % (pfx, c, mu, ca, got)))
    return obs


def scope_rules(ctx):
    """the printer's scope-name stack: whatever an element's printer adds is removed before it returns, on every path"""
    ob = ctx.ob
    tc = ctx.tc
    obs = []
    fns = [f for f in tc.fns if f.body and "stringify" in f.module]
    byname = {}
    for f in fns:
        byname.setdefault(f.name, []).append(f)

    def calls(f):
        out = []
        for n in sir.walk(f.body):
            if n.get("k") == "mcall":
                out.append((n["m"], n))
            elif n.get("k") == "call":
                nm = sir.call_name(n)
                if nm:
                    out.append((nm.split("::")[-1], n))
        return out

    def direct_push(f):
        return [n for n in sir.walk(f.body) if n.get("k") == "mcall" and n["m"] == "push" and sir.expr_str(n["recv"]).endswith("scope_names")]

    def bracket(f):
        """(saved local, index of save stmt, index of truncate stmt) at the top level of the fn body"""
        st = f.body["stmts"]
        saved = None
        si = ti = None
        for i, x in enumerate(st):
            if x.get("k") == "local" and x.get("init") is not None and re.fullmatch(r"\w+\.scope_names\.len\(\)", sir.expr_str(x["init"]).replace(" ", "")) and x["pat"].get("k") == "p_ident":
                saved, si = x["pat"]["name"], i
            e = x.get("e") if x.get("k") == "expr" else None
            if e is not None and e.get("k") == "mcall" and e["m"] == "truncate" and sir.expr_str(e["recv"]).endswith("scope_names") and saved and sir.expr_str(e["args"][0]) == saved:
                ti = i
            if e is not None and e.get("k") == "mcall" and e["m"] == "clear" and sir.expr_str(e["recv"]).endswith("scope_names"):
                if si is None:
                    saved, si = "<clear>", i
                else:
                    ti = i
        return saved, si, ti

    leaky = {"add_scope"}
    changed = True
    verdict = {}
    while changed:
        changed = False
        for f in fns:
            if f.name in leaky and f.name != "add_scope":
                continue
            adders = [(m, n) for m, n in calls(f) if m in leaky and m in byname] + [("push", n) for n in direct_push(f)]
            if f.name == "add_scope" or not adders:
                continue
            saved, si, ti = bracket(f)
            st = f.body["stmts"]
            problems = []
            if si is None or ti is None:
                if f.name != "stringify_write":
                    leaky.add(f.name)
                    changed = True
                    verdict[f.qual] = ("leaky", "adds scope names and leaves them to its caller")
                    continue
                problems.append("adds scope names but has no top-level `len()` .. `truncate()` (or clear .. clear) bracket")
            else:
                def top_index(n):
                    for i, x in enumerate(st):
                        if any(y is n for y in sir.walk(x)):
                            return i
                    return None
                for m, n in adders:
                    i = top_index(n)
                    if i is None or not (si < i < ti):
                        problems.append("`%s` is called outside the bracket" % m)
                for n in sir.walk(f.body):
                    if n.get("k") == "mcall" and n["m"] == "stringify_write":
                        i = top_index(n)
                        if i is not None and i >= ti and i > si:
                            problems.append("children are printed after the scope stack was reset")
                    if n.get("k") == "return" and not n.get("desugared"):
                        i = top_index(n)
                        if i is not None and si < i < ti:
                            problems.append("explicit return between save and reset")
            verdict[f.qual] = ("bracketed", problems)
    n = 0
    for q, (kind, pr) in sorted(verdict.items()):
        f = [x for x in fns if x.qual == q][0]
        if kind == "leaky":
            obs.append(ob("C14.scope/helper/%s" % q, True, ctx.where(f), pr))
        else:
            n += 1
            obs.append(ob("C14.scope/balanced/%s" % q, not pr, ctx.where(f), "; ".join(pr) if pr else "every scope name added while printing is removed by an unconditional top-level reset after the children are printed",
                          witness=None if not pr else "a childless element that introduces scope names followed by a sibling that uses its own: the sibling's references print as the leaked names"))
    if n < 2:
        obs.append(ob("C14.floor/scope", False, "stringify/tag.rs", "only %d bracketed scope-adding printers found (floor 2)" % n))
    return obs


def mangled_declaration_rule(ctx):
    """a scope registered through add_scope may be renamed (mangling): its declaration has to be printed with the name add_scope
    returned, otherwise references (`{{_$0}}`) and declaration (`wx:for-item="x"` / `<wxs module="m">`) disagree"""
    ob = ctx.ob
    tc = ctx.tc
    obs = []
    k = 0
    per_site = {}
    for f in tc.fns:
        if not f.body or "stringify" not in f.module or f.name == "add_scope":
            continue
        pm = None
        for n in sir.walk(f.body):
            if not (n.get("k") == "mcall" and n["m"] == "add_scope" and n["args"]):
                continue
            k += 1
            if pm is None:
                pm = sir.parent_map(f.body)
            par = pm.get(id(n))
            # result used: bound by a let (possibly through .clone()) or passed on; discarded: an expression statement
            cur, up = n, par
            while up is not None and up.get("k") in ("mcall", "ref", "paren", "try") and (up.get("recv") is cur or up.get("e") is cur):
                cur, up = up, pm.get(id(up))
            discarded = up is not None and up.get("k") == "expr"
            arg = sir.expr_str(sir.strip_ref(n["args"][0]))
            # keyed by the kind of element whose scopes are registered (the arm of the element-kind match the call sits in), so
            # that the same site is the same finding however its operands are spelled; outside such a match, by the operand
            what = None
            cur = n
            while id(cur) in pm and what is None:
                cur = pm[id(cur)]
                if cur.get("k") == "arm":
                    vs = [v_ for v_ in sir.pat_variants(cur["pat"]) if sir.pat_str(cur["pat"]).startswith("ElementKind::")]
                    if vs:
                        what = "+".join(sorted(vs))
            if what is None:
                what = re.sub(r"[^A-Za-z0-9_.]+", "", arg)
            per_site.setdefault((f.qual.split("::")[-2] + "::" + f.qual.split("::")[-1], what), []).append((discarded, arg, f))
    for (fq, what), rows in sorted(per_site.items()):
        bad_ = [a_ for d_, a_, _f in rows if d_]
        f = rows[0][2]
        obs.append(ob("C14.scope/declared-as-returned/%s/%s" % (fq, what), not bad_, ctx.where(f),
                      "scope%s %s: the name returned by add_scope %s" % ("s" if len(rows) > 1 else "", ", ".join("`%s`" % a_ for _d, a_, _f in rows), "is kept for printing the declaration" if not bad_ else "is discarded (%s) - the declaration is printed with the source name while references print the mangled one" % ", ".join(bad_)),
                      witness=None if not bad_ else "with mangling, `<div wx:for=\"{{l}}\">{{item}}</div>` prints `{{_$0}}` under an unrenamed `wx:for`: the re-parsed template reads a data field `_$0`"))
    if k < 2:
        obs.append(ob("C14.floor/add_scope", False, "stringify/tag.rs", "only %d add_scope calls found (floor 2)" % k))
    return obs


def wave10_rules(ctx):
    """obligations added after the tenth wave of seeded changes"""
    import absint as ai
    ob = ctx.ob
    tc = ctx.tc
    obs = []
    # (1) the printer changes no text except through the escapers: no trimming, no case folding, no pattern replacement; the one
    #     documented rewrite (`</wxs` inside inline script text) is the exact, case-sensitive `str::replace`
    norm = []
    n_fn = 0
    for f in tc.fns:
        if not f.body or f.module[:1] != ["stringify"]:
            continue
        n_fn += 1
        for n in sir.walk(f.node, into_items=True):
            if n.get("k") != "mcall":
                continue
            m = n["m"]
            if re.match(r"trim|to_(ascii_)?(lower|upper)case|make_ascii|replacen|replace_all|replace_range|to_lowercase", m):
                norm.append("%s calls `.%s()`" % (f.name, m))
            if m == "replace":
                lits = [sir.strip_ref(a).get("v") for a in n["args"] if sir.strip_ref(a).get("k") == "lit"]
                if lits != ["</wxs", "< /wxs"]:
                    norm.append("%s calls `.replace(%s)`" % (f.name, ", ".join(sir.expr_str(a)[:20] for a in n["args"])))
    obs.append(ob("C14.verbatim/no-normalisation", False if norm else True if n_fn >= 10 else None, "stringify/*.rs", "; ".join(sorted(set(norm))[:3]) if norm else "%d printer functions: values are written as they are or through an escaper" % n_fn,
                  witness=None if not norm else "wx:if=\" \" (a blank, truthy string) is printed as a bare `wx:if` (an empty, falsy one)"))
    # (2) the array printer against the array grammar, for every arrangement of up to three items and holes: items are separated
    #     by one `,`; a hole prints nothing; a hole in last place gets one more `,` (else `[a,,]` would read back as `[a,]`)
    fs = [f for f in tc.fns if f.name == "expression_strigify_write" and f.body]
    arm = None
    if fs:
        for a in sir.walk(fs[0].body):
            if a.get("k") == "arm" and "LitArr" in sir.pat_variants(a["pat"]):
                arm = a
    if arm is None:
        obs.append(ob("C14.prec/printer/LitArr/commas", None, "stringify/expr.rs", "the arm for array literals was not found"))
    else:
        f = fs[0]
        binds = [b_["name"] for b_ in sir.walk(arm["pat"]) if b_.get("k") == "p_ident"]
        fpat = None
        if arm["pat"].get("k") == "p_struct":
            for fl in arm["pat"]["fields"]:
                if fl["name"] == "fields":
                    fpat = fl["pat"].get("name") if fl["pat"].get("k") == "p_ident" else None

        def hooks(it, e, st):
            if e.get("k") == "call" and (sir.call_name(e) or "").split("::")[-1] == f.name:
                return [(("Ok", ai.UNIT), st.event(("write", "v")))]
            if e.get("k") == "mcall" and e["m"] == "write_token" and e["args"] and e["args"][0].get("k") == "lit":
                return [(("Ok", ai.UNIT), st.event(("write", e["args"][0]["v"])))]
            if e.get("k") == "mcall" and e["m"] == "write_str" and e["args"] and sir.strip_ref(e["args"][0]).get("k") == "lit":
                return [(("Ok", ai.UNIT), st.event(("write", sir.strip_ref(e["args"][0])["v"])))]
            return None
        N = ("E", "Normal", (("value", ai.FREE),))
        H = ("E", "EmptySlot", ())
        wrong, und, n_ = [], False, 0
        import itertools
        for k_ in (1, 2, 3):
            for shape in itertools.product("NH", repeat=k_):
                it = ai.Interp(hooks=hooks, idx=tc)
                env = {b_: ai.FREE for b_ in binds}
                env.update({"stringifier": ai.FREE, (fpat or "fields"): ("A", tuple(N if c == "N" else H for c in shape))})
                try:
                    outs = [o for o in it.run(arm["body"], env) if ("$error-exit",) not in o.events]
                except ai.TooManyPaths:
                    outs = []
                if not outs or any(o.tainted or o.approx for o in outs):
                    und = True
                    continue
                want = "[" + ",".join("v" if c == "N" else "" for c in shape) + ("," if shape[-1] == "H" else "") + "]"
                for o in outs:
                    n_ += 1
                    got = "".join(ev[1] for ev in o.events if ev[0] == "write")
                    if got != want:
                        wrong.append("[%s] is printed as `%s` (the grammar needs `%s`)" % (",".join("v" if c == "N" else "" for c in shape), got, want))
        obs.append(ob("C14.prec/printer/LitArr/commas", False if wrong else None if und else True, ctx.where(f),
                      "; ".join(sorted(set(wrong))[:2]) if wrong else "14 arrangements of items and holes print with the commas the array grammar needs" if not und else "an arrangement was not followed: not decided",
                      witness=None if not wrong else "{{ [a,,] }} prints as [a,] and reads back as the one-item array"))
    return obs


def wave9_rules(ctx):
    """obligations added after the ninth wave of seeded changes"""
    import absint as ai
    ob = ctx.ob
    tc = ctx.tc
    obs = []
    # (1) `wx:for-item` / `wx:for-index` may be left out exactly when the name is the one the parser supplies for a missing attribute
    #     (each attribute has its own default): the decision is tabulated over the two defaults and a third name
    defaults = {}
    for f in tc.fns:
        if not f.body or f.module[:2] != ["parse", "tag"]:
            continue
        for n in sir.walk(f.body):
            if n.get("k") == "local" and n["pat"].get("k") == "p_ident" and n["pat"]["name"] in ("item_name", "index_name") and n.get("init") is not None:
                cs = [sir.const_text(x) for x in sir.walk(n["init"], into_closures=True) if x.get("k") == "path" and sir.const_text(x) is not None]
                if len(cs) == 1:
                    defaults[n["pat"]["name"]] = cs[0]
    arms = []
    for f in tc.fns:
        if not f.body or f.module[:1] != ["stringify"]:
            continue
        for m_ in sir.walk(f.body):
            if m_.get("k") == "match":
                for a in m_["arms"]:
                    if sir.pat_str(a["pat"]).startswith("ElementKind::For") and any(x.get("k") == "lit" and x.get("v") == "wx:for-item" for x in sir.walk(a["body"])):
                        arms.append((f, a))
    if len(defaults) != 2 or len(arms) != 1:
        obs.append(ob("C14.attrs/for-defaults", None, "stringify/tag.rs", "parser defaults %s / printer arm (%d found) not in a form this rule reads" % (defaults, len(arms))))
    else:
        f, a = arms[0]
        aw = [(sir.call_name(x) or "").split("::")[-1] for x in sir.walk(a["body"]) if x.get("k") in ("call", "mcall") and any(y.get("k") == "lit" and y.get("v") in ("wx:for-item", "wx:key") for y in x["args"])]
        attr_writer = aw[0] if aw else None

        def hooks(it, e, st):
            if e.get("k") in ("call", "mcall"):
                nm = (sir.call_name(e) or "").split("::")[-1]
                if nm in ("as_str", "as_ref", "is_empty", "clone", "len"):
                    return None
                lits = [x["v"] for x in e["args"] if x.get("k") == "lit" and x.get("t") == "str"]
                if lits and lits[0] in ("wx:for-item", "wx:for-index"):
                    return [(("Ok", ai.UNIT), st.event(("attr", lits[0])))]
                if nm == attr_writer and not lits:
                    # the attribute name is a value (a row of a table): it is evaluated
                    for a_ in e["args"]:
                        vs_ = [o.value for o in it.ev(a_, st) if o.kind == "val"]
                        if len(vs_) == 1 and vs_[0] in ("wx:for-item", "wx:for-index"):
                            return [(("Ok", ai.UNIT), st.event(("attr", vs_[0])))]
                    return [(("Ok", ai.UNIT), st.taint())]
                if any(g.name == nm and g.body for g in tc.fns):
                    g = [g for g in tc.fns if g.name == nm and g.body][0]
                    if (g.ret or "").replace(" ", "") == "bool":
                        return None   # a predicate: entered
                    return [(("Ok", ai.UNIT) if "Result" in (g.ret or "") else ai.FREE, st)]
            return None
        names = [defaults["item_name"], defaults["index_name"], "x"]
        wrong, und = [], False
        for iv in names:
            for xv in names:
                it = ai.Interp(hooks=hooks, idx=tc, inline={g.name: g for g in tc.fns if g.body and g.module[:1] == ["stringify"] and not g.base and (g.ret or "").replace(" ", "") == "bool"})
                def named(v):
                    return ("T", (ai.FREE, ("E", "StrName", (("name", v), ("location", ai.FREE)))))
                env = {"stringifier": ai.FREE, "list": ai.FREE, "key": ai.FREE, "item_name": named(iv), "index_name": named(xv)}
                try:
                    outs = [o for o in it.run(a["body"], env) if ("$error-exit",) not in o.events]
                except ai.TooManyPaths:
                    outs = []
                if not outs or any(o.tainted or o.approx for o in outs):
                    und = True
                    continue
                want = (["wx:for-item"] if iv != defaults["item_name"] else []) + (["wx:for-index"] if xv != defaults["index_name"] else [])
                for o in outs:
                    got = [ev[1] for ev in o.events if ev[0] == "attr"]
                    if got != want:
                        wrong.append("item `%s`, index `%s`: writes %s" % (iv, xv, got or "neither"))
        obs.append(ob("C14.attrs/for-defaults", False if wrong else None if und else True, ctx.where(f),
                      "; ".join(sorted(set(wrong))[:3]) if wrong else "each name is left out exactly when it is its own default (%s)" % defaults if not und else "a path through the arm was not followed: not decided",
                      witness=None if not wrong else "wx:for-item=\"index\" wx:for-index=\"i\" is printed without wx:for-item: `index` then names the item only before printing"))
    # (2) the stack of scope names is only extended and cut back to a saved depth while nodes are printed: nothing empties or
    #     replaces it between the registration of the `<wxs>` modules and the last node (sub-template bodies included)
    EMPTY = {"clear", "drain", "split_off", "pop", "retain", "remove", "swap_remove", "take", "dedup", "reverse", "sort", "insert", "rotate_left", "rotate_right"}
    probs = []
    und_stack = []
    n_ops = 0
    for f in tc.fns:
        if not f.body or f.module[:1] != ["stringify"]:
            continue
        nodes = list(sir.walk(f.body, into_closures=True))
        ops = []
        for i, n in enumerate(nodes):
            if n.get("k") == "mcall" and sir.expr_str(sir.strip_ref(n["recv"])).endswith("scope_names"):
                n_ops += 1
                if n["m"] in EMPTY:
                    ops.append((i, ".%s()" % n["m"]))
                elif n["m"] == "truncate":
                    a0 = sir.strip_ref(n["args"][0]) if n["args"] else None
                    saved = a0 is not None and a0.get("k") == "path" and any(l.get("k") == "local" and l["pat"].get("name") == a0["segs"][-1] and l.get("init") is not None
                                                                             and "scope_names" in sir.expr_str(l["init"]) and ".len()" in sir.expr_str(l["init"]).replace(" ", "") for l in nodes)
                    if not saved:
                        ops.append((i, ".truncate(%s)" % (sir.expr_str(a0) if a0 is not None else "")))
            if n.get("k") == "call" and re.search(r"mem::(take|replace|swap)$", sir.call_path(n) or "") and any("scope_names" in sir.expr_str(x) for x in n["args"]):
                ops.append((i, "mem::%s" % (sir.call_path(n) or "").split("::")[-1]))
            if n.get("k") == "assign" and sir.expr_str(n["l"]).endswith("scope_names"):
                ops.append((i, "an assignment"))
        if not ops:
            continue
        prints = [i for i, n in enumerate(nodes) if n.get("k") == "mcall" and n["m"] == "stringify_write"]
        regs = [i for i, n in enumerate(nodes) if n.get("k") == "mcall" and n["m"] in ("push", "add_scope") and "scope_names" in sir.expr_str(n["recv"]) + n["m"].replace("add_scope", "scope_names")]
        lo = min(prints + regs) if prints + regs else None
        hi = max(prints) if prints else None
        if not prints:
            und_stack.append(f.name)
            continue
        for i, what in ops:
            if i > lo and i < hi:
                probs.append("%s: %s on the scope-name stack while nodes are still to be printed" % (f.name, what))
    obs.append(ob("C14.scope/stack-discipline", False if (probs or n_ops < 5) else None if und_stack else True, "stringify/tag.rs",
                  "%s empties the stack and prints no node itself: not decided" % und_stack if und_stack and not probs else
                  "; ".join(probs[:3]) if probs else "%d operations on the stack: reset before the modules are registered and after the last node, otherwise push / cut back to a saved depth" % n_ops,
                  witness=None if not probs else "<wxs module=\"m\"/><template name=\"t\">{{ m.f() }}</template> prints {{ __INVALID_SCOPE_NAME__.f() }}"))
    return obs


def wave8_rules(ctx):
    """obligations added after the eighth wave of seeded changes"""
    from rules.c02 import FnScope
    ob = ctx.ob
    tc = ctx.tc
    obs = []
    # every token the expression printer writes is a constant, the output of one of the literal writers, or a field the parser
    # has validated as an identifier: a string *value* is never re-spelled as a token
    fs = [f for f in tc.fns if f.name == "expression_strigify_write" and f.body]
    OK_FIELDS = {("DataField", "name"), ("StaticMember", "field_name"), ("Named", "name")}
    WRITERS = ("gen_lit_str", "gen_lit_float", "to_string", "escape_html_body", "escape_html_quote")
    if fs:
        f = fs[0]
        scope = FnScope(f.node, [])
        scope_box = [scope]
        bad, n_ = [], 0

        def classify(e_, at, depth=0):
            e_ = sir.strip_ref(e_)
            k_ = e_.get("k")
            if k_ == "lit" or sir.const_text(e_) is not None:
                return True
            if sir.format_call(e_) is not None:
                return all(p_[0] == "lit" or classify(p_[1], at, depth + 1) for p_ in sir.format_call(e_))
            if k_ in ("call", "mcall"):
                nm = (sir.call_name(e_) or "").split("::")[-1] if k_ == "call" else e_["m"]
                if nm in WRITERS:
                    return True
                if k_ == "mcall" and nm in ("as_str", "as_ref", "clone", "to_owned", "into") and not e_["args"]:
                    return classify(e_["recv"], at, depth + 1)
                return False
            if k_ == "if" and e_.get("else") is not None:
                def tail(b_):
                    while b_.get("k") == "block" and b_["stmts"]:
                        l_ = b_["stmts"][-1]
                        b_ = l_["e"] if l_.get("k") == "expr" else l_
                    return b_
                return classify(tail(e_["then"]), at, depth + 1) and classify(tail(e_["else"]), at, depth + 1)
            if k_ == "match":
                return all(sir.is_panic_node(a_["body"]) or classify(a_["body"], at, depth + 1) for a_ in e_["arms"])
            if k_ == "block" and e_["stmts"]:
                l_ = e_["stmts"][-1]
                return classify(l_["e"] if l_.get("k") == "expr" else l_, at, depth + 1)
            if k_ == "path" and len(e_["segs"]) == 1 and depth < 6:
                r = scope_box[0].resolve(e_["segs"][0], at)
                if r is None:
                    return False
                if r[0] == "let" and r[1] is not None and not r[2]:
                    return classify(r[1], r[3], depth + 1)
                if r[0] == "param":
                    # a parameter of a private helper of the printer: every call site hands it an accepted value
                    fn_node = r[3]
                    pnames = [(p_.get("pat") or {}).get("name") for p_ in fn_node.get("params", []) if not p_.get("self")]
                    if e_["segs"][0] in pnames:
                        pi = pnames.index(e_["segs"][0])
                        sites = []
                        for g2 in sir.reach(tc, f):
                            for c_ in sir.walk(g2.body):
                                if c_.get("k") == "call" and sir.call_name(c_) == fn_node.get("name") and len(c_["args"]) > pi:
                                    sites.append((g2, c_))
                        if sites and depth < 4:
                            res = []
                            for g2, c_ in sites:
                                saved = scope_box[0]
                                scope_box[0] = scope if g2 is f else FnScope(g2.node, [])
                                res.append(classify(c_["args"][pi], c_, depth + 1))
                                scope_box[0] = saved
                            return all(res)
                    return False
                if r[0] == "for" and r[1] is not None:
                    # an element of a local array of tuples: `for (sep, loc, x) in [("?", a, b), (":", c, d)]`
                    src = sir.strip_ref(r[1])
                    while src.get("k") == "mcall" and src["m"] in ("iter", "into_iter"):
                        src = sir.strip_ref(src["recv"])
                    if src.get("k") == "path" and len(src["segs"]) == 1:
                        r2 = scope_box[0].resolve(src["segs"][0], r[3])
                        if r2 and r2[0] == "let" and r2[1] is not None:
                            src = sir.strip_ref(r2[1])
                    idxs = [p_ for p_ in r[2] if p_.isdigit()]
                    if src.get("k") == "array" and src["elems"] and len(idxs) == 1:
                        i_ = int(idxs[0])
                        return all(el.get("k") == "tuple" and len(el["elems"]) > i_ and classify(el["elems"][i_], at, depth + 1) for el in src["elems"])
                if r[0] in ("match", "let", "for"):
                    path = r[2]
                    variant = [p_[1:] for p_ in path if p_.startswith("@")]
                    field = [p_ for p_ in path if not p_.startswith("@")]
                    return bool(variant and field) and (variant[-1], field[-1]) in OK_FIELDS
            return False
        for g in sir.reach(tc, f):
            if g.module[:2] != ["stringify", "expr"]:
                continue   # the Stringifier's own token writers (scope names, quoted names) are covered by C14.scope / C14.escape
            sc_ = scope if g is f else FnScope(g.node, [])
            for n in sir.walk(g.body):
                if n.get("k") == "mcall" and n["m"] == "write_token" and n["args"]:
                    n_ += 1
                    scope_box[0] = sc_
                    ok_ = classify(n["args"][0], n)
                    scope_box[0] = scope
                    if not ok_:
                        bad.append("%s: `%s`" % (g.name, sir.expr_str(n["args"][0])[:40]))
        obs.append(ob("C14.escape/sinks/expr-tokens", not bad and n_ >= 20, ctx.where(f), "%d tokens written by the expression printer are constants, literal-writer output or validated identifiers" % n_ if not bad else "written as a token without going through a literal writer: %s" % bad[:3],
                      witness=None if not bad else "a['0'] is printed as a.0, which does not parse back"))
    # a static piece of mixed text that is followed by a binding does not end in a raw `{` (it would join the binding's `{{`)
    vp = [g for g in tc.fns if g.base == "Value" and g.name == "stringify_write" and g.body]
    if vp:
        g = vp[0]
        nodes = list(sir.walk(g.node, into_items=True))
        tests = [n for n in nodes if n.get("k") == "mcall" and n["m"] in ("strip_suffix", "ends_with") and n["args"] and sir.strip_ref(n["args"][0]).get("v") == "{"]
        lits = [n["v"] for n in nodes if n.get("k") == "lit" and n.get("t") == "str" and re.search(r"&#(123|x7[bB]);", n["v"])]
        ok = bool(tests) and bool(lits)
        obs.append(ob("C14.escape/binding-open/trailing", ok, ctx.where(g), "a static piece followed by a binding has its trailing `{` written as an entity: %s" % ok,
                      witness=None if ok else "&#123;{{a}} is printed as {{{a}}, which reads back as a binding of the object literal {a}"))
        # ... and "followed by a binding" is handed down correctly where a concatenation is split into its pieces: the left piece of
        # a split `+` is never the last one, the right piece is the last one exactly when the whole is
        rec = None
        for it_ in nodes:
            if it_.get("k") == "item" and it_.get("kind") == "fn" or it_.get("k") == "fn":
                rec = it_ if any(x.get("k") == "call" and sir.call_name(x) == it_.get("name") for x in sir.walk(it_, into_items=True)) else rec
        if rec is None:
            obs.append(ob("C14.escape/binding-open/handed-down", None, ctx.where(g), "the splitter of mixed text is not a local recursive function: not decided for this tree"))
        else:
            params = [nm for p_ in rec.get("params", []) for nm, _pp in sir.pat_bindings(p_.get("pat") or {})]
            flagp = None
            for p_ in rec.get("params", []):
                if (p_.get("ty") or "").strip() == "bool":
                    flagp = (p_.get("pat") or {}).get("name")
            calls_ = [x for x in sir.walk(rec.get("body") or rec, into_items=False) if x.get("k") == "call" and sir.call_name(x) == rec.get("name") and x["args"]]
            wrong = []
            for x in calls_:
                who = sir.root_expr_name(x["args"][0])
                last = sir.strip_ref(x["args"][-1])
                if who == "left" and not (last.get("k") == "lit" and last.get("v") is False):
                    wrong.append("the left piece is passed `%s`" % sir.expr_str(last))
                if who == "right" and not (last.get("k") == "path" and last.get("s") == flagp):
                    wrong.append("the right piece is passed `%s` instead of the caller's own flag" % sir.expr_str(last))
            okh = flagp is not None and len(calls_) >= 2 and not wrong
            obs.append(ob("C14.escape/binding-open/handed-down", okh if (flagp and len(calls_) >= 2) else None, ctx.where(g),
                          "; ".join(wrong) if wrong else "split pieces: left is never last, right inherits the flag `%s`" % flagp,
                          witness=None if okh else "{{a}}x&#123;{{b}} is printed as {{a}}x{{{b}}"))
    # an integer literal used as the object of `.name` is parenthesised (`1.a` is a float followed by a name)
    if fs:
        from exprmodel import ExprModel, arm_table
        import prectables as pt
        model = ExprModel(tc)
        gpr = pt.main_expression_fn(tc, model, "stringify")
        if gpr is not None:
            prf, pm_, _n = gpr
            table = arm_table(pm_, model)
            if "StaticMember" in table:
                arm, _c = table["StaticMember"][0]
                tests_int = any(x.get("k") in ("p_struct", "p_ts", "p_path") and x["segs"][-1] == "LitInt" for x in sir.walk(arm["body"]))
                parens = any(x.get("k") == "lit" and x.get("v") == "(" for x in sir.walk(arm["body"]))
                if not parens:
                    # through a private helper that wraps its argument in parentheses
                    for c_ in sir.walk(arm["body"]):
                        if c_.get("k") == "call" and sir.call_name(c_) != prf.name:
                            hs_ = [g_ for g_ in tc.fns if g_.name == sir.call_name(c_) and g_.body and "stringify" in g_.module]
                            if len(hs_) == 1 and any(x.get("k") == "lit" and x.get("v") == "(" for x in sir.walk(hs_[0].body)) and any(x.get("k") == "lit" and x.get("v") == ")" for x in sir.walk(hs_[0].body)):
                                parens = True
                ok = tests_int and parens
                obs.append(ob("C14.prec/printer/StaticMember/int-object", ok, ctx.where(prf), "an integer literal in front of `.name` is parenthesised: %s" % ok,
                              witness=None if ok else "{{ (1).a }} is printed as {{1.a}}, which does not read back"))
    # numbers are spelled by the float writer only (no integer casts in the printer)
    casts = []
    for f in tc.fns:
        if f.body and f.module[:1] == ["stringify"]:
            for n in sir.walk(f.body):
                if n.get("k") == "cast" and re.fullmatch(r"[iu](8|16|32|64|128|size)", (n.get("ty") or "").strip()):
                    src_ = sir.expr_str(n["e"])
                    casts.append("%s: `%s as %s`" % (f.name, src_[:30], n["ty"]))
    lf = [x for x in casts if "value" in x]
    obs.append(ob("C14.literal/no-int-cast", not lf, "stringify/expr.rs", "the printer does not squeeze a numeric value through an integer type" if not lf else "numeric value cast to an integer before printing: %s" % lf[:2],
                  witness=None if not lf else "{{ 1e19 }} is printed as 9223372036854775807"))
    # the float writer itself is shared with the code generator (same function, same rule as C03.literal/float-display)
    from rules.c03 import float_display_rule
    obs += float_display_rule(ctx, "C14.literal")
    return obs


def run(ctx):
    obs = printer_rules(ctx)
    from rules.c12 import find_escaper, check_escaper
    f = find_escaper(ctx.tc)
    if f is not None:
        o, _ = check_escaper(ctx, f, ctx.mir, "glass_easel_template_compiler", "C14.literal")
        obs += o
    else:
        obs.append(ctx.ob("C14.literal/anchor", False, "escape.rs", "string-literal emitter not found"))
    obs += escape_rules(ctx)
    obs += vocabulary_rules(ctx)
    obs += scope_rules(ctx)
    obs += mangled_declaration_rule(ctx)
    obs += wave8_rules(ctx)
    obs += wave9_rules(ctx)
    obs += wave10_rules(ctx)
    # wave 11: what the group prints is the template it holds: every map of the group (a cache included) is merged or dropped by
    # import_group like by add_tmpl (shared with C20.order/import)
    from share import relabel
    from rules.c20 import order_rules
    obs += relabel(order_rules(ctx), "C20.order/import", "C14.group/import")
    n = sum(1 for o in obs if o["key"].startswith("C14.children/"))
    if n < 44:
        obs.append(ctx.ob("C14.floor/children", False, "stringify/expr.rs", "only %d variants analysed (floor 44)" % n))
    return obs
