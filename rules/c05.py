"""C05 - names in expressions resolve lexically to the innermost enclosing scope."""
import re
import sir
from exprmodel import ExprModel, find_expression_matches, arm_table, bound_fields

RULE = ("C05.children: from the type definitions of Expression/ObjectFieldKind/ArrayFieldKind compute the child positions of "
        "every variant; both sub-expression iterators must yield every position of every variant, advance their index by one per "
        "yielded child, and may end only when the positions are exhausted (a list arm may not `return None` on an element "
        "that has no child). C05.mirror: order of scope events in the three traversals that must agree (analysis / generation / "
        "printing): slot-value scopes, then own values (incl. the wx:for list), then item, then index, then children, then "
        "restore; script modules first and in declaration order; <template name> bodies start from scripts only. "
        "C05.innermost: lookup searches from the innermost entry.")
EXPLANATION = ("Traversal completeness and scope-event ordering decided on the syntax tree of the (macro-expanded) crate for all "
               "44 expression variants and all 7 element kinds; resolution itself is not executed.")
ASSUMPTIONS = ["scope indices are assigned by Vec position (push order) in all three traversals", "std Vec::get/get_mut/truncate semantics"]


# ------------------------------------------------------------------ iterator arms

class ArmEval:
    def __init__(self):
        self.vals = []          # (name) identifiers that can be the arm's value
        self.none_returns = []  # (in_list) explicit `return None`
        self.aliases = {}       # local -> list binding it is an element of
        self.gets = []          # (list binding, index expr string, has_try)
        self.index_sets = []    # (cond index or None, assigned value string)
        self.has_loop = False
        self.continues = 0


def _is_self_index(n):
    return n.get("k") == "field" and n["name"] == "index" and sir.expr_str(n["base"]) == "self"


def eval_arm(body, ev, in_list=False, cond_index=None):
    k = body.get("k")
    if k == "block":
        il = in_list
        stmts = body["stmts"]
        for i, s in enumerate(stmts):
            if s["k"] == "local":
                init = s.get("init")
                if init is not None:
                    got = None
                    for n in sir.walk(init):
                        if n.get("k") == "mcall" and n["m"] in ("get", "get_mut") and n["recv"].get("k") == "path":
                            got = n
                    if got is not None:
                        has_try = init.get("k") == "try"
                        ev.gets.append((got["recv"]["s"], sir.expr_str(got["args"][0]) if got["args"] else "", has_try))
                        if s["pat"].get("k") == "p_ident":
                            ev.aliases[s["pat"]["name"]] = got["recv"]["s"]
                        il = True
                    else:
                        eval_side(init, ev, il, cond_index)
            elif s["k"] == "expr":
                last = i == len(stmts) - 1
                if last and not s.get("semi"):
                    eval_arm(s["e"], ev, il, cond_index)
                else:
                    eval_side(s["e"], ev, il, cond_index)
        return
    if k == "if":
        ci = None
        c = body["cond"]
        if c.get("k") == "binary" and c["op"] == "==" and _is_self_index(c["l"]) and c["r"].get("k") == "lit":
            ci = int(c["r"]["v"])
        eval_arm(body["then"], ev, in_list, ci if ci is not None else cond_index)
        if body.get("else") is not None:
            eval_arm(body["else"], ev, in_list, None)
        return
    if k == "match":
        for a in body["arms"]:
            eval_arm(a["body"], ev, in_list, cond_index)
        return
    if k == "loop":
        ev.has_loop = True
        eval_side(body["body"], ev, in_list, cond_index, in_loop=True)
        return
    if k == "path" and len(body["segs"]) == 1:
        ev.vals.append((body["s"], cond_index))
        return
    if k in ("ref", "unary"):
        eval_arm(body["e"], ev, in_list, cond_index)
        return
    if k == "return":
        ev.none_returns.append(in_list)
        return
    eval_side(body, ev, in_list, cond_index)


def eval_side(n, ev, in_list, cond_index, in_loop=False):
    """statements / expressions evaluated for effect: record returns, index assignments, breaks-with-value."""
    k = n.get("k")
    if k == "return":
        ev.none_returns.append(in_list)
        return
    if k == "continue":
        ev.continues += 1
        return
    if k == "break" and n.get("e") is not None:
        eval_arm(n["e"], ev, in_list, cond_index)
        return
    if k == "assign" and _is_self_index(n["l"]):
        ev.index_sets.append((cond_index, sir.expr_str(n["r"])))
        return
    if k == "binary" and n["op"] == "+=" and _is_self_index(n["l"]):
        ev.index_sets.append((cond_index, "+=" + sir.expr_str(n["r"])))
        return
    if k == "block":
        il = in_list
        for s in n["stmts"]:
            if s["k"] == "local":
                init = s.get("init")
                if init is not None:
                    got = None
                    for m in sir.walk(init):
                        if m.get("k") == "mcall" and m["m"] in ("get", "get_mut") and m["recv"].get("k") == "path":
                            got = m
                    if got is not None:
                        ev.gets.append((got["recv"]["s"], sir.expr_str(got["args"][0]) if got["args"] else "", init.get("k") == "try"))
                        if s["pat"].get("k") == "p_ident":
                            ev.aliases[s["pat"]["name"]] = got["recv"]["s"]
                        il = True
                    else:
                        eval_side(init, ev, il, cond_index, in_loop)
            elif s["k"] == "expr":
                eval_side(s["e"], ev, il, cond_index, in_loop)
        return
    if k == "if":
        ci = None
        c = n["cond"]
        if c.get("k") == "binary" and c["op"] == "==" and _is_self_index(c["l"]) and c["r"].get("k") == "lit":
            ci = int(c["r"]["v"])
        eval_side(n["then"], ev, in_list, ci if ci is not None else cond_index, in_loop)
        if n.get("else") is not None:
            eval_side(n["else"], ev, in_list, None, in_loop)
        return
    if k == "match":
        for a in n["arms"]:
            eval_side(a["body"], ev, in_list, cond_index, in_loop)
        return
    if k in ("closure", "item"):
        return
    for c in sir.children(n):
        eval_side(c, ev, in_list, cond_index, in_loop)


def iterator_fns(tc, model):
    out = []
    for f in tc.fns:
        if not f.body or "parse" not in f.module:
            continue
        if not (f.ret or "").startswith("Option<"):
            continue
        ms = find_expression_matches(f, model, 40)
        if not ms:
            continue
        uses_index = any(_is_self_index(n) for n in sir.walk(f.body) if n.get("k") == "field")
        if uses_index:
            out.append((f, ms[0][0]))
    return out


def check_iterators(ctx, model=None):
    ob = ctx.ob
    tc = ctx.tc
    model = model or ExprModel(tc)
    obs = []
    its = iterator_fns(tc, model)
    if len(its) < 2:
        obs.append(ob("C05.children/anchor", False, "parse/expr.rs", "expected 2 sub-expression iterators (functions matching on >=40 Expression variants with an index cursor), found %d" % len(its)))
    for f, m in its:
        where = ctx.where(f)
        table = arm_table(m, model)
        for v in model.variants:
            key = "C05.children/%s::%s/%s" % (f.base, f.name, v)
            kids = model.child_fields(v)
            if v not in table:
                if "_" in table and not kids:
                    obs.append(ob(key, True, where, "leaf variant handled by the catch-all arm"))
                else:
                    obs.append(ob(key, False, where, "variant %s has no arm in the iterator (children %s are never visited)" % (v, [k[0] for k in kids])))
                continue
            arm, case = table[v][0]
            bf = bound_fields(case)
            ev = ArmEval()
            eval_arm(arm["body"], ev)
            problems = []
            ones = [k for k in kids if k[1] == "one"]
            lists = [k for k in kids if k[1] == "list"]
            yielded = set(n for n, _ci in ev.vals)
            for (fname, _kind, _t) in ones:
                b = bf.get(fname)
                if b is None or b not in yielded:
                    problems.append("child `%s` is never yielded" % fname)
            # index discipline for the fixed positions
            if ones:
                idxs = sorted(ci for n, ci in ev.vals if ci is not None and n in [bf.get(k[0]) for k in ones])
                if idxs != list(range(len(ones))):
                    problems.append("fixed children are not yielded at consecutive index values 0..%d (got %r)" % (len(ones) - 1, idxs))
                for ci, val in ev.index_sets:
                    if ci is not None and val not in (str(ci + 1), "+=1"):
                        problems.append("at index %d the cursor is set to `%s` (expected %d): a child position is skipped or repeated" % (ci, val, ci + 1))
                n_sets = sum(1 for ci, _v in ev.index_sets if ci is not None)
                if n_sets < len(ones):
                    problems.append("a branch yields a child without advancing the cursor")
            for (fname, _kind, target) in lists:
                b = bf.get(fname)
                gets = [g for g in ev.gets if g[0] == b]
                if not gets:
                    problems.append("list `%s` is never indexed" % fname)
                    continue
                off = len(ones)
                want = "self.index" if off == 0 else "self.index-%d" % off
                if gets[0][1].replace(" ", "") != want:
                    problems.append("list `%s` is indexed with `%s` (expected `%s`)" % (fname, gets[0][1], want))
                if not gets[0][2]:
                    problems.append("list `%s`: exhaustion of the list is not the exit (`?` on get)" % fname)
                if not any(val == "+=1" for _ci, val in ev.index_sets):
                    problems.append("list `%s`: cursor is not advanced by one per element" % fname)
                if target == "Expression":
                    if not any(ev.aliases.get(n) == b for n in yielded):
                        problems.append("elements of `%s` are never yielded" % fname)
                else:
                    # inner match over the element enum
                    sub = None
                    for n in sir.walk(arm["body"]):
                        if n.get("k") == "match":
                            vs = set()
                            for a in n["arms"]:
                                vs.update(sir.pat_variants(a["pat"]))
                            if vs & set(model.children[target]):
                                sub = n
                    if sub is None:
                        problems.append("elements of `%s` are not dispatched on %s" % (fname, target))
                    else:
                        for sv, skids in model.children[target].items():
                            sarm = None
                            for a in sub["arms"]:
                                if sv in sir.pat_variants(a["pat"]):
                                    sarm = a
                            if sarm is None:
                                if skids:
                                    problems.append("%s::%s has no arm" % (target, sv))
                                continue
                            sev = ArmEval()
                            eval_arm(sarm["body"], sev, in_list=True)
                            pcase = sarm["pat"]["cases"][0] if sarm["pat"].get("k") == "p_or" else sarm["pat"]
                            sbf = bound_fields(pcase)
                            for (sf, _k, _t) in skids:
                                if sbf.get(sf) not in set(n for n, _c in sev.vals):
                                    problems.append("%s::%s.%s is never yielded" % (target, sv, sf))
                            if not skids and sev.none_returns:
                                problems.append("iteration ends at a %s::%s element (`return None`): the following elements of `%s` are never visited" % (target, sv, fname))
                            if not skids and not sev.none_returns and not sev.continues and not ev.has_loop:
                                problems.append("%s::%s arm neither yields nor continues" % (target, sv))
            if not kids and yielded:
                problems.append("leaf variant yields %r" % sorted(yielded))
            w = None
            if any("never visited" in p for p in problems):
                w = '<a wx:for="{{l}}" x="{{ [ , item] }}"/>  emits [,D.item] (item resolved as a data field)'
            obs.append(ob(key, not problems, where, "; ".join(problems) if problems else "yields %s" % ([k[0] for k in kids] or "nothing"), witness=w))
    return obs, model, its


# ------------------------------------------------------------------ ordered events

def preorder(fn_body):
    return list(sir.walk(fn_body))


def first_index(nodes, pred, start=0):
    for i in range(start, len(nodes)):
        if pred(nodes[i]):
            return i
    return None


def all_indices(nodes, pred):
    return [i for i, n in enumerate(nodes) if pred(n)]


def is_mcall(n, m, recv_contains=None):
    if n.get("k") != "mcall" or n["m"] != m:
        return False
    if recv_contains is not None and recv_contains not in sir.expr_str(n["recv"]):
        return False
    return True


def mentions(n, name):
    for x in sir.walk(n):
        if x.get("k") == "path" and name in x["segs"]:
            return True
        if x.get("k") == "field" and x["name"] == name:
            return True
    return False


def scope_state_inits(tc, f):
    """every place where Template::parse creates a ScopeAnalyzeState - a struct literal, or a call of a constructor-like
    associated function of the type - as (site node, {field: [expression nodes its value is computed from]})"""
    out = []

    def follow(e, body, depth=0):
        """expressions a value is computed from: through locals, and through loops that push into a local"""
        res = [e]
        x = sir.strip_ref(e)
        while x.get("k") == "mcall" and x["m"] in ("clone", "to_vec", "to_owned", "collect", "into") and not x["args"]:
            x = sir.strip_ref(x["recv"])
        if x.get("k") == "path" and len(x["segs"]) == 1 and depth < 3:
            nm = x["segs"][0]
            for l_ in sir.walk(body):
                if l_.get("k") == "local" and l_["pat"].get("name") == nm and l_.get("init") is not None:
                    res += follow(l_["init"], body, depth + 1)
                if l_.get("k") == "for" and any(y.get("k") == "mcall" and y["m"] in ("push", "extend") and sir.root_expr_name(y["recv"]) == nm for y in sir.walk(l_["body"])):
                    res += follow(l_["e"], body, depth + 1)
        return res
    for n in sir.walk(f.body):
        if n.get("k") == "struct" and n["path"].endswith("ScopeAnalyzeState"):
            out.append((n, {fl["name"]: follow(fl["e"], f.body) for fl in n["fields"]}))
        elif n.get("k") == "call" and n["f"].get("k") == "path" and len(n["f"]["segs"]) == 2 and n["f"]["segs"][0] == "ScopeAnalyzeState":
            cs = [g for g in tc.fns if g.base == "ScopeAnalyzeState" and g.name == n["f"]["segs"][1] and g.body]
            if len(cs) != 1:
                continue
            g = cs[0]
            pn = [x for x in g.param_names() if x]
            amap = dict(zip(pn, n["args"]))
            lits = [x for x in sir.walk(g.body) if x.get("k") == "struct" and (x["path"].endswith("ScopeAnalyzeState") or x["path"] == "Self")]
            if not lits:
                continue
            fields = {}
            for fl in lits[-1]["fields"]:
                srcs = []
                for e_ in follow(fl["e"], g.body):
                    srcs.append(e_)
                    # a parameter stands for the argument of this call
                    for y in sir.walk(e_):
                        if y.get("k") == "path" and len(y["segs"]) == 1 and y["segs"][0] in amap:
                            srcs.append(amap[y["segs"][0]])
                fields[fl["name"]] = srcs
            out.append((n, fields))
    return out


def check_mirror(ctx):
    ob = ctx.ob
    tc = ctx.tc
    obs = []

    # ---- analysis pass: the Element method that truncates the scope stack and calls for_each_value_mut
    cands = [f for f in tc.fns if f.base == "Element" and f.body and
             any(is_mcall(n, "truncate", "scopes") for n in sir.walk(f.body)) and
             any(is_mcall(n, "for_each_value_mut") for n in sir.walk(f.body))]
    if len(cands) != 1:
        obs.append(ob("C05.mirror/analysis/anchor", False, "parse/tag.rs", "scope-analysis pass of Element not found (%d candidates)" % len(cands)))
    else:
        f = cands[0]
        where = ctx.where(f)
        nodes = preorder(f.body)
        pushes = all_indices(nodes, lambda n: is_mcall(n, "push", "scopes") or is_mcall(n, "extend", "scopes"))
        slot_push = [i for i in pushes if mentions(nodes[i], "attr") or mentions(nodes[i], "slot_value_refs")]
        item_push = [i for i in pushes if mentions(nodes[i], "item_name")]
        index_push = [i for i in pushes if mentions(nodes[i], "index_name")]
        # `for name in [item_name, index_name] { scopes.push(..name..) }`: one push, executed in the order of the array
        pm_ = sir.parent_map(f.body)
        for i in pushes:
            cur = nodes[i]
            while id(cur) in pm_:
                cur = pm_[id(cur)]
                if cur.get("k") == "for" and sir.strip_ref(cur["e"]).get("k") == "array":
                    elems = [sir.expr_str(x) for x in sir.strip_ref(cur["e"])["elems"]]
                    it = [k_ for k_, t_ in enumerate(elems) if "item_name" in t_]
                    ix = [k_ for k_, t_ in enumerate(elems) if "index_name" in t_]
                    if it and ix and not item_push and not index_push:
                        item_push = [i + 0.1 * it[0]]
                        index_push = [i + 0.1 * ix[0]]
                    break
        values = first_index(nodes, lambda n: is_mcall(n, "for_each_value_mut"))
        arity = len([p for p in f.params if not p.get("self")])
        # recursion into the children: directly, or through a private helper that loops over a list of nodes and calls the method
        rec_helpers = set(g_.name for g_ in tc.fns if g_.body and g_ is not f and g_.name != f.name and any(x.get("k") == "mcall" and x["m"] == f.name for x in sir.walk(g_.body)) and "parse" in g_.module)
        rec = all_indices(nodes, lambda n: (n.get("k") == "mcall" and n["m"] == f.name and len(n["args"]) == arity and sir.expr_str(n["recv"]) != "self")
                          or (n.get("k") in ("call", "mcall") and (sir.call_name(n) or "").split("::")[-1] in rec_helpers))
        trunc = first_index(nodes, lambda n: is_mcall(n, "truncate", "scopes"))
        save = first_index(nodes, lambda n: n.get("k") == "local" and n.get("init") is not None and is_mcall(n["init"], "len", "scopes"))
        seq = [("save scope depth", save), ("push slot-value scopes", slot_push[0] if slot_push else None), ("visit own values (incl. wx:for list)", values),
               ("push item", item_push[0] if item_push else None), ("push index", index_push[0] if index_push else None),
               ("recurse into children", rec[0] if rec else None), ("restore (truncate)", trunc)]
        missing = [n for n, i in seq if i is None]
        order_ok = not missing and all(seq[i][1] < seq[i + 1][1] for i in range(len(seq) - 1))
        last_rec = rec[-1] if rec else None
        if order_ok and last_rec is not None and trunc is not None and last_rec > trunc:
            order_ok = False
        obs.append(ob("C05.mirror/analysis/order", order_ok, where,
                      "scope events: " + " < ".join("%s@%s" % (n, i) for n, i in seq) + ("; missing: %s" % missing if missing else ""),
                      sample=[n for n, _ in seq]))
        # truncate argument is the saved depth
        if trunc is not None and save is not None:
            saved = nodes[save]["pat"].get("name")
            arg = sir.expr_str(nodes[trunc]["args"][0]) if nodes[trunc]["args"] else ""
            obs.append(ob("C05.mirror/analysis/restore", arg == saved, where, "truncate(%s) with saved depth `%s`" % (arg, saved)))
        # no early return between first push and truncate
        early = [n for n in nodes[(pushes[0] if pushes else 0):(trunc or 0)] if n.get("k") in ("return", "try")]
        obs.append(ob("C05.mirror/analysis/all-paths", not early, where, "%d early exits between the first push and the restore" % len(early)))

    # ---- Template::parse: start scopes
    tp = [f for f in tc.fns if f.base == "Template" and f.name == "parse" and f.body]
    if len(tp) != 1:
        obs.append(ob("C05.mirror/start/anchor", False, "parse/tag.rs", "Template::parse not found"))
    else:
        f = tp[0]
        where = ctx.where(f)
        inits = scope_state_inits(tc, f)
        ok = len(inits) >= 2
        details = []
        for _site, fields in inits:
            srcs = fields.get("scopes") or []
            from_scripts = any(mentions(e_, "scripts") for e_ in srcs) and not any(is_mcall(n, "rev") or (n.get("k") == "mcall" and n["m"].startswith("sort")) for e_ in srcs for n in sir.walk(e_))
            details.append("scopes from globals.scripts in order: %s" % from_scripts)
            ok = ok and from_scripts
        obs.append(ob("C05.mirror/analysis/start", ok, where, "; ".join(details) or "no ScopeAnalyzeState initialiser"))
        # sub templates analysed with their own state, before/independently of main content
        sub_loops = [n for n in sir.walk(f.body) if n.get("k") == "for" and mentions(n["e"], "sub_templates")]
        ok2 = False
        for lp in sub_loops:
            if any(any(y is site for y in sir.walk(lp["body"])) for site, _fl in inits):
                ok2 = True
        obs.append(ob("C05.mirror/analysis/template-bodies", ok2, where, "each <template name> body is analysed with a fresh scope state built from scripts only: %s" % ok2))

    # ---- generator: For arm
    gen = [f for f in tc.fns if f.base == "Element" and f.name == "to_proc_gen" and f.body]
    if len(gen) != 1:
        obs.append(ob("C05.mirror/gen/anchor", False, "proc_gen/tag.rs", "Element::to_proc_gen not found"))
    else:
        f = gen[0]
        where = ctx.where(f)
        arm = None
        for n in sir.walk(f.body):
            if n.get("k") == "match":
                for a in n["arms"]:
                    if "For" in sir.pat_variants(a["pat"]) and arm is None and len(n["arms"]) >= 6:
                        arm = a
        if arm is None:
            obs.append(ob("C05.mirror/gen/for-arm", False, where, "the wx:for arm of the element generator was not found"))
        else:
            nodes = preorder(arm["body"])
            prep = first_index(nodes, lambda n: n.get("k") == "mcall" and n["m"] == "to_proc_gen_prepare")
            pushes = all_indices(nodes, lambda n: is_mcall(n, "push", "scopes"))
            pops = all_indices(nodes, lambda n: is_mcall(n, "pop", "scopes"))
            child = first_index(nodes, lambda n: (n.get("k") == "call" and (sir.call_path(n) or "").endswith("to_proc_gen_define_children_content")))
            ok = prep is not None and len(pushes) == 2 and len(pops) == 2 and child is not None and prep < pushes[0] < pushes[1] < child and all(p > child for p in pops)
            d = "list prepared@%s, pushes@%s, children@%s, pops@%s" % (prep, pushes, child, pops)
            # which argument each push uses
            if len(pushes) == 2:
                def var_of(i):
                    for x in sir.walk(nodes[i]):
                        if x.get("k") == "struct" and x["path"].endswith("ScopeVar"):
                            for fl in x["fields"]:
                                if fl["name"] == "var":
                                    return sir.expr_str(fl["e"])
                    return "?"
                v1, v2 = var_of(pushes[0]), var_of(pushes[1])
                # resolve `let arg_scope_item = &args[1]`
                binds = {}
                for n in nodes:
                    if n.get("k") == "local" and n["pat"].get("k") == "p_ident" and n.get("init") is not None:
                        s = sir.expr_str(n["init"])
                        binds[n["pat"]["name"]] = s
                a1 = binds.get(v1.split(".")[0], v1)
                a2 = binds.get(v2.split(".")[0], v2)
                d += "; first push var=%s (%s), second push var=%s (%s)" % (v1, a1, v2, a2)
                ok = ok and a1.replace(" ", "") == "&args[1]" and a2.replace(" ", "") == "&args[2]"
            obs.append(ob("C05.mirror/gen/for-order", ok, where, d))
    # generator: slot value scopes around each child element
    inner = [f for f in tc.fns if f.name == "to_proc_gen_define_children_content_inner" and f.body]
    if len(inner) != 1:
        obs.append(ob("C05.mirror/gen/slot-anchor", False, "proc_gen/tag.rs", "children-content emitter not found"))
    else:
        f = inner[0]
        nodes = preorder(f.body)
        push = first_index(nodes, lambda n: is_mcall(n, "push", "scopes"))
        call = first_index(nodes, lambda n: n.get("k") == "mcall" and n["m"] == "to_proc_gen")
        pop = first_index(nodes, lambda n: is_mcall(n, "pop", "scopes"))
        ok = None not in (push, call, pop) and push < call < pop
        # pop count equals push count: pops sit in a `for _ in 0..count` loop whose bound is incremented next to the push
        cnt_ok = False
        for n in nodes:
            if n.get("k") == "for" and n["e"].get("k") == "range" and any(is_mcall(x, "pop", "scopes") for x in sir.walk(n["body"])):
                bound = sir.expr_str(n["e"].get("to"))
                incs = [x for x in nodes if x.get("k") == "binary" and x["op"] == "+=" and sir.expr_str(x["l"]) == bound]
                cnt_ok = len(incs) == 1 and len([x for x in nodes if is_mcall(x, "push", "scopes")]) == 1
        # the counter lives in the same per-child iteration as the pushes and pops
        scope_ok = False
        pm = sir.parent_map(f.body)

        def enclosing_loop(n):
            p = n
            while id(p) in pm:
                p = pm[id(p)]
                if p.get("k") in ("for", "while", "loop"):
                    return p
            return None
        for n in nodes:
            if n.get("k") == "for" and n["e"].get("k") == "range" and any(is_mcall(x, "pop", "scopes") for x in sir.walk(n["body"])):
                bound = sir.expr_str(n["e"].get("to"))
                decls = [x for x in nodes if x.get("k") == "local" and x["pat"].get("name") == bound]
                if len(decls) == 1 and enclosing_loop(decls[0]) is enclosing_loop(n) and enclosing_loop(n) is not None and decls[0].get("init") is not None and sir.expr_str(decls[0]["init"]) == "0":
                    scope_ok = True
        # the other spelling of the same discipline: remember the depth before the pushes, truncate back to it after the element
        if not (ok and cnt_ok and scope_ok) and None not in (push, call):
            for n in nodes:
                if is_mcall(n, "truncate", "scopes") and n["args"]:
                    a_ = sir.strip_ref(n["args"][0])
                    if a_.get("k") == "path" and len(a_["segs"]) == 1:
                        decls = [i for i, x in enumerate(nodes) if x.get("k") == "local" and x["pat"].get("name") == a_["segs"][0] and x.get("init") is not None and is_mcall(x["init"], "len", "scopes")]
                        t_i = [i for i, x in enumerate(nodes) if x is n][0]
                        if len(decls) == 1 and decls[0] < push < call < t_i and enclosing_loop(nodes[decls[0]]) is enclosing_loop(n) and enclosing_loop(n) is not None:
                            ok, cnt_ok, scope_ok = True, True, True
                            pop = t_i
        obs.append(ob("C05.mirror/gen/slot-scopes", bool(ok and cnt_ok and scope_ok), ctx.where(f), "push@%s < element@%s < pop@%s; pops counted by the pushes: %s; counter starts at 0 for every child: %s" % (push, call, pop, cnt_ok, scope_ok),
                      witness=None if scope_ok else "<a wx:for=..><b slot:x/><c/>{{item}}</a>: the second child pops the scopes of the first again"))
    # generator start scopes
    tg = [f for f in tc.fns if f.base == "Template" and f.name == "to_proc_gen" and f.body]
    if len(tg) == 1:
        f = tg[0]
        nodes = preorder(f.body)
        loop = first_index(nodes, lambda n: n.get("k") == "for" and mentions(n["e"], "scripts") and any(is_mcall(x, "push", "scopes") for x in sir.walk(n["body"])))
        calls = all_indices(nodes, lambda n: n.get("k") == "call" and sir.call_path(n) == "write_template_item")
        ok = loop is not None and len(calls) >= 2 and all(c > loop for c in calls)
        rev = loop is not None and any(is_mcall(x, "rev") for x in sir.walk(nodes[loop]["e"]))
        # the list may be iterated through a local copy: that copy must not be re-ordered
        if loop is not None:
            it_ = sir.strip_ref(nodes[loop]["e"])
            while it_.get("k") == "mcall" and it_["m"] in ("iter", "into_iter", "iter_mut"):
                it_ = sir.strip_ref(it_["recv"])
            if it_.get("k") == "path" and len(it_["segs"]) == 1:
                lname = it_["segs"][0]
                if any(x.get("k") == "mcall" and x["m"] in ("sort", "sort_by", "sort_by_key", "sort_unstable", "sort_unstable_by", "sort_unstable_by_key", "sort_by_cached_key", "reverse", "rotate_left", "rotate_right", "swap", "retain", "dedup", "dedup_by_key") and sir.root_expr_name(x["recv"]) == lname for x in nodes):
                    rev = True
        obs.append(ob("C05.mirror/gen/start", ok and not rev, ctx.where(f), "script scopes pushed in declaration order before any template body is generated: %s" % (ok and not rev)))
    else:
        obs.append(ob("C05.mirror/gen/start", False, "proc_gen/tag.rs", "Template::to_proc_gen not found"))

    # ---- printer
    pr = [f for f in tc.fns if f.base == "Element" and f.name == "stringify_write" and f.body]
    if len(pr) != 1:
        obs.append(ob("C05.mirror/print/anchor", False, "stringify/tag.rs", "Element printer not found"))
    else:
        f = pr[0]
        where = ctx.where(f)
        nodes = preorder(f.body)
        save = first_index(nodes, lambda n: n.get("k") == "local" and n.get("init") is not None and is_mcall(n["init"], "len", "scope_names"))
        trunc = first_index(nodes, lambda n: is_mcall(n, "truncate", "scope_names"))
        adds = all_indices(nodes, lambda n: is_mcall(n, "add_scope"))
        lst = first_index(nodes, lambda n: n.get("k") == "call" and any(a.get("k") == "lit" and a.get("v") == "wx:for" for a in n["args"]))
        item = [i for i in adds if mentions(nodes[i], "item_name")]
        index = [i for i in adds if mentions(nodes[i], "index_name")]
        if not item and not index:
            # `for (.., name) in [(.., item_name), (.., index_name)] { add_scope(name) }`: one call for both, in the order of the table
            pm_p = sir.parent_map(f.body)
            for i in adds:
                cur = nodes[i]
                while id(cur) in pm_p:
                    cur = pm_p[id(cur)]
                    if cur.get("k") == "for":
                        src = sir.strip_ref(cur["e"])
                        while src.get("k") == "mcall" and src["m"] in ("iter", "into_iter"):
                            src = sir.strip_ref(src["recv"])
                        if src.get("k") == "path" and len(src["segs"]) == 1:
                            inits = [x["init"] for x in nodes if x.get("k") == "local" and x["pat"].get("name") == src["segs"][0] and x.get("init") is not None]
                            src = sir.strip_ref(inits[0]) if len(inits) == 1 else src
                        if src.get("k") == "array":
                            elems = [sir.expr_str(x) for x in src["elems"]]
                            it = [k_ for k_, t_ in enumerate(elems) if "item_name" in t_]
                            ix = [k_ for k_, t_ in enumerate(elems) if "index_name" in t_]
                            if it and ix and not item and not index:
                                item = [i + 0.1 * it[0]]
                                index = [i + 0.1 * ix[0]]
                        break
        helper_names = set(g.name for g in sir.reach(tc, f) if g is not f)

        def prints_children(n):
            if n.get("k") == "for" and mentions(n["e"], "children"):
                return True
            # the child loop may live in a private helper that is handed the children
            return n.get("k") in ("call", "mcall") and (sir.call_name(n) or "").split("::")[-1] in helper_names and any(mentions(a, "children") for a in n["args"])
        kids = first_index(nodes, prints_children, start=(int(index[0]) if index else 0))
        ok = None not in (save, trunc, lst, kids) and item and index and save < lst < item[0] < index[0] < kids < trunc
        obs.append(ob("C05.mirror/print/for-order", bool(ok), where, "save@%s < wx:for attr@%s < add_scope(item)@%s < add_scope(index)@%s < children@%s < truncate@%s" % (save, lst, item, index, kids, trunc)))
    sl = [f for f in tc.fns if f.name == "write_slot_and_slot_values" and f.body]
    if len(sl) == 1:
        f = sl[0]
        nodes = preorder(f.body)
        add = first_index(nodes, lambda n: is_mcall(n, "add_scope"))
        slot_attr = first_index(nodes, lambda n: n.get("k") == "call" and any(a.get("k") == "lit" and a.get("v") == "slot" for a in n["args"]) and (sir.call_path(n) or "").startswith("write_named_attr"))
        obs.append(ob("C05.mirror/print/slot-scopes", add is not None and slot_attr is not None and add < slot_attr, ctx.where(f),
                      "slot-value scopes are opened (@%s) before the element's own `slot` value is printed (@%s), as in the analysis pass" % (add, slot_attr)))
    else:
        obs.append(ob("C05.mirror/print/slot-scopes", False, "stringify/tag.rs", "write_slot_and_slot_values not found"))
    tpn = [f for f in tc.fns if f.base == "Template" and f.name == "stringify_write" and f.body]
    if len(tpn) == 1:
        f = tpn[0]
        nodes = preorder(f.body)
        clear = first_index(nodes, lambda n: is_mcall(n, "clear", "scope_names"))
        loop = first_index(nodes, lambda n: n.get("k") == "for" and mentions(n["e"], "scripts"))
        push = first_index(nodes, lambda n: is_mcall(n, "push", "scope_names"))
        content = first_index(nodes, lambda n: n.get("k") == "for" and (mentions(n["e"], "content") or mentions(n["e"], "sub_templates")))
        ok = None not in (clear, loop, push, content) and clear < loop < push < content
        obs.append(ob("C05.mirror/print/start", ok, ctx.where(f), "scope names start from script modules (clear@%s, scripts loop@%s, push@%s) before any body (@%s)" % (clear, loop, push, content)))
    else:
        obs.append(ob("C05.mirror/print/start", False, "stringify/tag.rs", "Template printer not found"))
    return obs


def check_innermost(ctx):
    ob = ctx.ob
    tc = ctx.tc
    fs = [f for f in tc.fns if f.name == "convert_scopes" and f.body]
    if len(fs) != 1:
        return [ob("C05.innermost/anchor", False, "parse/expr.rs", "convert_scopes not found")]
    f = fs[0]
    obs = []
    chains = []
    for n in sir.walk(f.body):
        if n.get("k") == "mcall" and n["m"] in ("find_map", "find", "position", "rfind", "rposition", "rev", "last", "next_back"):
            chains.append(n["m"])
    searching = [m for m in chains if m in ("find_map", "find", "position")]
    inner_first = ("rev" in chains and searching) or any(m in ("rfind", "rposition") for m in chains)
    obs.append(ob("C05.innermost/lookup", bool(inner_first), ctx.where(f), "scope lookup method chain: %s" % chains))
    # replaced node is a ScopeRef carrying the found index, and recursion covers sub expressions
    has_rec = any(n.get("k") == "for" and any(x.get("k") == "mcall" and x["m"] == "sub_expressions_mut" for x in sir.walk(n["e"])) for n in sir.walk(f.body))
    obs.append(ob("C05.innermost/recursion", has_rec, ctx.where(f), "recurses through sub_expressions_mut(): %s" % has_rec))
    # compares names for equality (not prefix etc.)
    eqs = [n for n in sir.walk(f.body) if n.get("k") == "binary" and n["op"] == "=="]
    obs.append(ob("C05.innermost/equality", len(eqs) >= 1, ctx.where(f), "name comparison by `==`: %d" % len(eqs)))
    return obs


def dedup_key_rule(ctx):
    """`if !coll.iter().any(|x| x == K1) { coll.push(K2) }`: the key that is tested is the key that is stored"""
    ob = ctx.ob
    tc = ctx.tc
    obs = []
    k = 0

    def norm(e):
        e = sir.strip_ref(e)
        while e.get("k") == "mcall" and e["m"] in ("to_string", "clone", "to_owned", "as_str", "into") and not e["args"]:
            e = sir.strip_ref(e["recv"])
        return sir.expr_str(e).replace(" ", "")
    def absent_test(c):
        """condition `K is not in coll` in any of its spellings -> (coll expr, key expr) or None
        (`!coll.any(|x| x == K)`, `coll.all(|x| x != K)`, `!coll.contains(&K)`, `coll.find(|x| x == K).is_none()`)"""
        neg = False
        while c.get("k") in ("paren",) or (c.get("k") == "unary" and c.get("op") == "!"):
            if c.get("k") == "unary":
                neg = not neg
            c = c["e"]
        if c.get("k") != "mcall":
            return None
        inner = c
        want_op = None
        if c["m"] in ("is_none", "is_some") and not c["args"] and c["recv"].get("k") == "mcall" and c["recv"]["m"] in ("find", "position"):
            if (c["m"] == "is_none") == neg:
                return None
            inner = c["recv"]
            want_op = "=="
        elif c["m"] == "any" and neg:
            want_op = "=="
        elif c["m"] == "all" and not neg:
            want_op = "!="
        elif c["m"] == "contains" and neg and c["args"]:
            coll = c["recv"]
            while coll.get("k") == "mcall" and coll["m"] in ("iter", "into_iter"):
                coll = coll["recv"]
            return coll, c["args"][0]
        else:
            return None
        if not (inner["args"] and inner["args"][0].get("k") == "closure"):
            return None
        coll = inner["recv"]
        while coll.get("k") == "mcall" and coll["m"] in ("iter", "into_iter"):
            coll = coll["recv"]
        cl = inner["args"][0]
        params = [b_ for pp in cl["params"] for b_, _ in sir.pat_bindings(pp)]
        body = cl["body"]
        if body.get("k") == "block" and len(body["stmts"]) == 1:
            body = body["stmts"][0].get("e", body)
        if not (body.get("k") == "binary" and body.get("op") == want_op):
            return None
        key1 = [x for x in (body["l"], body["r"]) if sir.root_expr_name(sir.strip_ref(x)) not in params]
        if len(key1) != 1:
            return None
        return coll, key1[0]
    for f in tc.fns:
        if not f.body or f.module[:1] != ["proc_gen"]:
            continue
        for n in sir.walk(f.body):
            if n.get("k") != "if":
                continue
            t = absent_test(n["cond"])
            if t is None:
                continue
            coll, key1 = t
            pushes = [x for x in sir.walk(n["then"]) if x.get("k") == "mcall" and x["m"] == "push" and sir.expr_str(x["recv"]) == sir.expr_str(coll)]
            if len(pushes) != 1:
                continue
            k += 1
            k1, k2 = norm(key1), norm(pushes[0]["args"][0])
            okk = k1 == k2
            obs.append(ob("C05.mirror/gen/dedup-key/%s/%s" % (f.qual.split("::")[-1], sir.expr_str(coll)), okk, ctx.where(f),
                          "`%s` is searched for `%s` and receives `%s`" % (sir.expr_str(coll), k1, k2) + ("" if okk else ": an entry is skipped because a different value happens to be present"),
                          witness=None if okk else "<c><a slot:v/><b slot:w=\"v\">{{v}}</b></c>: the slot variable of `w` is never declared"))
    if k < 1:
        obs.append(ob("C05.mirror/gen/dedup-key", None, "proc_gen/tag.rs", "no `if <key absent from collection> { push(key) }` found in the generator in a form this rule reads: the de-duplication key is not decided for this tree"))
    return obs


def slot_key_rule(ctx):
    """the slot-value scopes of a child are collected under one key and looked up under the same key"""
    ob = ctx.ob
    tc = ctx.tc

    def norm(e):
        e = sir.strip_ref(e)
        while e.get("k") == "mcall" and e["m"] in ("to_string", "clone", "to_owned", "as_str", "into", "as_ref") and not e["args"]:
            e = sir.strip_ref(e["recv"])
        return sir.expr_str(e).replace(" ", "")
    stored, looked = [], []
    where = "proc_gen/tag.rs"
    for f in tc.fns:
        if not f.body or f.module[:2] != ["proc_gen", "tag"]:
            continue
        for n in sir.walk(f.body):
            if n.get("k") == "mcall" and n["args"] and "var_slot" in sir.expr_str(n["recv"]):
                if n["m"] == "push" and "attr." in sir.expr_str(n["args"][0]):
                    stored.append(norm(n["args"][0]))
                    where = ctx.where(f)
                elif n["m"] in ("get", "contains_key", "get_mut") and "attr." in sir.expr_str(n["args"][0]):
                    looked.append(norm(n["args"][0]))
    if not stored or not looked:
        return [ob("C05.mirror/gen/slot-key", None, where, "the collection / lookup of slot-value names is not in a form this rule reads")]
    ok = set(stored) == set(looked) and len(set(stored)) == 1
    return [ob("C05.mirror/gen/slot-key", ok, where, "slot-value scopes are collected under `%s` and looked up under `%s`" % (sorted(set(stored)), sorted(set(looked))),
               witness=None if ok else "<div slot:b=\"c\">{{ c }}</div>: the scope of `c` is never pushed and the generator indexes past its scope stack")]


def wave8_rules(ctx):
    """obligations added after the eighth wave of seeded changes"""
    import guards as G
    ob = ctx.ob
    tc = ctx.tc
    obs = []
    # (1) every value of an element reaches scope resolution (shared with C07.values)
    from rules.c07 import values_rule
    for x in values_rule(ctx):
        x = dict(x)
        x["key"] = x["key"].replace("C07.values", "C05.visit/values")
        obs.append(x)
    # (2) the generator pushes one scope per <wxs> module, whatever the module contains: nothing in the loop skips the push
    tg = [f for f in tc.fns if f.base == "Template" and f.name == "to_proc_gen" and f.body]
    if tg:
        f = tg[0]
        loops = [n for n in sir.walk(f.body) if n.get("k") == "for" and mentions(n["e"], "scripts") and any(is_mcall(x, "push", "scopes") for x in sir.walk(n["body"]))]
        if loops:
            lp = loops[0]
            gs = G.guards_of(lp["body"])
            skips = [x.get("k") for x in sir.walk(lp["body"], into_closures=False) if x.get("k") in ("continue", "break")]
            conds = []
            for x in sir.walk(lp["body"]):
                if is_mcall(x, "push", "scopes"):
                    conds += [sir.expr_str(subj)[:50] for kind, subj, pol in gs.get(id(x), []) if kind == "cond"]
            ok = not skips and not conds
            obs.append(ob("C05.mirror/gen/start/every-module", ok, ctx.where(f), "one scope is pushed for every module of the file" if ok else "the push can be skipped (%s%s)" % (", ".join(skips), (" under " + "; ".join(conds)) if conds else ""),
                          witness=None if ok else "an empty <wxs module=\"a\"/> shifts every later module and loop variable by one scope"))
    # (3) Element::slot_value_refs yields the refs of every element kind that can carry them
    sv = [f for f in tc.fns if f.base == "Element" and f.name == "slot_value_refs" and f.body]
    ek = tc.enum("ElementKind")
    cs = tc.struct("CommonElementAttributes")
    if sv and ek:
        common_has = bool(cs) and any(fl.get("name") == "slot_value_refs" for fl in cs.get("fields", []))
        carriers = set()
        for v in ek["variants"]:
            names = [fl.get("name") for fl in v.get("fields", [])]
            if "slot_value_refs" in names or ("common" in names and common_has):
                carriers.add(v["name"])
        yielding = set()
        for a in sir.walk(sv[0].body):
            if a.get("k") == "arm" and any((x.get("k") == "field" and x["name"] == "slot_value_refs") or (x.get("k") == "path" and x["segs"][-1] == "slot_value_refs") for x in sir.walk(a["body"])):
                yielding |= set(sir.pat_variants(a["pat"]))
        missing = sorted(carriers - yielding)
        obs.append(ob("C05.visit/slot-value-refs", not missing and bool(carriers), ctx.where(sv[0]), "slot-value references are reported for %s" % sorted(yielding) if not missing else "%s carry slot-value references that are never reported: no scope is introduced for them on either side" % missing,
                      witness=None if not missing else "<block slot:a>{{a}}</block> reads the data field `a`"))
    # (4) a re-declared module / template name is looked for in the whole list
    ep = [f for f in tc.fns if f.base == "Element" and f.name == "parse" and f.body]
    if ep:
        bad, n_ = [], 0
        for n in sir.walk(ep[0].node, into_items=True):
            if n.get("k") == "mcall" and n["m"] in ("find", "any", "position", "filter", "all") and n["args"] and n["args"][0].get("k") == "closure" and any(y.get("k") == "mcall" and y["m"] == "name_eq" for y in sir.walk(n["args"][0]["body"])):
                chain, r_ = [], n["recv"]
                while r_.get("k") == "mcall":
                    chain.append(r_["m"])
                    r_ = r_["recv"]
                root = sir.expr_str(r_)
                if "scripts" in root or "sub_templates" in root or "scripts" in sir.expr_str(n["recv"]) or "sub_templates" in sir.expr_str(n["recv"]):
                    n_ += 1
                    narrow = [m_ for m_ in chain if m_ in ("last", "first", "get", "nth", "take", "skip", "rev") and m_ != "rev"]
                    if narrow or n["m"] == "filter":
                        bad.append("%s.%s..%s" % (root, ".".join(reversed(chain)), n["m"]))
        obs.append(ob("C05.names/duplicate-search", (not bad) if (bad or n_ >= 2) else None, ctx.where(ep[0]), "%d duplicate-name checks search the whole list" % n_ if not bad else "a duplicate-name check looks at part of the list only: %s" % bad,
                      witness=None if not bad else "<wxs module=m/><wxs module=n/><wxs module=m/>: both `m` are registered, the name denotes the second"))
    return obs


def wave10_rules(ctx):
    """obligations added after the tenth wave of seeded changes"""
    from share import relabel
    ob = ctx.ob
    tc = ctx.tc
    obs = []
    # (1) the position of a `<wxs>` module in the template's list is its scope index: the list is appended to and its entries
    #     are overwritten in place, nothing removes, inserts or re-orders
    REORDER = {"remove", "swap_remove", "insert", "retain", "sort", "sort_by", "sort_by_key", "reverse", "drain", "dedup", "dedup_by_key", "rotate_left", "rotate_right", "swap", "truncate", "pop", "split_off", "clear"}
    moved, n_ = [], 0
    for f in tc.fns:
        if not f.body or f.module[:1] != ["parse"]:
            continue
        for n in sir.walk(f.body, into_closures=True):
            if n.get("k") == "mcall" and re.search(r"globals\.scripts$", sir.expr_str(sir.strip_ref(n["recv"])).replace(" ", "")):
                n_ += 1
                if n["m"] in REORDER:
                    moved.append("%s calls `.%s()` on the module list" % (f.name, n["m"]))
    obs.append(ob("C05.mirror/modules/positions-fixed", False if moved else True if n_ >= 4 else None, "parse/tag.rs", "; ".join(moved[:2]) if moved else "%d uses of the module list: iteration, in-place overwrite and append only" % n_,
                  witness=None if not moved else "set_inline_script_content on the first of two modules: references to it now resolve to the second"))
    # (2) the loop callback's parameters are bound to the scopes in the order the runtime passes them (shared with C06.scopes)
    from rules.c06 import scopes_rule
    obs += relabel(scopes_rule(ctx), "C06.scopes", "C05.mirror/gen/scope-args")
    # wave 11: the printer's scope-name stack is cut back after every element, with or without children (shared with C14.scope)
    from rules.c14 import scope_rules as c14_scope
    obs += relabel(c14_scope(ctx), "C14.scope/balanced", "C05.mirror/print/balanced")
    return obs


def wave11_rules(ctx):
    """obligations added after the eleventh wave of seeded changes"""
    ob = ctx.ob
    tc = ctx.tc
    obs = []
    # what a `wx:` directive means does not depend on where it stands in the tag: the arm that stores one directive looks at its own
    # slot only (duplicate check), never at whether another directive has been read yet
    ep = [f for f in tc.fns if f.base == "Element" and f.name == "parse" and f.body and f.module[:1] == ["parse"]]
    if not ep:
        return [ob("C05.attrs/order-independent/anchor", False, "parse/tag.rs", "Element::parse not found")]
    f = ep[0]
    best = None
    for n in sir.walk(f.body, into_closures=True):
        if n.get("k") == "match":
            vs = [v for a in n["arms"] for v in sir.pat_variants(a["pat"])]
            if sum(1 for v in vs if v.startswith("Wx")) >= 5:
                best = n
    if best is None:
        return [ob("C05.attrs/order-independent", None, ctx.where(f), "the dispatch over the attribute prefix kinds is not a match this rule reads")]
    assigned = {}
    for a in best["arms"]:
        vs = [v for v in sir.pat_variants(a["pat"]) if v.startswith("Wx")]
        if not vs:
            continue
        as_ = set(sir.expr_str(x["l"]) for x in sir.walk(a["body"], into_closures=True) if x.get("k") == "assign" and x["l"].get("k") == "path" and len(x["l"]["segs"]) == 1)
        assigned[vs[0]] = (a, as_)
    slots = set().union(*[s_ for _a, s_ in assigned.values()]) if assigned else set()
    cross = []
    for v, (a, as_) in sorted(assigned.items()):
        reads = set(x["s"] for x in sir.walk(a["body"], into_closures=True) if x.get("k") == "path" and len(x["segs"]) == 1 and x["s"] in slots)
        other = sorted(reads - as_)
        if other:
            cross.append("the arm for %s looks at %s" % (v, other))
    obs.append(ob("C05.attrs/order-independent", (not cross) if len(assigned) >= 5 else None, ctx.where(f),
                  "; ".join(cross) if cross else "%d directive arms, each reads and writes its own slot only" % len(assigned),
                  witness=None if not cross else '<block wx:for-item="x" wx:for="{{l}}">{{x}}</block>: written before wx:for the rename is dropped and {{x}} reads data.x'))
    return obs


def wave9_rules(ctx):
    """obligations added after the ninth wave of seeded changes"""
    import absint as ai
    import guards as G
    ob = ctx.ob
    tc = ctx.tc
    obs = []
    ep = [f for f in tc.fns if f.base == "Element" and f.name == "parse" and f.body]
    if ep:
        f = ep[0]
        where = ctx.where(f)
        # (1) `slot:` values of an element that also carries wx:if / wx:elif / wx:else / wx:for are dropped (the element is wrapped
        #     in a virtual node, its slot scope would capture the wrapper's variables): decided for every classification
        blocks = [n for n in sir.walk(f.node, into_items=True) if n.get("k") == "if" and any(x.get("k") == "mcall" and x["m"] == "drain" and "slot_value_refs" in sir.expr_str(x["recv"]) for x in sir.walk(n["then"]))]
        if not blocks:
            obs.append(ob("C05.visit/slot-refs-on-wrapped", None, where, "the place where slot references of wrapped elements are dropped is not in a form this rule reads"))
        else:
            blk = blocks[0]   # the outermost `if` containing the drain
            F = ai.FREE

            def hooks(it, e, st):
                if e.get("k") == "mcall" and e["m"] == "drain":
                    return [(F, st.event(("drain",)))]
                if e.get("k") == "mcall" and e["m"].startswith("add_warning"):
                    return [(ai.UNIT, st)]
                return None
            wrong, und = [], False
            for ic in ("None", "If", "Elif", "Else"):
                for fl in ("None", "For"):
                    # either classification may be an enum of its own (`ForList::None`) or an Option (`None` / `Some(..)`)
                    blk_text = sir.expr_str(blk) + " ".join(sir.pat_str(a_["pat"]) for a_ in sir.walk(blk) if a_.get("k") == "arm")
                    for_v = ("E", fl, () if fl == "None" else (("list", F),)) if "ForList::" in blk_text else (ai.NONE if fl == "None" else ("Some", F))
                    if_v = ("E", ic, () if ic == "None" else (F, F)) if "IfCondition::" in blk_text else (ai.NONE if ic == "None" else ("Some", ("E", ic, (F, F))))
                    env = {"if_condition": if_v, "for_list": for_v, "slot_value_refs": ("Some", F), "ps": F}
                    try:
                        outs = ai.Interp(hooks=hooks, idx=tc).run(blk, env)
                    except ai.TooManyPaths:
                        outs = []
                    if not outs or any(o.tainted for o in outs):
                        und = True
                        continue
                    drained = set(("drain",) in o.events for o in outs)
                    want = not (ic == "None" and fl == "None")
                    if drained != {want}:
                        wrong.append("(%s, %s): %s" % (ic, fl, "kept" if want else "dropped"))
            if und and not wrong:
                obs.append(ob("C05.visit/slot-refs-on-wrapped", None, where, "the decision depends on a construct outside the interpreted fragment"))
            else:
                obs.append(ob("C05.visit/slot-refs-on-wrapped", not wrong, where, "slot references are kept exactly for elements without wx:if/elif/else and wx:for (8 combinations)" if not wrong else "wrong for %s" % wrong,
                              witness=None if not wrong else "<a wx:for=..><b slot:item wx:if=..>{{item}}</b></a>: `item` is captured by the slot scope"))
        # (2) duplicates among `slot:` value names are found by equality of the names
        bad = []
        for n in sir.walk(f.node, into_items=True):
            if n.get("k") == "mcall" and n["m"] in ("find", "any", "position") and n["args"] and n["args"][0].get("k") == "closure":
                body = n["args"][0]["body"]
                if "slot_value_refs" in sir.expr_str(n["recv"]) or "slot_value_refs" in sir.expr_str(sir.strip_ref(n["recv"]).get("recv", {})):
                    if any(x.get("k") == "mcall" and re.search(r"ignore|lower|upper", x["m"]) for x in sir.walk(body)):
                        bad.append(sir.expr_str(n)[:60])
        obs.append(ob("C05.names/slot-duplicate-exact", not bad, where, "duplicate slot value names are compared for equality" if not bad else "slot value names are compared loosely: %s" % bad[:1],
                      witness=None if not bad else "slot:a plus slot:A: the second alias is dropped and falls through to an outer scope"))
    # (3) the analysis pushes one scope for the item and one for the index of every wx:for, whatever their names
    ib = [f for f in tc.fns if f.base == "Element" and f.name == "init_scopes_and_binding_map_keys" and f.body]
    if ib:
        f = ib[0]
        gs = G.guards_of(f.body)
        conds = []
        n_ = 0
        for n in sir.walk(f.body):
            if is_mcall(n, "push", "scopes") and ("item_name" in sir.expr_str(n) or "index_name" in sir.expr_str(n)):
                n_ += 1
                conds += [sir.expr_str(subj)[:50] for kind, subj, pol in gs.get(id(n), []) if kind == "cond"]
        if n_:
            obs.append(ob("C05.mirror/analysis/for-unconditional", not conds, ctx.where(f), "item and index scopes are pushed unconditionally (%d pushes)" % n_ if not conds else "a wx:for scope is pushed only under %s: the generator still pushes two" % conds[:1],
                          witness=None if not conds else "wx:for-item=\"x\" wx:for-index=\"x\": every scope below is shifted by one"))
    # (4) nested writers continue the identifier numbering of their parent (shared with C02.ident)
    from rules.c02 import ident_rule, holes_rule
    _o, sites = holes_rule(ctx)
    for x in ident_rule(ctx, sites):
        if x["key"].endswith("ident/nested-align"):
            x = dict(x)
            x["key"] = "C05.names/nested-align"
            obs.append(x)
    return obs


def run(ctx):
    obs, _model, _its = check_iterators(ctx)
    obs += check_mirror(ctx)
    obs += check_innermost(ctx)
    obs += dedup_key_rule(ctx)
    obs += slot_key_rule(ctx)
    obs += wave8_rules(ctx)
    obs += wave9_rules(ctx)
    obs += wave10_rules(ctx)
    obs += wave11_rules(ctx)
    n_children = sum(1 for o in obs if o["key"].startswith("C05.children/"))
    if n_children < 88:
        obs.append(ctx.ob("C05.floor/children", False, "parse/expr.rs", "only %d variant x iterator obligations (floor 88 = 44 variants x 2 iterators)" % n_children))
    return obs
