"""C20 - compilation is a deterministic function of the set of inputs."""
import re
import sir

RULE = ("C20.hash: every iteration over a std hash collection (HashMap/HashSet iter, iter_mut, keys, values, "
        "values_mut, into_iter, into_keys, into_values, drain, and IntoIterator for &/&mut maps) found in the "
        "type-resolved MIR of the two crates must be consumed order-insensitively (count/any/all/len/min/max/sum, "
        "collect/extend into a map or set, or collect into a Vec that is sorted in the same function); "
        "C20.src: no library function calls into time, environment, randomness, threads, process ids or pointer "
        "formatting; C20.counters: nested JS scopes get a *copy* of the identifier counters (so a template's text "
        "does not depend on its position in a bundle). Detectors are run against fixtures/poscontrol on every run.")
EXPLANATION = ("Decides, from resolved callees of every MIR body of both crates, that no emitted byte can depend on "
               "hash iteration order or on a nondeterministic source; not an execution of the compilers.")
ASSUMPTIONS = ["std BTreeMap/Vec iteration is deterministic", "cssparser, sourcemap, regex, entities are deterministic",
               "cargo +nightly check builds the same library code as the stable release build (no cfg differences)"]

ITER_METHODS = {"iter", "iter_mut", "keys", "values", "values_mut", "into_iter", "into_keys", "into_values", "drain",
                "extract_if", "retain"}
ORDER_FREE = {"count", "any", "all", "len", "min", "max", "sum", "is_empty", "contains", "fold_unordered"}
NONDET = [
    (r"^std::time::", "wall clock"), (r"SystemTime|Instant::now", "wall clock"),
    (r"^std::env::", "environment"), (r"^std::thread::", "threads"), (r"^std::process::id", "process id"),
    (r"RandomState::new|^rand::|getrandom", "randomness"),
    (r"Argument::<[^>]*>::new_pointer|as std::fmt::Pointer>::fmt|fmt::Pointer", "pointer formatting"),
    (r"^std::fs::|^std::net::", "file system / network"),
    (r"std::sync::(Mutex|RwLock)(<|::)|sync::(poison::)?(mutex|rwlock)::|atomic::Atomic\w*(::<[^>]*>)?::(fetch_\w+|store|swap|compare_exchange\w*)", "process-wide mutable state"),
]


def hash_iter_sites(mir, crates):
    sites = []
    for b in mir.bodies:
        if b["crate"] not in crates:
            continue
        for c in b["calls"]:
            g = c["generic"]
            if "HashMap" not in g and "HashSet" not in g and "hash_map" not in g and "hash_set" not in g:
                continue
            callee = c["callee"]
            last = sir.norm_mir_name(callee).split("::")[-1]
            is_iter = False
            # inherent iteration methods of the collection itself
            if re.search(r"(HashMap|HashSet)::<.*>::(%s)$" % "|".join(ITER_METHODS), g) or \
               re.search(r"collections::hash::(map|set)::(HashMap|HashSet)<.*>::(%s)$" % "|".join(ITER_METHODS), sir.norm_mir_name(g)) or \
               (re.search(r"(^|::)(HashMap|HashSet)(::|<)", callee) and last in ITER_METHODS):
                is_iter = True
            # IntoIterator for (&)(mut) HashMap
            if last == "into_iter" and re.search(r"<&?(mut )?(')?\w*\s*std::collections::(HashMap|HashSet)<", g):
                is_iter = True
            if last == "into_iter" and re.search(r"IntoIterator for &?.*(HashMap|HashSet)", g):
                is_iter = True
            if not is_iter:
                continue
            sites.append((b, c))
    return sites


def classify_site(ctx, spanidx, b, c):
    """-> (ok, why). Order-insensitive consumers are recognised on the original syntax tree."""
    try:
        f, line, col = sir.split_span(c["span"])
    except ValueError:
        return False, "site has no usable span"
    fn = spanidx.enclosing_fn(f, line)
    if fn is None:
        return False, "no syntax node for the site (macro-generated?)"
    pm = sir.parent_map(fn)
    cands = spanidx.nodes_at(f, line, col, lambda n: n.get("k") == "mcall" and n["m"] in ITER_METHODS)
    node = None
    for n in cands:
        node = n  # innermost last
    if node is None:
        # `for x in &map` / `for x in map`
        return False, "hash collection iterated directly (for-loop / IntoIterator)"
    # climb the method chain
    cur = node
    chain = [node["m"]]
    while True:
        p = pm.get(id(cur))
        if p is not None and p.get("k") == "mcall" and p["recv"] is cur:
            chain.append(p["m"])
            cur = p
            continue
        if p is not None and p.get("k") in ("try", "ref"):
            cur = p
            continue
        break
    term = chain[-1]
    if term in ORDER_FREE:
        return True, "consumed by order-insensitive `%s`" % term
    top = cur
    if term == "collect":
        tf = (top.get("tf") or "")
        if re.search(r"BTreeMap|BTreeSet|HashMap|HashSet", tf):
            return True, "collected into a map/set (%s)" % tf.strip()
        # typed let + sort in the same function
        p = pm.get(id(top))
        if p is not None and p.get("k") == "local":
            ty = p.get("ty") or ""
            if re.search(r"BTreeMap|BTreeSet|HashMap|HashSet", ty):
                return True, "collected into a map/set (%s)" % ty
            name = p["pat"].get("name")
            for n in sir.walk(fn):
                if n.get("k") == "mcall" and n["m"].startswith("sort") and sir.expr_str(sir.strip_ref(n["recv"])) == name:
                    if n["m"] in ("sort", "sort_unstable"):
                        return True, "collected into `%s` and sorted (total order on the entries, key first) before use" % name
                    # a custom comparator canonicalises the order only if it compares the map key
                    uses_key = any((x.get("k") == "field" and x["name"] == "0") for x in sir.walk(n)) or \
                        any(x.get("k") == "p_tuple" and x["elems"] and x["elems"][0].get("k") == "p_ident" and
                            any(y.get("k") == "path" and y["s"] == x["elems"][0]["name"] for y in sir.walk(n)) for x in sir.walk(n))
                    if uses_key:
                        return True, "collected into `%s` and sorted by a comparator that includes the map key" % name
                    return False, "collected into `%s` and sorted by `%s` with a key that does not include the map key: entries with equal sort keys keep hash order" % (name, n["m"])
    p = pm.get(id(top))
    if p is not None and p.get("k") == "mcall" and p["m"] == "extend" and top in p["args"]:
        return False, "extends another collection in hash order"
    return False, "iterator chain `.%s` is order-sensitive" % ".".join(chain)


def order_rules(ctx):
    """C20.order: the group is a function of the *set* of files: mutators update flags monotonically and importing a group
    overrides like adding its files does."""
    ob = ctx.ob
    tc = ctx.tc
    obs = []
    st = tc.struct("TmplGroup", "group")
    if st is None:
        return [ob("C20.order/anchor", False, "group.rs", "struct TmplGroup not found")]
    bool_fields = [f["name"] for f in st["fields"] if f["ty"] == "bool"]
    map_fields = [f["name"] for f in st["fields"] if re.search(r"(BTreeMap|HashMap|IndexMap)<", f["ty"])]
    n_assign = 0
    for f in tc.fns:
        if f.base != "TmplGroup" or not f.body or "group" not in f.module:
            continue
        if f.name in ("new", "new_dev") or f.name.startswith("set_"):
            continue
        for n in sir.walk(f.body):
            if n.get("k") == "assign" and n["l"].get("k") == "field" and n["l"]["name"] in bool_fields and sir.expr_str(n["l"]["base"]) in ("self", "this"):
                n_assign += 1
                fld = n["l"]["name"]
                r = n["r"]
                rs = sir.expr_str(r)
                mono = (r.get("k") == "lit" and r.get("v") is True) or (r.get("k") == "binary" and r["op"] == "||" and sir.expr_str(r["l"]) == "self." + fld)
                obs.append(ob("C20.order/monotone/%s/%s" % (f.qual, fld), mono, ctx.where(f),
                              "`self.%s = %s` %s" % (fld, rs[:80], "only ever turns the flag on" if mono else "can turn the flag off again: the group state (and the runtime prelude emitted from it) depends on the order files were added"),
                              witness=None if mono else "add a template with an inline <wxs>, then one without: the WXS runtime disappears from the bundle; the other order keeps it"))
        for n in sir.walk(f.body):
            if n.get("k") == "binary" and n.get("op") == "|=" and n["l"].get("k") == "field" and n["l"]["name"] in bool_fields and sir.expr_str(n["l"]["base"]) in ("self", "this"):
                n_assign += 1
                obs.append(ob("C20.order/monotone/%s/%s" % (f.qual, n["l"]["name"]), True, ctx.where(f), "`self.%s |= %s` only ever turns the flag on" % (n["l"]["name"], sir.expr_str(n["r"])[:60])))
    # configuration is not content: a field the constructors / setters choose (dev mode) is never changed by adding or importing
    # files - otherwise the same set of files compiles differently depending on how it got into the group
    def _assigned(fn_):
        out = set()
        for n in sir.walk(fn_.body):
            if n.get("k") in ("assign", "binary") and (n.get("k") == "assign" or n.get("op", "").endswith("=") and n.get("op") not in ("==", "!=", "<=", ">=")) \
                    and isinstance(n.get("l"), dict) and n["l"].get("k") == "field" and sir.expr_str(n["l"]["base"]) in ("self", "this"):
                out.add(n["l"]["name"])
        return out
    gfns = [f for f in tc.fns if f.base == "TmplGroup" and f.body and "group" in f.module]
    config = set()
    for f in gfns:
        if (f.name.startswith("new") and f.name != "new") or f.name.startswith("set_"):
            config |= _assigned(f)
    config -= set(map_fields)
    changed = []
    for f in gfns:
        if f.name.startswith("new") or f.name.startswith("set_"):
            continue
        for fld in sorted(_assigned(f) & config):
            changed.append("%s assigns `%s`" % (f.name, fld))
    obs.append(ob("C20.order/config-untouched", bool(config) and not changed, "group.rs",
                  "; ".join(changed) if changed else "configuration fields %s are assigned by constructors and setters only" % sorted(config),
                  witness=None if not changed else "a production group that imports a dev-mode group emits `R.devArgs(..)`; the same files added directly do not"))
    if n_assign < 3:
        obs.append(ob("C20.order/floor", False, "group.rs", "only %d flag assignments found in TmplGroup mutators (floor 3)" % n_assign))
    imp = [f for f in tc.fns if f.base == "TmplGroup" and f.name == "import_group" and f.body and "group" in f.module]
    if len(imp) != 1:
        obs.append(ob("C20.order/import/anchor", False, "group.rs", "import_group not found"))
    else:
        f = imp[0]
        for m in map_fields:
            overriding = [n for n in sir.walk(f.body) if n.get("k") == "mcall" and n["m"] in ("extend", "insert", "append") and sir.expr_str(n["recv"]).endswith("." + m)]
            guarded = [n for n in sir.walk(f.body) if n.get("k") == "mcall" and n["m"] in ("entry", "or_insert", "or_insert_with", "try_insert", "contains_key") and ("." + m) in sir.expr_str(n)]
            ok = bool(overriding) and not guarded
            obs.append(ob("C20.order/import/%s" % m, ok, ctx.where(f),
                          "import_group merges `%s` with %s" % (m, "overriding insert/extend, as add_tmpl/add_script do" if ok else "a keep-existing insertion (%s): importing is not equivalent to adding the files" % [x["m"] for x in guarded][:3]),
                          witness=None if ok else "two groups holding the same path with different content"))
        # a flag of the imported group is merged from that group's own flag (it records what its files needed when they were
        # added; re-deriving it from another field leaves out the files that field does not list)
        pn_ = [x for x in f.param_names() if x and x != "self"]
        for n in sir.walk(f.body):
            tgt = None
            if n.get("k") == "assign" and n["l"].get("k") == "field" and n["l"]["name"] in bool_fields and sir.expr_str(n["l"]["base"]) in ("self", "this"):
                tgt, r = n["l"]["name"], n["r"]
                parts = [sir.expr_str(x).replace(" ", "") for x in ([r["l"], r["r"]] if r.get("k") == "binary" and r["op"] == "||" else [r])]
            elif n.get("k") == "binary" and n.get("op") == "|=" and n["l"].get("k") == "field" and n["l"]["name"] in bool_fields and sir.expr_str(n["l"]["base"]) in ("self", "this"):
                tgt = n["l"]["name"]
                parts = [sir.expr_str(n["r"]).replace(" ", "")]
            if tgt is None:
                continue
            other = [p_ for p_ in parts if p_ != "self." + tgt]
            if other in (["true"], ["True"]):
                # `if group.flag { self.flag = true }`: the condition is the source
                import guards as gd_
                other = [sir.expr_str(subj).replace(" ", "") for kind, subj, pol in gd_.guards_of(f.body).get(id(n), []) if kind == "cond" and pol]
            same = bool(pn_) and other == ["%s.%s" % (pn_[0], tgt)]
            obs.append(ob("C20.order/import/flag/%s" % tgt, same, ctx.where(f), "`%s` is merged from %s" % (tgt, other),
                          witness=None if same else "a group whose only scripts are inline <wxs> blocks: imported, the WXS runtime is missing; added file by file, it is there"))
        # nothing of the imported group is skipped: the merge has no early exit, and each map is merged under no condition
        rets = [n for n in sir.walk(f.body) if n.get("k") == "return"]
        import guards as gd2
        Gi = gd2.guards_of(f.body)
        conds = []
        for m in map_fields:
            for n in sir.walk(f.body):
                if n.get("k") == "mcall" and n["m"] in ("extend", "insert", "append") and sir.expr_str(n["recv"]).endswith("." + m):
                    conds += [sir.expr_str(sj)[:40] for kd, sj, pl in Gi.get(id(n), []) if kd == "cond"]
        okm = not rets and not conds
        obs.append(ob("C20.order/import/unconditional", okm, ctx.where(f), "every part of the imported group is merged, whatever the group holds" if okm else "the merge %s" % ("returns early" if rets else "of a map depends on %s" % conds[:2]),
                      witness=None if okm else "importing a group that holds only scripts merges nothing: the scripts and the WXS runtime are missing"))
        # and the adders themselves override
        for name, m in (("add_tmpl", "trees"), ("add_script", "scripts")):
            g = [x for x in tc.fns if x.base == "TmplGroup" and x.name == name and x.body and "group" in x.module]
            ok = len(g) == 1 and any(n.get("k") == "mcall" and n["m"] == "insert" and sir.expr_str(n["recv"]).endswith("." + m) for n in sir.walk(g[0].body)) \
                and not any(n.get("k") == "mcall" and n["m"] in ("entry", "or_insert", "or_insert_with", "contains_key") for n in sir.walk(g[0].body))
            obs.append(ob("C20.order/add/%s" % name, ok, "group.rs", "%s replaces an existing entry unconditionally (last add wins regardless of what was added before): %s" % (name, ok)))
            # distinct paths stay distinct entries: the path is used as given (two spellings that some normalisation would merge
            # must not overwrite each other depending on the order of insertion)
            if len(g) == 1:
                pn = [x for x in g[0].param_names() if x and x != "self"]
                rebound = [l_ for l_ in sir.walk(g[0].body) if l_.get("k") == "local" and pn and any(b == pn[0] for b, _ in sir.pat_bindings(l_["pat"]))]
                transformed = [x for x in sir.walk(g[0].body) if x.get("k") == "call" and re.search(r"path::(normalize|resolve)$", sir.call_path(x) or "")]
                # the key handed to `insert` is the parameter or the path stored in the parsed template, copied but not edited
                edited = []
                for n in sir.walk(g[0].body):
                    if n.get("k") == "mcall" and n["m"] == "insert" and sir.expr_str(n["recv"]).endswith("." + m) and n["args"]:
                        k_ = sir.strip_ref(n["args"][0])
                        if k_.get("k") == "path" and len(k_["segs"]) == 1 and k_["s"] != (pn[0] if pn else None):
                            ins_ = [l_["init"] for l_ in sir.walk(g[0].body) if l_.get("k") == "local" and l_["pat"].get("name") == k_["s"] and l_.get("init") is not None]
                            k_ = sir.strip_ref(ins_[-1]) if ins_ else k_
                        while k_.get("k") == "mcall" and k_["m"] in ("clone", "to_string", "to_owned", "into", "as_str", "to_compact_string") and not k_["args"]:
                            k_ = sir.strip_ref(k_["recv"])
                        if k_.get("k") == "call" and len(k_["args"]) == 1 and re.search(r"(String|CompactString)::from$", sir.call_path(k_) or ""):
                            k_ = sir.strip_ref(k_["args"][0])
                        t_ = sir.expr_str(k_).replace(" ", "")
                        if not (pn and t_ == pn[0]) and not re.fullmatch(r"\w+\.path", t_):
                            edited.append(t_[:60])
                transformed = transformed or edited
                okk = not rebound and not transformed
                obs.append(ob("C20.order/add/%s/key-verbatim" % name, okk, ctx.where(g[0]), "the path is the key as given: %s" % okk if okk else "the path is rewritten before it is used as the key (%s): two different inputs can collide, and the survivor depends on the order of insertion" % ("rebound" if rebound else "normalised"),
                              witness=None if okk else "add_tmpl('widgets/badge') and add_tmpl('widgets/./badge') in either order"))
    return obs


def run(ctx):
    ob = ctx.ob
    obs = []
    crates = {"glass_easel_template_compiler", "glass_easel_stylesheet_compiler"}
    spanidx = sir.SpanIndex(ctx._load("orig.json"))
    sites = hash_iter_sites(ctx.mir, crates)
    for b, c in sites:
        ok, why = classify_site(ctx, spanidx, b, c)
        key = "C20.hash/%s/%s" % (b["root"], sir.norm_mir_name(c["callee"]).split("::")[-1])
        obs.append(ob(key, ok, c["span"], "%s  [%s]" % (why, c["generic"][:140]),
                      witness="add the same files to two groups in different orders / run twice: emitted bundle differs" if not ok else None))
    # positive control: the detector must see the fixture's two bad sites and accept the sorted one
    pcidx = sir.SpanIndex(ctx._load("pc.json"))
    pc_sites = hash_iter_sites(ctx.pc_mir, {"poscontrol"})
    verdicts = {}
    for b, c in pc_sites:
        ok, _why = classify_site(ctx, pcidx, b, c)
        verdicts.setdefault(b["root"], []).append(ok)
    pc_ok = (verdicts.get("hash_order_emit") and not any(verdicts["hash_order_emit"]) and len(verdicts["hash_order_emit"]) >= 2
             and verdicts.get("hash_order_sorted") == [True])
    obs.append(ob("C20.hash/positive-control", pc_ok, "fixtures/poscontrol/src/lib.rs",
                  "detector verdicts on the fixture: %r (expected two rejected sites in hash_order_emit, one accepted in hash_order_sorted)" % verdicts))

    if ctx.tier == "thorough":
        # cross-reference: clippy's iter_over_hash_type is an independent enumeration of hash-ordered iteration; every site it
        # reports must be one the MIR query has classified above (whatever the verdict), and it must fire on the fixture.
        import clippyxref as cx
        try:
            cs = [s_ for s_ in cx.repo_sites() if s_["lint"] in cx.HASH_LINTS]
            fs = [s_ for s_ in cx.fixture_sites() if s_["lint"] in cx.HASH_LINTS]
            mine = set()
            for b, c in sites:
                m_ = re.match(r"(.*?):(\d+):", c["span"])
                if m_:
                    mine.add(cx.norm(m_.group(1)) + (int(m_.group(2)),))
            miss = [s_ for s_ in cs if not any(cx.norm(s_["file"]) + (ln,) in mine for ln in range(s_["line"], s_["line_end"] + 1))]
            obs.append(ob("C20.xref/clippy/iter_over_hash_type", not miss, (miss[0]["file"] + ":%d" % miss[0]["line"]) if miss else "both crates",
                          "%d site(s) reported by clippy::iter_over_hash_type, %d of them unknown to the MIR query: %s" % (len(cs), len(miss), ["%s:%d" % (s_["file"], s_["line"]) for s_ in miss[:5]])))
            obs.append(ob("C20.xref/clippy/positive-control", len(fs) >= 1, "fixtures/poscontrol", "clippy::iter_over_hash_type raised %d time(s) on the fixture (must be >= 1: the lint has run)" % len(fs)))
        except Exception as e:  # noqa: BLE001
            obs.append(ob("C20.xref/clippy/run", False, "cargo +nightly clippy", "the cross-reference lint run failed: %s" % str(e)[:600]))
    # C20.src
    def nondet_calls(mir, crs):
        out = []
        for b in mir.bodies:
            if b["crate"] not in crs:
                continue
            for c in b["calls"]:
                for rx, what in NONDET:
                    if re.search(rx, c["generic"]) or re.search(rx, c["callee"]):
                        out.append((b, c, what))
                        break
        return out
    nd = nondet_calls(ctx.mir, crates)
    n_bodies = sum(1 for b in ctx.mir.bodies if b["crate"] in crates)
    n_calls = sum(len(b["calls"]) for b in ctx.mir.bodies if b["crate"] in crates)
    for b, c, what in nd:
        obs.append(ob("C20.src/%s/%s" % (b["root"], what), False, c["span"], "call into a nondeterministic source (%s): %s" % (what, c["generic"][:120])))
    obs.append(ob("C20.src/all-bodies", True, "both crates", "%d MIR bodies, %d resolved call sites scanned; %d nondeterministic" % (n_bodies, n_calls, len(nd))))
    pc_nd = nondet_calls(ctx.pc_mir, {"poscontrol"})
    kinds = {w for b, c, w in pc_nd if b["root"] == "nondeterministic_sources"}
    obs.append(ob("C20.src/positive-control", {"wall clock", "environment", "pointer formatting", "process-wide mutable state"} <= kinds, "fixtures/poscontrol/src/lib.rs",
                  "detector found %r in the fixture" % sorted(kinds)))
    if n_bodies < 500:
        obs.append(ob("C20.floor/bodies", False, "mir facts", "only %d MIR bodies extracted (floor 500): extraction incomplete" % n_bodies))

    obs += order_rules(ctx)

    # C20.counters: child scopes copy the counters
    tc = ctx.tc
    scope_fns = [f for f in tc.fns if f.base == "JsExprWriter" and f.name in ("function", "function_args", "function_dyn_args", "brace_block")]
    if len(scope_fns) < 4:
        obs.append(ob("C20.counters/anchor", False, "proc_gen/mod.rs", "expected the four scope-opening methods of JsExprWriter, found %d" % len(scope_fns)))
    for f in scope_fns:
        has_extend = any(n.get("k") == "mcall" and n["m"] == "extend" for n in sir.walk(f.body))
        shares_parent = False
        for n in sir.walk(f.body):
            if n.get("k") == "struct" and n["path"].endswith("JsFunctionScopeWriter"):
                for fl in n["fields"]:
                    if fl["name"] == "block":
                        s = sir.expr_str(fl["e"])
                        if "self.block" in s or s == "None":
                            shares_parent = True
        obs.append(ob("C20.counters/%s" % f.qual, has_extend and not shares_parent, ctx.where(f),
                      "child scope block is %s" % ("a copy (`extend()`) of the parent's counters" if has_extend and not shares_parent else "shared with the parent: identifiers depend on what was emitted before")))
    return obs
