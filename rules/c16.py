"""C16 - recorded source positions point at the text they describe (cursor-discipline half)."""
import re
import sir

RULE = ("C16.map/pair: the location an attribute is printed with comes from the same parsed item (same `(location, value)` tuple / same attribute) as its value. "
        "C16.loc/after-skip: in the expression parser a start position is sampled only after look-ahead has skipped the blanks in front of the token. "
        "C16.loc/if-chain: appending an elif/else branch extends the If node's location. "
        "C16.cursor: ParseState.{cur_index,line,utf16_col} are written only by the cursor methods (MIR field-writer query); in each of "
        "them a line increment is followed by a column reset, a column increment takes its amount from encode_utf16 (never a byte length "
        "or chars().count()), every cursor move also moves the column, and try_parse restores all three fields together. C16.map: "
        "Stringifier.{line,utf16_col} are written only by write_str with the same discipline; write_token registers (generated "
        "line/column, source line/column) before writing. C16.loc: locations the parser synthesises for mixed text start at the position "
        "taken in front of the text; a ScopeRef keeps the location of the identifier it replaces (not of the declaration it resolves to).")
EXPLANATION = ("Who may move the cursors and how each move keeps line / UTF-16 column in step are decided from MIR field writes and the "
               "syntax of the owner methods; exact spans of concrete nodes are not computed.")
ASSUMPTIONS = ["str::encode_utf16 / char::encode_utf16 count UTF-16 code units", "nesting and order of node locations are value-level and not decided"]


def writers(ctx, crate, adt_suffix, fields):
    out = {f: {} for f in fields}
    for b in ctx.mir.bodies:
        if b["crate"] != crate:
            continue
        for w in b["writes"]:
            if w["field"] in fields and w["adt"].endswith(adt_suffix):
                out[w["field"]].setdefault(b["root"], []).append(w["how"])
    return out


def column_discipline(ctx, f, obj, line_f, col_f, idx_f, prefix, col_helpers=()):
    """checks on one owner method: `obj.line += ..` => later `obj.col = ..`; `obj.col += X` => X from encode_utf16"""
    ob = ctx.ob
    obs = []
    where = ctx.where(f)
    pm = sir.parent_map(f.body)
    nodes = list(sir.walk(f.body))

    def is_field(e, name):
        return e.get("k") == "field" and e["name"] == name and sir.expr_str(e["base"]) == obj
    line_incs = [n for n in nodes if n.get("k") == "binary" and n["op"] == "+=" and is_field(n["l"], line_f)]
    col_incs = [n for n in nodes if n.get("k") == "binary" and n["op"] == "+=" and is_field(n["l"], col_f)]
    col_sets = [n for n in nodes if n.get("k") == "assign" and is_field(n["l"], col_f)]
    idx_moves = [n for n in nodes if (n.get("k") == "binary" and n["op"] == "+=" and is_field(n["l"], idx_f)) or (n.get("k") == "assign" and is_field(n["l"], idx_f))] if idx_f else []
    problems = []

    def utf16_measure(e, depth=0):
        """the expression counts UTF-16 code units: directly, or through a helper whose result is such a count of its argument"""
        r_ = sir.expr_str(e).replace(" ", "")
        if "encode_utf16" in r_ or "len_utf16" in r_:
            return True
        if depth < 2:
            for c_ in sir.walk(e):
                if c_.get("k") in ("call", "mcall"):
                    nm_ = (sir.call_name(c_) or "").split("::")[-1] if c_.get("k") == "call" else c_["m"]
                    hs = [g for g in ctx.tc.fns if g.name == nm_ and g.body and g.ret and re.sub(r"\s", "", g.ret) in ("u32", "usize")]
                    if len(hs) == 1 and hs[0].body["stmts"]:
                        last = hs[0].body["stmts"][-1]
                        tail = last.get("e") if last.get("k") == "expr" and not last.get("semi") else None
                        if tail is not None and utf16_measure(tail, depth + 1):
                            return True
        return False
    for n in col_incs:
        r = sir.expr_str(n["r"]).replace(" ", "")
        if not utf16_measure(n["r"]):
            problems.append("column advanced by `%s`: not a UTF-16 length" % r[:60])
    for n in col_sets:
        r = sir.expr_str(n["r"]).replace(" ", "")
        if r not in ("0", "prev_utf16_col") and not utf16_measure(n["r"]) and not r.startswith("position_offset"):
            problems.append("column set to `%s`: not a UTF-16 length" % r[:60])
    # a line increment must be accompanied by a column reset: either in the same branch (`if c == '\n' {line += 1; col = 0}`)
    # or, when the increment is unconditional (`line += count`), in a branch taken whenever count > 0
    for n in line_incs:
        blk = pm.get(id(n))
        while blk is not None and blk.get("k") != "block":
            blk = pm.get(id(blk))
        same = blk is not None and any(x in col_sets for st in blk["stmts"] for x in sir.walk(st))
        amount = sir.expr_str(n["r"]).replace(" ", "")
        guarded = False
        if not same and blk is not None:
            cnt = re.sub(r"asu32$", "", amount).strip("()")
            for st in blk["stmts"]:
                e = st.get("e") if st.get("k") == "expr" else None
                if e is not None and e.get("k") == "if" and sir.expr_str(e["cond"]).replace(" ", "") == "%s>0" % cnt:
                    if any(x in col_sets for x in sir.walk(e["then"])) and e.get("else") is not None and any(x in col_incs for x in sir.walk(e["else"])):
                        guarded = True
        if not (same or guarded):
            problems.append("line advanced by `%s` without resetting the column on that path" % amount)
    if idx_f:
        via_helper = any(n.get("k") == "mcall" and sir.expr_str(n["recv"]) == obj and n["m"] in col_helpers for n in nodes)
        if idx_moves and not (col_incs or col_sets or via_helper):
            problems.append("cursor index moves but the column never does")
        # .. and on the same path: the block that moves the index also updates the column (itself, in a nested branch, or by
        # calling a method that does)
        for n in idx_moves:
            blk = pm.get(id(n))
            while blk is not None and blk.get("k") != "block":
                blk = pm.get(id(blk))
            if blk is None:
                continue
            inside = [x for st in blk["stmts"] for x in sir.walk(st)]
            if not any(x in col_incs or x in col_sets or (x.get("k") == "mcall" and sir.expr_str(x["recv"]) == obj and x["m"] in col_helpers) for x in inside):
                problems.append("`%s` moves the index on a path that leaves line and column where they were" % sir.expr_str(n)[:50])
    obs.append(ob("%s/%s" % (prefix, f.qual), not problems, where,
                  "; ".join(problems) if problems else "%d line increments each with a column reset, %d column increments all from encode_utf16, %d column assignments" % (len(line_incs), len(col_incs), len(col_sets)),
                  witness=None if not problems else "an astral character (or a line break consumed by this method) shifts every later location on the line"))
    return obs


def cursor_rule(ctx):
    import guards as gd
    ob = ctx.ob
    tc = ctx.tc
    obs = []
    w = writers(ctx, "glass_easel_template_compiler", "ParseState", ("cur_index", "line", "utf16_col"))
    # the cursor belongs to ParseState: only its own methods may write it (a private helper of the type is one of them)
    for fld, ws in w.items():
        foreign = sorted(x for x in ws if not x.startswith("parse::ParseState::"))
        obs.append(ob("C16.cursor/owners/%s" % fld, bool(ws) and not foreign, "parse/mod.rs", "ParseState.%s is written by %s" % (fld, sorted(ws)) + ("" if not foreign else " - foreign writers %s" % foreign)))
    col_writers = set(x.split("::")[-1] for x in w.get("utf16_col", {}))
    movers = sorted((set(x.split("::")[-1] for x in w.get("cur_index", {})) | col_writers | set(x.split("::")[-1] for x in w.get("line", {}))) - {"new", "try_parse"})
    for name in movers:
        fs = [f for f in tc.fns if f.name == name and f.base == "ParseState" and f.body]
        if len(fs) != 1:
            obs.append(ob("C16.cursor/discipline/%s" % name, False, "parse/mod.rs", "ParseState::%s not found" % name))
            continue
        obs += column_discipline(ctx, fs[0], "self", "line", "utf16_col", "cur_index", "C16.cursor/discipline", col_helpers=col_writers - {name})
    # a method that moves the byte index also keeps the line counter: each of them either consumes one character it has looked at
    # (and counts a line break) or hands the text to a mover that does - none moves the index and the column alone (MIR field writes)
    idx_w = set(x.split("::")[-1] for x in w.get("cur_index", {}))
    line_w = set(x.split("::")[-1] for x in w.get("line", {}))
    lonely = []
    for nm in sorted(idx_w - {"new", "try_parse"}):
        for g in [f_ for f_ in tc.fns if f_.name == nm and f_.base == "ParseState" and f_.body]:
            pm_ = sir.parent_map(g.body)
            for n in sir.walk(g.body, into_closures=True):
                is_w = (n.get("k") == "assign" or (n.get("k") == "binary" and n.get("op") in ("+=", "-="))) and isinstance(n.get("l"), dict) and sir.expr_str(n["l"]).replace(" ", "") == "self.cur_index"
                if not is_w:
                    continue
                blk = pm_.get(id(n))
                while blk is not None and blk.get("k") != "block":
                    blk = pm_.get(id(blk))
                # the enclosing block, or - for a write inside a loop / branch - the function body
                scopes_ = [b_ for b_ in (blk, g.body) if b_ is not None]
                def keeps(b_):
                    for x in sir.walk(b_, into_closures=True):
                        if (x.get("k") == "assign" or (x.get("k") == "binary" and x.get("op") == "+=")) and isinstance(x.get("l"), dict) and sir.expr_str(x["l"]).replace(" ", "") == "self.line":
                            return True
                        if x.get("k") == "mcall" and sir.expr_str(x["recv"]) == "self" and x["m"] in line_w and x["m"] != nm:
                            return True
                    return False
                if not keeps(scopes_[0]):
                    lonely.append(nm)
    lonely = sorted(set(lonely))
    obs.append(ob("C16.cursor/discipline/index-with-line", bool(idx_w) and not lonely, "parse/mod.rs",
                  "wherever a method adds to the byte index, the same block keeps the line counter (itself or through a helper that writes it): %s" % sorted(idx_w) if not lonely else "%s move(s) the byte index in a block that never touches the line counter" % lonely,
                  witness=None if not lonely else "{{ a /* two\\nlines */ + }}: the diagnostic is reported on the line where the comment began, past the end of that line"))
    if len(movers) < 3:
        obs.append(ob("C16.floor/cursor-movers", False, "parse/mod.rs", "only %d methods move the cursor (floor 3)" % len(movers)))
    tp = [f for f in tc.fns if f.name == "try_parse" and f.base == "ParseState" and f.body]
    if tp:
        f = tp[0]
        fields = ("cur_index", "line", "utf16_col")
        # the attempt is interpreted abstractly (lib/absint.py): the three fields start as tokens, the closure moves all of them
        # and returns None or Some; afterwards they must be back at the tokens exactly when it returned None
        import absint as ai
        params = [x for x in f.param_names() if x and x != "self"]

        def hooks(it, e, st):
            if e.get("k") == "call" and e["f"].get("k") == "path" and len(e["f"]["segs"]) == 1 and e["f"]["segs"][0] in params:
                moved = st
                for fld in fields:
                    moved = moved.set("$f:" + fld, "moved:" + fld)
                return [(ai.NONE, moved.event(("attempt", "none"))), (("Some", ai.FREE), moved.event(("attempt", "some")))]
            return None
        it = ai.Interp(hooks=hooks, idx=tc)
        it.field_vars = set(fields)
        env = {"self": ai.FREE}
        for fld in fields:
            env["$f:" + fld] = "start:" + fld
        for x in params:
            env[x] = ai.FREE
        try:
            outs = [o for o in it.run(f.body, env) if ("$error-exit",) not in o.events]
        except ai.TooManyPaths:
            outs = []
        verdict, d = True, []
        if not outs or not any(ev[0] == "attempt" for o in outs for ev in o.events):
            verdict = None
            d.append("the attempt is not called in a form this rule reads")
        for o in outs:
            att = [ev[1] for ev in o.events if ev[0] == "attempt"]
            if len(att) != 1:
                continue
            final = {fld: o.st.env.get("$f:" + fld) for fld in fields}
            want = {fld: ("start:" if att[0] == "none" else "moved:") + fld for fld in fields}
            if final != want:
                wrong = sorted(fld for fld in fields if final[fld] != want[fld])
                if o.tainted or any(ai.is_unknown(final[fld]) for fld in wrong):
                    verdict = None if verdict is not False else False
                else:
                    verdict = False
                d.append("attempt returned %s: %s %s" % (att[0], wrong, "not restored" if att[0] == "none" else "overwritten although the attempt succeeded"))
            else:
                d.append("attempt returned %s: %s" % (att[0], "all three fields restored" if att[0] == "none" else "fields keep the new position"))
        obs.append(ob("C16.cursor/try_parse", verdict, ctx.where(f), "; ".join(d),
                      witness=None if verdict is not False else "a failed look-ahead across a line break leaves line/column ahead of the index"))
    pos = [f for f in tc.fns if f.name == "position" and f.base == "ParseState" and f.body]
    if pos:
        flds = {}
        for n in sir.walk(pos[0].body):
            if n.get("k") == "struct":
                flds = {x["name"]: sir.expr_str(x["e"]) for x in n["fields"]}
        obs.append(ob("C16.cursor/position", flds == {"line": "self.line", "utf16_col": "self.utf16_col"}, ctx.where(pos[0]), "position() reports %s" % flds))
    return obs


def map_rule(ctx):
    ob = ctx.ob
    tc = ctx.tc
    obs = []
    w = writers(ctx, "glass_easel_template_compiler", "Stringifier", ("line", "utf16_col", "w"))
    for fld in ("line", "utf16_col"):
        ws = w.get(fld, {})
        foreign = sorted(x for x in ws if not re.search(r"Stringifier(::<[^>]*>)?::(new|write_str)$", x) and not x.endswith("Stringifier::new") and not x.endswith("Stringifier::write_str"))
        obs.append(ob("C16.map/owners/%s" % fld, bool(ws) and not foreign, "stringify/mod.rs", "Stringifier.%s is written by %s" % (fld, sorted(ws)) + ("" if not foreign else " - foreign writers %s" % foreign)))
    ws = [f for f in tc.fns if f.name == "write_str" and f.base == "Stringifier" and f.body]
    if ws:
        obs += column_discipline(ctx, ws[0], "self", "line", "utf16_col", None, "C16.map/discipline")
        wr = [n for n in sir.walk(ws[0].body) if n.get("k") == "mcall" and n["m"] == "write_str" and sir.expr_str(n["recv"]) == "self.w"]
        obs.append(ob("C16.map/write_str-sink", len(wr) == 1, ctx.where(ws[0]), "write_str is the single place that writes to the underlying writer: %d" % len(wr)))
    wt = [f for f in tc.fns if f.name == "write_token" and f.base == "Stringifier" and f.body]
    if wt:
        f = wt[0]
        nodes = list(sir.walk(f.body))
        add = [i for i, n in enumerate(nodes) if n.get("k") == "mcall" and n["m"] == "add" and "smb" in sir.expr_str(n["recv"])]
        wr = [i for i, n in enumerate(nodes) if n.get("k") == "mcall" and n["m"] == "write_str"]
        ok = bool(add) and bool(wr) and add[0] < wr[0]
        args = [sir.expr_str(a).replace(" ", "") for a in nodes[add[0]]["args"]] if add else []
        ok = ok and args[:4] == ["self.line", "self.utf16_col", "location.start.line", "location.start.utf16_col"]
        obs.append(ob("C16.map/write_token", ok, ctx.where(f), "mapping (%s) is registered before the text is written: %s" % (args[:4], ok)))
    # every other writer of text in stringify goes through write_str / write_token (no direct self.w access)
    direct = []
    for f in tc.fns:
        if not f.body or "stringify" not in f.module or f.name in ("write_str", "new", "finish"):
            continue
        for n in sir.walk(f.body):
            if n.get("k") == "field" and n["name"] == "w" and "stringifier" in sir.expr_str(n["base"]).lower() or (n.get("k") == "field" and n["name"] == "w" and sir.expr_str(n["base"]) == "self" and f.base == "Stringifier"):
                direct.append(f.qual)
    obs.append(ob("C16.map/no-direct-writes", not direct, "stringify/*", "no printer function bypasses write_str: %s" % (direct or "none")))
    return obs


def loc_rule(ctx):
    ob = ctx.ob
    tc = ctx.tc
    obs = []
    vp = [g for g in tc.fns if g.base == "Value" and g.name == "parse_until_before" and g.body]
    if vp:
        g = vp[0]
        bad = []
        n_l = 0
        for h in sir.reach(tc, g):
            # in a private helper the position is a parameter: every call from the text parser must hand it `start_pos`
            handed = {}
            if h is not g:
                pn = h.param_names()
                for c_ in sir.walk(g.node, into_items=True):
                    if c_.get("k") in ("call", "mcall") and (sir.call_name(c_) or c_.get("m") or "").split("::")[-1] == h.name:
                        args = ([c_["recv"]] if c_.get("k") == "mcall" and pn and pn[0] == "self" else []) + c_["args"]
                        for pname, a_ in zip(pn, args):
                            handed.setdefault(pname, set()).add(sir.expr_str(sir.strip_ref(a_)).replace(" ", ""))
            for n in sir.walk(h.node, into_items=True):
                if n.get("k") == "struct" and n["segs"][-1] == "LitStr":
                    n_l += 1
                    loc = [sir.expr_str(fl["e"]).replace(" ", "") for fl in n["fields"] if fl["name"] == "location"]
                    if not loc or loc[0] == "location":
                        continue
                    m_ = re.fullmatch(r"(\w+)\.\.(\w+)", loc[0])
                    okl = bool(m_) and m_.group(1) == m_.group(2) and (m_.group(1) == "start_pos" or handed.get(m_.group(1)) == {"start_pos"})
                    if not okl:
                        bad.append(loc[0])
        obs.append(ob("C16.loc/text-after-binding", not bad and n_l >= 2, ctx.where(g), "string pieces of mixed text start at the position taken in front of them (`start_pos`) or keep the static value's own location: %s" % (bad or "ok"),
                      witness=None if not bad else "in `{{w}}rpx` the text `rpx` is located on the `}}`"))
        sp = [n for n in sir.walk(g.body) if n.get("k") == "local" and n["pat"].get("name") == "start_pos" and n.get("init") is not None and sir.expr_str(n["init"]).replace(" ", "") == "ps.position()"]
        obs.append(ob("C16.loc/start_pos", len(sp) >= 2, ctx.where(g), "start positions are taken from ps.position() (%d sites)" % len(sp)))
    cs = [g for g in tc.fns if g.name == "convert_scopes" and g.body]
    if cs:
        from rules.c02 import FnScope
        g = cs[0]
        sc = FnScope(g.node, [])
        ok = False
        d = "ScopeRef construction not found"

        def from_datafield(name, at, depth=0):
            """is `name` (as visible at node `at`) the location bound by the DataField pattern, possibly through clones / tuples?"""
            if depth > 4:
                return False
            r = sc.resolve(name, at)
            if r is None:
                return False
            if r[0] == "match" and "@DataField" in r[2]:
                return True
            src = r[1]
            if r[0] in ("let", "match") and src is not None:
                # `let location = location.clone()` / `if let Some((index, location)) = index` with `index` built by the lookup closure
                for x in sir.walk(src):
                    if x.get("k") == "path" and len(x["segs"]) == 1 and x["segs"][0] not in ("Some", "None") and x["segs"][0] != name or (x.get("k") == "path" and x.get("s") == name and r[0] == "let"):
                        nm = x["segs"][0]
                        if nm == name and r[0] == "let":
                            if from_datafield(nm, r[3], depth + 1):
                                return True
                        elif nm in ("location",) or "loc" in nm:
                            if from_datafield(nm, x, depth + 1):
                                return True
                        else:
                            # follow a local that carries the tuple (`index`)
                            rr = sc.resolve(nm, x)
                            if rr is not None and rr[0] == "let" and rr[1] is not None:
                                for y in sir.walk(rr[1]):
                                    if y.get("k") == "path" and y.get("s") == "location" and from_datafield("location", y, depth + 1):
                                        return True
            return False
        for n in sir.walk(g.body):
            if n.get("k") == "struct" and n["segs"][-1] == "ScopeRef":
                loc = [fl["e"] for fl in n["fields"] if fl["name"] == "location"]
                if loc:
                    e = sir.strip_ref(loc[0])
                    while e.get("k") == "mcall" and e["m"] == "clone":
                        e = sir.strip_ref(e["recv"])
                    if e.get("k") == "path" and len(e["segs"]) == 1:
                        ok = from_datafield(e["segs"][0], e)
                        d = "the location stored in the ScopeRef %s the one bound by the DataField pattern" % ("is" if ok else "is NOT")
        obs.append(ob("C16.loc/scope-ref", ok, ctx.where(g), d, witness=None if ok else "{{item}} inside wx:for is located at the wx:for attribute instead of its own text"))
    return obs


def pair_rule(ctx):
    """printer side: the location handed to an attribute writer belongs to the same parsed item as the value it prints"""
    ob = ctx.ob
    tc = ctx.tc
    obs = []
    n_pairs = 0
    WRITERS = {"write_named_static_attr": (2, 3), "write_named_attr": (2, 3), "write_attr": (1, 2, 3), "write_static_attr": (1, 2, 3)}
    for f in tc.fns:
        if not f.body or "stringify" not in f.module:
            continue
        order = list(sir.walk(f.node, into_items=True))
        from rules.c02 import FnScope
        scope = FnScope(f.node, tc.fns)
        params = set(x for x in f.param_names() if x)

        def roots(e, at, depth=0):
            """binders (as (id, label)) of the plain names used in e, following `let x = <init>` up to two levels"""
            names = set(x["segs"][0] for x in sir.walk(e) if x.get("k") == "path" and len(x["segs"]) == 1 and x["segs"][0] not in ("None", "Some", "stringifier", "self"))
            out = set()
            for nm in names:
                r = scope.resolve(nm, at)
                if r is None:
                    continue
                if r[0] == "param":
                    out.add(("param", nm))
                elif r[0] == "let" and r[3]["pat"].get("k") == "p_ident" and r[1] is not None and depth < 2:
                    sub = roots(r[1], r[3], depth + 1)
                    out |= sub if sub else {(id(r[3]), nm)}
                else:
                    out.add((id(r[3]), "pattern@%d" % sir.line_of(r[3])))
            return out
        for n in order:
            cname = (sir.call_name(n) or "").split("::")[-1] if n.get("k") == "call" else None
            if cname not in WRITERS or len(n["args"]) < 4:
                continue
            args = [n["args"][i] for i in WRITERS[cname]]
            rs = [roots(a, n) for a in args]
            nonempty = [r for r in rs if r]
            if len(nonempty) < 2:
                continue
            allb = set().union(*nonempty)
            if any(b[0] == "param" for b in allb):
                continue  # a forwarding helper: its callers are checked
            n_pairs += 1
            lits = [x.get("v") for x in sir.walk(n["args"][1]) if x.get("k") == "lit" and x.get("t") == "str"]
            names = sorted(set(x["segs"][0] for a in args for x in sir.walk(a) if x.get("k") == "path" and len(x["segs"]) == 1 and x["segs"][0] not in ("None", "Some")))
            label = "%s/%s" % ((lits[0] if lits else "plain"), "+".join(names)[:40])
            common = set.intersection(*nonempty)
            together = False
            # tuple fields: location is `.0`, value is `.1` of the same tuple
            fields_ok = True
            if cname.startswith("write_named"):
                l, v = sir.strip_ref(n["args"][2]), sir.strip_ref(n["args"][3])
                if l.get("k") == "field" and v.get("k") == "field":
                    lb = l.get("e") or l.get("base") or {}
                    vb = v.get("e") or v.get("base") or {}
                    fields_ok = str(l.get("name")) == "0" and str(v.get("name")) == "1" and sir.expr_str(lb) == sir.expr_str(vb)
            ok = (bool(common) or together) and fields_ok
            obs.append(ob("C16.map/pair/%s/%s" % (f.qual.split("::")[-1], label), ok, ctx.where(f),
                          "location, name and value of `%s` (%s) %s" % (lits[0] if lits else sir.expr_str(n["args"][2])[:30], ", ".join(names), "come from one binding (%s)" % sorted(b[1] for b in common)[0] if common else ("are fields of different tuples" if not fields_ok else "come from DIFFERENT bindings: %s" % [sorted(b[1] for b in r) for r in rs])),
                          witness=None if ok else "the source-map token of this attribute points at another attribute"))
    if n_pairs < 15:
        obs.append(ob("C16.floor/pairs", False, "stringify/tag.rs", "only %d attribute writes with a location found (floor 15)" % n_pairs))
    # a name the printer rebuilds (text possibly renamed by add_scope, location copied) keeps the location of the item its text
    # came from: `name` and `location` of the literal are fields of one parsed item
    k = 0
    for f in tc.fns:
        if not f.body or "stringify" not in f.module:
            continue
        for n in sir.walk(f.body):
            if not (n.get("k") == "struct" and set(x["name"] for x in n["fields"]) == {"name", "location"}):
                continue
            fl = {x["name"]: x["e"] for x in n["fields"]}

            def owners(e, fieldname, depth=0):
                out = set()
                for x in sir.walk(e):
                    if x.get("k") == "field" and x["name"] == fieldname:
                        out.add(sir.expr_str(x["base"]).replace(" ", ""))
                if not out and depth < 2:
                    for x in sir.walk(e):
                        if x.get("k") == "path" and len(x["segs"]) == 1:
                            for l in sir.walk(f.body):
                                if l.get("k") == "local" and l["pat"].get("name") == x["segs"][0] and l.get("init") is not None:
                                    out |= owners(l["init"], fieldname, depth + 1)
                return out
            no, lo = owners(fl["name"], "name"), owners(fl["location"], "location")
            if not no or not lo:
                continue
            k += 1
            okp = bool(no & lo)
            obs.append(ob("C16.map/rebuilt-name/%s#%d" % (f.qual.split("::")[-1], k), okp, ctx.where(f), "text from `%s`, location from `%s`" % (sorted(no)[0], sorted(lo)[0]),
                          witness=None if okp else "slot:field=\"alias\": the source-map token named `alias` points at `field`"))
    # the prefix of an attribute (`wx:`, `bind:`, `mark:` ..) is recorded with the location of the prefix: in the table that maps
    # the prefix text to its kind every row takes the location from the same item
    for f in tc.fns:
        if not f.body or f.module[:2] != ["parse", "tag"]:
            continue
        for m_ in sir.walk(f.body):
            if m_.get("k") != "match":
                continue
            rows = []
            for a in m_["arms"]:
                b = a["body"]
                if b.get("k") == "call" and b["f"].get("k") == "path" and len(b["f"]["segs"]) == 2 and b["f"]["segs"][0] == "AttrPrefixKind" and len(b["args"]) == 1:
                    arg = b["args"][0]
                    if arg.get("k") == "mcall" and arg["m"] == "location" and arg["recv"].get("k") == "path":
                        rows.append((b["f"]["segs"][1], sir.expr_str(arg["recv"]), sir.pat_str(a["pat"])))
            if len(rows) < 5:
                continue
            cnt = {}
            for _v, r, _p in rows:
                cnt[r] = cnt.get(r, 0) + 1
            major = max(cnt, key=lambda x: cnt[x])
            dev = [(v, r, p_) for v, r, p_ in rows if r != major]
            kk = len([o_ for o_ in obs if o_["key"].startswith("C16.loc/prefix-table")])
            obs.append(ob("C16.loc/prefix-table#%d" % (kk + 1), not dev, ctx.where(f), "%d rows take the location of `%s`" % (len(rows), major) if not dev else "the row %s takes the location of `%s`, the other %d rows of `%s`" % (dev[0][2], dev[0][1], cnt[major], major),
                          witness=None if not dev else "mark:x=\"..\": the prefix location (and its source-map token) points at `x`"))
    if k < 1:
        obs.append(ob("C16.map/rebuilt-name", None, "stringify/tag.rs", "no rebuilt name found in a form this rule reads: not decided"))
    return obs


def after_skip_rule(ctx):
    """expression parser: a start position is taken after look-ahead has skipped the blanks in front of the token"""
    ob = ctx.ob
    tc = ctx.tc
    obs = []
    REVIEWED = {"parse::expr::Expression::parse_expression_or_object_inner": "implicit object of a whole binding has no token of its own; its location is the binding content as delimited by the look-ahead"}
    n_sites = 0
    for f in tc.fns:
        if not f.body or f.module[:2] != ["parse", "expr"]:
            continue
        # nodes inside closures passed to try_parse (look-ahead that is rolled back) do not count as skipping
        rolled = set()
        for x in sir.walk(f.body):
            if x.get("k") == "mcall" and x["m"] == "try_parse":
                for a in x["args"]:
                    if a.get("k") == "closure":
                        for y in sir.walk(a):
                            rolled.add(id(y))
        order = list(sir.walk(f.body))
        pos_of = {id(x): i for i, x in enumerate(order)}
        for x in order:
            if not (x.get("k") == "local" and x.get("init") is not None and sir.expr_str(x["init"]).replace(" ", "") == "ps.position()" and x["pat"].get("k") == "p_ident"):
                continue
            v = x["pat"]["name"]
            used_as_start = any(y.get("k") == "range" and y.get("from") is not None and sir.expr_str(y["from"]) == v for y in order)
            if not used_as_start or id(x) in rolled:
                continue
            n_sites += 1
            before = [y for y in order[:pos_of[id(x)]] if y.get("k") == "mcall" and sir.expr_str(y["recv"]) == "ps" and y["m"] in ("peek", "peek_n", "peek_str", "peek_chars") and id(y) not in rolled]
            key = "C16.loc/after-skip/%s/%s" % (f.qual, v)
            if not before and not f.node.get("vis"):
                # a private helper: the look-ahead may have been done by every caller before the call
                csites = []
                for g in tc.fns:
                    if not g.body or g is f or g.module[:2] != ["parse", "expr"]:
                        continue
                    gorder = list(sir.walk(g.body))
                    for i, c in enumerate(gorder):
                        if c.get("k") in ("call", "mcall") and sir.call_name(c) == f.name:
                            csites.append(any(y.get("k") == "mcall" and sir.expr_str(y["recv"]) == "ps" and y["m"] in ("peek", "peek_n", "peek_str", "peek_chars", "next") for y in gorder[:i]))
                if csites and all(csites):
                    obs.append(ob(key, True, ctx.where(f), "start position `%s` is taken at the entry of a private helper; each of its %d call sites has looked at the token before the call" % (v, len(csites))))
                    continue
            if not before and f.qual in REVIEWED:
                obs.append(ob(key, True, ctx.where(f), "reviewed exception: " + REVIEWED[f.qual]))
                continue
            obs.append(ob(key, bool(before), ctx.where(f), "start position `%s` is taken %s" % (v, "after `ps.%s` has skipped the blanks in front of the token" % before[-1]["m"] if before else "before any look-ahead: in blank-skipping mode it lies at the blanks (or comment) in front of the token"),
                          witness=None if before else "`{{ obj.\n  field }}`: the member name's location starts at the line break"))
    if n_sites < 4:
        obs.append(ob("C16.floor/start-positions", False, "parse/expr.rs", "only %d start positions found (floor 4)" % n_sites))
    # a token's range starts at a position taken from the cursor in front of the token, not at the end of the item before it
    # (blanks and line breaks may lie between the two)
    n_rng, glued = 0, []
    for f in tc.fns:
        if not f.body or f.module[:1] != ["parse"]:
            continue
        for y in sir.walk(f.body, into_closures=True):
            if y.get("k") == "range" and y.get("from") is not None and y.get("to") is not None and sir.expr_str(y["to"]).replace(" ", "") in ("ps.position()", "self.position()"):
                n_rng += 1
                fr = sir.strip_ref(y["from"])
                while fr.get("k") == "mcall" and fr["m"] == "clone" and not fr["args"]:
                    fr = sir.strip_ref(fr["recv"])
                if fr.get("k") == "field" and fr["name"] == "end" and "location" in sir.expr_str(fr["base"]):
                    glued.append("%s: `%s`" % (f.name, sir.expr_str(y)[:60]))
    obs.append(ob("C16.loc/range-start-sampled", False if glued else True if n_rng >= 10 else None, "parse/*.rs", "; ".join(glued[:2]) if glued else "%d ranges ending at the cursor, none starting at the end of a previous item" % n_rng,
                  witness=None if not glued else "`</view  >`: the range recorded for `>` starts at the blanks behind the name"))
    # the cursor's own token consumers: a method that tests the coming text with a look-ahead (which skips blanks in blank-skipping
    # mode) and returns the range of what it consumed takes the start of that range after the look-ahead
    for f in tc.fns:
        if not f.body or f.base != "ParseState" or "Range<Position>" not in (f.ret or "").replace(" ", ""):
            continue
        order = list(sir.walk(f.body))
        peeks = [i for i, y in enumerate(order) if y.get("k") == "mcall" and sir.expr_str(y["recv"]) == "self" and y["m"] in ("peek", "peek_n", "peek_str", "peek_chars")]
        if not peeks:
            continue
        for i, x in enumerate(order):
            if x.get("k") == "local" and x.get("init") is not None and sir.expr_str(x["init"]).replace(" ", "") == "self.position()" and x["pat"].get("k") == "p_ident":
                v = x["pat"]["name"]
                if not any(y.get("k") == "range" and y.get("from") is not None and sir.expr_str(y["from"]) == v for y in order):
                    continue
                okp = peeks[0] < i
                obs.append(ob("C16.loc/after-skip/%s/%s" % (f.qual, v), okp, ctx.where(f), "the start of the consumed range is taken %s the look-ahead that skips the blanks" % ("after" if okp else "before"),
                              witness=None if okp else "{{ typeof a }}: the operator's location starts at the blank in front of it"))
    return obs


def if_chain_rule(ctx):
    """parser side: a wx:elif / wx:else branch appended to an existing If node extends that node's location to the new branch"""
    ob = ctx.ob
    tc = ctx.tc
    ep = [f for f in tc.fns if f.base == "Element" and f.name == "parse" and f.body]
    if not ep:
        return [ob("C16.loc/if-chain/anchor", False, "parse/tag.rs", "Element::parse not found")]
    f = ep[0]
    pm = sir.parent_map(f.node)
    obs = []
    k = 0
    for n in sir.walk(f.node, into_items=True):
        if not (n.get("k") == "local" and n.get("else") is not None and n.get("init") is not None):
            continue
        if not any(x.get("k") == "p_struct" and x["segs"][-1] == "If" for x in sir.walk(n["pat"])):
            continue
        if "if_index" not in sir.expr_str(n["init"]):
            continue
        k += 1
        what = [b for b, _p in sir.pat_bindings(n["pat"]) if b in ("branches", "else_branch")]
        loc_bind = None
        for x in sir.walk(n["pat"]):
            if x.get("k") == "p_struct":
                for fl in x["fields"]:
                    if fl["name"] == "tag_location" and fl["pat"].get("k") == "p_ident":
                        loc_bind = fl["pat"]["name"]
        blk = pm.get(id(n))
        ok = False
        d = "the If node's tag_location is not even bound"
        if loc_bind and blk is not None and blk.get("k") == "block":
            asg = [x for st in blk["stmts"] for x in ([st.get("e")] if st.get("k") == "expr" else []) if x is not None and x.get("k") == "assign" and sir.expr_str(x["l"]).replace(" ", "") == "%s.end" % loc_bind]
            def mentions_tag_end(e, depth=0):
                if any(x.get("k") == "field" and x.get("name") in ("end", "start") and "tag_location" in sir.expr_str(x["base"]) for x in sir.walk(e)) or "tag_location" in sir.expr_str(e):
                    return True
                if depth < 2:
                    for x in sir.walk(e):
                        if x.get("k") == "path" and len(x["segs"]) == 1:
                            decl = [st_ for st_ in sir.walk(f.node, into_items=True) if st_.get("k") == "local" and st_["pat"].get("name") == x["segs"][0] and st_.get("init") is not None]
                            if decl and mentions_tag_end(decl[-1]["init"], depth + 1):
                                return True
                return False
            ok = len(asg) == 1 and sir.expr_str(asg[0]["r"]).startswith("Some(") and mentions_tag_end(asg[0]["r"])
            d = "`%s.end = Some(<end of the new branch's tag>)` %s" % (loc_bind, "follows the append" if ok else "is missing")
        obs.append(ob("C16.loc/if-chain/%s" % (what[0] if what else "branch#%d" % k), ok, ctx.where(f), "appending to %s: %s" % (what[0] if what else "the If node", d),
                      witness=None if ok else "the If node's location stops before its elif/else branches; child locations lie outside their parent's"))
    if k < 2:
        obs.append(ob("C16.floor/if-chain", False, ctx.where(f), "only %d sites extend an existing If node (floor 2)" % k))
    return obs


def wave7_rules(ctx):
    """obligations added after the seventh wave of seeded changes"""
    from exprmodel import ExprModel
    ob = ctx.ob
    tc = ctx.tc
    obs = []
    # (1) a column reset to zero happens only where a line break is counted
    for f in tc.fns:
        if not f.body or f.base != "ParseState":
            continue
        pm = None
        for n in sir.walk(f.body):
            if n.get("k") == "assign" and sir.expr_str(n["l"]) == "self.utf16_col" and sir.expr_str(n["r"]) == "0":
                pm = pm or sir.parent_map(f.body)
                blk = pm.get(id(n))
                while blk is not None and blk.get("k") != "block":
                    blk = pm.get(id(blk))
                with_line = blk is not None and any(x.get("k") == "binary" and x["op"] == "+=" and sir.expr_str(x["l"]) == "self.line" for st_ in blk["stmts"] for x in sir.walk(st_))
                obs.append(ob("C16.cursor/col-reset/%s" % f.name, with_line, ctx.where(f), "the column is reset to 0 together with a line increment: %s" % with_line,
                              witness=None if with_line else "a lone carriage return in tag whitespace moves every later location on that line to the left"))
    # (2) an expression starts where its first operand starts and ends where its last operand ends
    model = ExprModel(tc)
    for fname, pick in (("location_start", 0), ("location_end", -1)):
        fs = [f for f in tc.fns if f.name == fname and f.base == "Expression" and f.body]
        if len(fs) != 1:
            continue
        f = fs[0]
        ms = [n for n in sir.walk(f.body) if n.get("k") == "match"]
        if not ms:
            continue
        bad, n_ = [], 0
        for a in ms[0]["arms"]:
            for v in sir.pat_variants(a["pat"]):
                if v not in model.binary_variants() and v != "Cond":
                    continue
                kids = [k_[0] for k_ in model.child_fields(v)]
                if len(kids) < 2:
                    continue
                want = kids[pick]
                b = a["body"]
                used = sir.root_expr_name(b["recv"]) if b.get("k") == "mcall" else None
                n_ += 1
                if used != want:
                    bad.append("%s uses `%s` (its %s operand is `%s`)" % (v, used, "first" if pick == 0 else "last", want))
        obs.append(ob("C16.loc/operands/%s" % fname, not bad and n_ >= 20, ctx.where(f), "%d operator variants take their %s from their %s operand" % (n_, "start" if pick == 0 else "end", "first" if pick == 0 else "last") if not bad else "; ".join(bad[:3]),
                      witness=None if not bad else "the location of `a ?? b` ends after `a`; every enclosing expression ending in it inherits the short end"))
    # (3) printer: `<` is mapped to the first location of a tag-location pair, `>` to the second
    bad, n_ = [], 0
    for f in tc.fns:
        if not f.body or "stringify" not in f.module:
            continue
        for n in sir.walk(f.body):
            if n.get("k") == "mcall" and n["m"] == "write_token" and len(n["args"]) == 3 and n["args"][0].get("k") == "lit" and n["args"][0].get("v") in ("<", ">", "(", ")", "[", "]", "{", "}", "{{", "}}"):
                loc = sir.strip_ref(n["args"][2])
                if loc.get("k") == "field" and loc["name"] in ("0", "1"):
                    n_ += 1
                    want = "0" if n["args"][0]["v"] in ("<", "(", "[", "{", "{{") else "1"
                    if loc["name"] != want:
                        bad.append("%s: `%s` is mapped to `%s`" % (f.qual.split("::")[-1], n["args"][0]["v"], sir.expr_str(loc)[-40:]))
    obs.append(ob("C16.map/bracket-halves", not bad and n_ >= 10, "stringify/tag.rs", "%d opening / closing bracket tokens are mapped to the first / second location of their pair" % n_ if not bad else "; ".join(bad[:3]),
                  witness=None if not bad else "the `>` closing `</block>` of a wx:else branch is mapped to the source `<`"))
    # (4) comments lying between a wx:if element and its wx:elif / wx:else sibling stay in front of that branch's children
    ep = [f for f in tc.fns if f.base == "Element" and f.name == "parse" and f.body]
    if ep:
        f = ep[0]
        drains = [n for n in sir.walk(f.node, into_items=True) if n.get("k") == "mcall" and n["m"] == "drain" and "if_index" in sir.expr_str(n)]
        verdict, d = None, "the hand-over of the comments between branches is not in a form this rule reads"
        if drains:
            names = set()
            for l_ in sir.walk(f.node, into_items=True):
                if l_.get("k") == "local" and l_.get("init") is not None and any(x is drains[0] for x in sir.walk(l_["init"])):
                    names |= set(b for b, _ in sir.pat_bindings(l_["pat"]))
            for n in sir.walk(f.node, into_items=True):
                if n.get("k") != "mcall" or not n["args"]:
                    continue
                uses = any((x.get("k") == "path" and len(x["segs"]) == 1 and x["segs"][0] in names) or x is drains[0] for a_ in n["args"] for x in sir.walk(a_))
                if not uses or n is drains[0]:
                    continue
                if n["m"] == "splice" and sir.expr_str(n["args"][0]).replace(" ", "") == "0..0":
                    verdict, d = True, "the comments drained from the parent list are spliced in at the front of the branch's children"
                elif n["m"] in ("extend", "append", "push", "extend_from_slice"):
                    verdict, d = False, "the comments drained from the parent list are appended behind the branch's children (`%s`): nodes are no longer in source order" % n["m"]
        obs.append(ob("C16.loc/if-chain/comments-order", verdict, ctx.where(f), d, witness=None if verdict is not False else "<a wx:if/><!--c--><b wx:else/>: the comment is stored after <b>"))
    # (5) the scope names that label the mappings are balanced per element (shared with C14.scope)
    try:
        from rules.c14 import scope_rules
        for x in scope_rules(ctx):
            if "/balanced/" in x["key"]:
                x = dict(x)
                x["key"] = x["key"].replace("C14.scope", "C16.map/scope")
                obs.append(x)
    except ImportError:
        pass
    return obs


def wave11_rules(ctx):
    """obligations added after the eleventh wave of seeded changes"""
    ob = ctx.ob
    tc = ctx.tc
    obs = []
    # (1) positions refer to the text the caller handed in: `parse` gives its `source` parameter to the cursor as it is
    pf = [f for f in tc.fns if f.name == "parse" and not f.base and f.body and f.module[:1] == ["parse"] and len(f.module) == 1]
    if pf:
        f = pf[0]
        pn = [x for x in f.param_names() if x]
        news = [x for x in sir.walk(f.body) if x.get("k") == "call" and (sir.call_path(x) or "").endswith("ParseState::new")]
        rebound = [l_ for l_ in sir.walk(f.body) if l_.get("k") == "local" and any(b in pn for b, _ in sir.pat_bindings(l_["pat"]))]
        okv = bool(news) and not rebound and all(len(x["args"]) >= 2 and sir.expr_str(sir.strip_ref(x["args"][1])) in pn for x in news)
        obs.append(ob("C16.cursor/source-verbatim", okv if news else None, ctx.where(f),
                      "the cursor is created over the `source` parameter itself" if okv else "the text given to the cursor is not the caller's text (%s)" % ("parameter re-bound" if rebound else "argument is %s" % [sir.expr_str(x["args"][1])[:40] for x in news if len(x["args"]) >= 2]),
                      witness=None if okv else "a template that starts with U+FEFF: every position on the first line is one column short of the caller's text"))
    # (2) a location names a spelling: where the parser rebuilds a name from another item and keeps that item's location, the text is
    #     the item's text minus a fixed affix of the language (`data-`, the file suffix) - never trimmed, split or replaced (ASCII case folding keeps every offset)
    bad, n_ = [], 0
    for f in tc.fns:
        if not f.body or f.module[:1] != ["parse"]:
            continue
        locs = {}
        for n in sir.walk(f.body, into_closures=True):
            if n.get("k") == "local" and n["pat"].get("k") == "p_ident" and n.get("init") is not None:
                locs.setdefault(n["pat"]["name"], []).append(n["init"])
        for n in sir.walk(f.body, into_closures=True):
            if n.get("k") != "struct" or not re.search(r"(StrName|Ident)$", n.get("path", "")):
                continue
            fl = {y["name"]: y["e"] for y in n["fields"]}
            if "name" not in fl or "location" not in fl:
                continue
            n_ += 1
            e = fl["name"]
            if e.get("k") == "path" and len(e["segs"]) == 1 and e["s"] in locs:
                e = locs[e["s"]][-1]
            ms = [x["m"] for x in sir.walk(e) if x.get("k") == "mcall" and re.match(r"(trim\w*|split\w*|rsplit\w*|replace\w*|chars|rev)$", x["m"])]
            copied = re.search(r"\.location(\(\))?$", sir.expr_str(sir.strip_ref(fl["location"])).replace(" ", "").replace(".clone()", ""))
            if ms and copied:
                bad.append("%s: a name rebuilt with `%s` keeps `%s`" % (f.name, ms[0], sir.expr_str(fl["location"])))
    obs.append(ob("C16.loc/name-is-spelling", False if bad else True if n_ >= 5 else None, "parse/tag.rs", "; ".join(bad[:2]) if bad else "%d rebuilt names; none is trimmed, split or replaced under a copied location" % n_,
                  witness=None if not bad else '<wxs module=" utils "/>: the location of the module name starts at the blank'))
    # (2b) the `}}` recorded for the to-string wrapper of a binding is that binding's own: expression and brace locations that were
    #      taken out of one `Value::Dynamic { expression: E, double_brace_location: L, .. }` pattern are handed over together
    vp_ = [f for f in tc.fns if f.name == "parse_until_before" and f.base == "Value" and f.body]
    if vp_:
        f = vp_[0]
        pairs = {}
        for n in sir.walk(f.body, into_closures=True):
            for pnode in sir.walk(n.get("pat") or {}) if n.get("k") in ("arm", "local", "let") else []:
                if pnode.get("k") == "p_struct":
                    fl = {y["name"]: y["pat"] for y in pnode["fields"]}
                    if "expression" in fl and "double_brace_location" in fl and fl["expression"].get("k") == "p_ident" and fl["double_brace_location"].get("k") == "p_ident":
                        pairs[fl["expression"]["name"]] = fl["double_brace_location"]["name"]
        mixed, n_w = [], 0
        for x in sir.walk(f.body, into_closures=True):
            if x.get("k") == "call" and sir.call_name(x) == "wrap_to_string" and len(x["args"]) == 2:
                e_, l_ = sir.root_expr_name(x["args"][0]), sir.root_expr_name(x["args"][1])
                if e_ in pairs:
                    n_w += 1
                    if l_ != pairs[e_]:
                        mixed.append("`%s` is wrapped with the braces of `%s` (its own are `%s`)" % (e_, l_, pairs[e_]))
        obs.append(ob("C16.loc/wrapper-own-braces", False if mixed else True if n_w >= 2 else None, ctx.where(f),
                      "; ".join(mixed[:2]) if mixed else "%d to-string wrappers, each located at the `}}` of the binding it wraps" % n_w,
                      witness=None if not mixed else "`{{ a }}{{ b }}`: both wrappers point at the second `}}`"))
    # (3) no location is pieced together from the end of one item and the end of another: a start is a sampled position or the start
    #     of an item (what lies between two items - blanks, comments, line breaks - belongs to neither)
    glued = []
    for f in tc.fns:
        if not f.body or f.module[:1] != ["parse"]:
            continue
        for n in sir.walk(f.body, into_closures=True):
            if n.get("k") == "range" and n.get("from") is not None and n.get("to") is not None:
                a_, b_ = sir.expr_str(n["from"]).replace(" ", ""), sir.expr_str(n["to"]).replace(" ", "")
                if re.search(r"\.end$", a_) and re.search(r"\.(end|start)$", b_) and a_.rsplit(".", 1)[0] != b_.rsplit(".", 1)[0] and "location" in a_ + b_:
                    glued.append("%s: `%s..%s`" % (f.name, a_, b_))
    obs.append(ob("C16.loc/no-glued-ranges", not glued, "parse/expr.rs", "; ".join(glued[:2]) if glued else "no location range starts at the end of another item",
                  witness=None if not glued else "`a .\n  b`: the location of the member name starts right after the dot, on the previous line"))
    return obs


def run(ctx):
    obs = cursor_rule(ctx)
    obs += map_rule(ctx)
    obs += loc_rule(ctx)
    obs += pair_rule(ctx)
    obs += after_skip_rule(ctx)
    obs += if_chain_rule(ctx)
    obs += wave7_rules(ctx)
    obs += wave11_rules(ctx)
    return obs
