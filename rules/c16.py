"""C16 - recorded source positions point at the text they describe (cursor-discipline half)."""
import re
import sir

RULE = ("C16.cursor: ParseState.{cur_index,line,utf16_col} are written only by the cursor methods (MIR field-writer query); in each of "
        "them a line increment is followed by a column reset, a column increment takes its amount from encode_utf16 (never a byte length "
        "or chars().count()), every cursor move also moves the column, and try_parse restores all three fields together. C16.map: "
        "Stringifier.{line,utf16_col} are written only by write_str with the same discipline; write_token registers (generated "
        "line/column, source line/column) before writing. C16.loc: locations the parser synthesises for mixed text start at the position "
        "taken in front of the text; a ScopeRef keeps the location of the identifier it replaces (not of the declaration it resolves to).")
EXPLANATION = ("Who may move the cursors and how each move keeps line / UTF-16 column in step are decided from MIR field writes and the "
               "syntax of the owner methods; exact spans of concrete nodes are not computed.")
ASSUMPTIONS = ["str::encode_utf16 / char::encode_utf16 count UTF-16 code units", "nesting and order of node locations are value-level and not decided"]


def writers(ctx, crate, adt_suffix, fields):
    out = {f: {} for f in fields}
    for b in ctx.mir.bodies:
        if b["crate"] != crate:
            continue
        for w in b["writes"]:
            if w["field"] in fields and w["adt"].endswith(adt_suffix):
                out[w["field"]].setdefault(b["root"], []).append(w["how"])
    return out


def column_discipline(ctx, f, obj, line_f, col_f, idx_f, prefix):
    """checks on one owner method: `obj.line += ..` => later `obj.col = ..`; `obj.col += X` => X from encode_utf16"""
    ob = ctx.ob
    obs = []
    where = ctx.where(f)
    pm = sir.parent_map(f.body)
    nodes = list(sir.walk(f.body))

    def is_field(e, name):
        return e.get("k") == "field" and e["name"] == name and sir.expr_str(e["base"]) == obj
    line_incs = [n for n in nodes if n.get("k") == "binary" and n["op"] == "+=" and is_field(n["l"], line_f)]
    col_incs = [n for n in nodes if n.get("k") == "binary" and n["op"] == "+=" and is_field(n["l"], col_f)]
    col_sets = [n for n in nodes if n.get("k") == "assign" and is_field(n["l"], col_f)]
    idx_moves = [n for n in nodes if (n.get("k") == "binary" and n["op"] == "+=" and is_field(n["l"], idx_f)) or (n.get("k") == "assign" and is_field(n["l"], idx_f))] if idx_f else []
    problems = []
    for n in col_incs:
        r = sir.expr_str(n["r"]).replace(" ", "")
        if "encode_utf16" not in r:
            problems.append("column advanced by `%s`: not a UTF-16 length" % r[:60])
    for n in col_sets:
        r = sir.expr_str(n["r"]).replace(" ", "")
        if r not in ("0", "prev_utf16_col") and "encode_utf16" not in r and not r.startswith("position_offset"):
            problems.append("column set to `%s`: not a UTF-16 length" % r[:60])
    # a line increment must be accompanied by a column reset: either in the same branch (`if c == '\n' {line += 1; col = 0}`)
    # or, when the increment is unconditional (`line += count`), in a branch taken whenever count > 0
    for n in line_incs:
        blk = pm.get(id(n))
        while blk is not None and blk.get("k") != "block":
            blk = pm.get(id(blk))
        same = blk is not None and any(x in col_sets for st in blk["stmts"] for x in sir.walk(st))
        amount = sir.expr_str(n["r"]).replace(" ", "")
        guarded = False
        if not same and blk is not None:
            cnt = re.sub(r"asu32$", "", amount).strip("()")
            for st in blk["stmts"]:
                e = st.get("e") if st.get("k") == "expr" else None
                if e is not None and e.get("k") == "if" and sir.expr_str(e["cond"]).replace(" ", "") == "%s>0" % cnt:
                    if any(x in col_sets for x in sir.walk(e["then"])) and e.get("else") is not None and any(x in col_incs for x in sir.walk(e["else"])):
                        guarded = True
        if not (same or guarded):
            problems.append("line advanced by `%s` without resetting the column on that path" % amount)
    if idx_f:
        if idx_moves and not (col_incs or col_sets):
            problems.append("cursor index moves but the column never does")
    obs.append(ob("%s/%s" % (prefix, f.qual), not problems, where,
                  "; ".join(problems) if problems else "%d line increments each with a column reset, %d column increments all from encode_utf16, %d column assignments" % (len(line_incs), len(col_incs), len(col_sets)),
                  witness=None if not problems else "an astral character (or a line break consumed by this method) shifts every later location on the line"))
    return obs


def cursor_rule(ctx):
    ob = ctx.ob
    tc = ctx.tc
    obs = []
    w = writers(ctx, "glass_easel_template_compiler", "ParseState", ("cur_index", "line", "utf16_col"))
    allowed = {"parse::ParseState::new", "parse::ParseState::try_parse", "parse::ParseState::skip_bytes", "parse::ParseState::next", "parse::ParseState::skip_whitespace"}
    for fld, ws in w.items():
        foreign = sorted(x for x in ws if x not in allowed)
        obs.append(ob("C16.cursor/owners/%s" % fld, bool(ws) and not foreign, "parse/mod.rs", "ParseState.%s is written by %s" % (fld, sorted(ws)) + ("" if not foreign else " - foreign writers %s" % foreign)))
    for name in ("skip_bytes", "next", "skip_whitespace"):
        fs = [f for f in tc.fns if f.name == name and f.base == "ParseState" and f.body]
        if len(fs) != 1:
            obs.append(ob("C16.cursor/discipline/%s" % name, False, "parse/mod.rs", "ParseState::%s not found" % name))
            continue
        obs += column_discipline(ctx, fs[0], "self", "line", "utf16_col", "cur_index", "C16.cursor/discipline")
    tp = [f for f in tc.fns if f.name == "try_parse" and f.base == "ParseState" and f.body]
    if tp:
        f = tp[0]
        saved = {}
        for n in sir.walk(f.body):
            if n.get("k") == "local" and n.get("init") is not None and n["init"].get("k") == "field" and sir.expr_str(n["init"]["base"]) == "self":
                saved[n["init"]["name"]] = n["pat"].get("name")
        restored = {}
        for n in sir.walk(f.body):
            if n.get("k") == "assign" and n["l"].get("k") == "field" and sir.expr_str(n["l"]["base"]) == "self":
                restored[n["l"]["name"]] = sir.expr_str(n["r"])
        ok = all(saved.get(x) and restored.get(x) == saved.get(x) for x in ("cur_index", "line", "utf16_col"))
        cond = [sir.expr_str(n["cond"]).replace(" ", "") for n in sir.walk(f.body) if n.get("k") == "if"]
        ok = ok and cond == ["ret.is_none()"]
        obs.append(ob("C16.cursor/try_parse", ok, ctx.where(f), "saved %s, restored %s under %s" % (saved, restored, cond),
                      witness=None if ok else "a failed look-ahead across a line break leaves line/column ahead of the index"))
    pos = [f for f in tc.fns if f.name == "position" and f.base == "ParseState" and f.body]
    if pos:
        flds = {}
        for n in sir.walk(pos[0].body):
            if n.get("k") == "struct":
                flds = {x["name"]: sir.expr_str(x["e"]) for x in n["fields"]}
        obs.append(ob("C16.cursor/position", flds == {"line": "self.line", "utf16_col": "self.utf16_col"}, ctx.where(pos[0]), "position() reports %s" % flds))
    return obs


def map_rule(ctx):
    ob = ctx.ob
    tc = ctx.tc
    obs = []
    w = writers(ctx, "glass_easel_template_compiler", "Stringifier", ("line", "utf16_col", "w"))
    for fld in ("line", "utf16_col"):
        ws = w.get(fld, {})
        foreign = sorted(x for x in ws if not re.search(r"Stringifier(::<[^>]*>)?::(new|write_str)$", x) and not x.endswith("Stringifier::new") and not x.endswith("Stringifier::write_str"))
        obs.append(ob("C16.map/owners/%s" % fld, bool(ws) and not foreign, "stringify/mod.rs", "Stringifier.%s is written by %s" % (fld, sorted(ws)) + ("" if not foreign else " - foreign writers %s" % foreign)))
    ws = [f for f in tc.fns if f.name == "write_str" and f.base == "Stringifier" and f.body]
    if ws:
        obs += column_discipline(ctx, ws[0], "self", "line", "utf16_col", None, "C16.map/discipline")
        wr = [n for n in sir.walk(ws[0].body) if n.get("k") == "mcall" and n["m"] == "write_str" and sir.expr_str(n["recv"]) == "self.w"]
        obs.append(ob("C16.map/write_str-sink", len(wr) == 1, ctx.where(ws[0]), "write_str is the single place that writes to the underlying writer: %d" % len(wr)))
    wt = [f for f in tc.fns if f.name == "write_token" and f.base == "Stringifier" and f.body]
    if wt:
        f = wt[0]
        nodes = list(sir.walk(f.body))
        add = [i for i, n in enumerate(nodes) if n.get("k") == "mcall" and n["m"] == "add" and "smb" in sir.expr_str(n["recv"])]
        wr = [i for i, n in enumerate(nodes) if n.get("k") == "mcall" and n["m"] == "write_str"]
        ok = bool(add) and bool(wr) and add[0] < wr[0]
        args = [sir.expr_str(a).replace(" ", "") for a in nodes[add[0]]["args"]] if add else []
        ok = ok and args[:4] == ["self.line", "self.utf16_col", "location.start.line", "location.start.utf16_col"]
        obs.append(ob("C16.map/write_token", ok, ctx.where(f), "mapping (%s) is registered before the text is written: %s" % (args[:4], ok)))
    # every other writer of text in stringify goes through write_str / write_token (no direct self.w access)
    direct = []
    for f in tc.fns:
        if not f.body or "stringify" not in f.module or f.name in ("write_str", "new", "finish"):
            continue
        for n in sir.walk(f.body):
            if n.get("k") == "field" and n["name"] == "w" and "stringifier" in sir.expr_str(n["base"]).lower() or (n.get("k") == "field" and n["name"] == "w" and sir.expr_str(n["base"]) == "self" and f.base == "Stringifier"):
                direct.append(f.qual)
    obs.append(ob("C16.map/no-direct-writes", not direct, "stringify/*", "no printer function bypasses write_str: %s" % (direct or "none")))
    return obs


def loc_rule(ctx):
    ob = ctx.ob
    tc = ctx.tc
    obs = []
    vp = [g for g in tc.fns if g.base == "Value" and g.name == "parse_until_before" and g.body]
    if vp:
        g = vp[0]
        bad = []
        n_l = 0
        for n in sir.walk(g.node, into_items=True):
            if n.get("k") == "struct" and n["segs"][-1] == "LitStr":
                n_l += 1
                loc = [sir.expr_str(fl["e"]).replace(" ", "") for fl in n["fields"] if fl["name"] == "location"]
                if loc and loc[0] not in ("location", "start_pos..start_pos"):
                    bad.append(loc[0])
        obs.append(ob("C16.loc/text-after-binding", not bad and n_l >= 2, ctx.where(g), "string pieces of mixed text start at the position taken in front of them (`start_pos`) or keep the static value's own location: %s" % (bad or "ok"),
                      witness=None if not bad else "in `{{w}}rpx` the text `rpx` is located on the `}}`"))
        sp = [n for n in sir.walk(g.body) if n.get("k") == "local" and n["pat"].get("name") == "start_pos" and n.get("init") is not None and sir.expr_str(n["init"]).replace(" ", "") == "ps.position()"]
        obs.append(ob("C16.loc/start_pos", len(sp) >= 2, ctx.where(g), "start positions are taken from ps.position() (%d sites)" % len(sp)))
    cs = [g for g in tc.fns if g.name == "convert_scopes" and g.body]
    if cs:
        from rules.c02 import FnScope
        g = cs[0]
        sc = FnScope(g.node, [])
        ok = False
        d = "ScopeRef construction not found"
        # the tuple passed on by the lookup closure: (index, location.clone())
        for n in sir.walk(g.body):
            if n.get("k") == "mcall" and n["m"] == "then_some" and n["args"] and n["args"][0].get("k") == "tuple":
                for x in sir.walk(n["args"][0]):
                    if x.get("k") == "path" and x["s"] == "location":
                        r = sc.resolve("location", x)
                        ok = r is not None and r[0] == "match" and "@DataField" in r[2]
                        d = "the location carried into the ScopeRef is bound by %s" % ("the DataField pattern" if ok else ("%s %s" % (r[0], r[2]) if r else "nothing"))
        obs.append(ob("C16.loc/scope-ref", ok, ctx.where(g), d, witness=None if ok else "{{item}} inside wx:for is located at the wx:for attribute instead of its own text"))
    return obs


def run(ctx):
    obs = cursor_rule(ctx)
    obs += map_rule(ctx)
    obs += loc_rule(ctx)
    return obs
