"""C12 - static strings reach the runtime character for character."""
import json, re
import os
import sir

RULE = ("C12.escaper: the string-literal emitter is a repo-owned table (no delegation to <str as Debug>::fmt, resolved in MIR); its "
        "match over `char` is evaluated as a range partition of all Unicode scalar values: every arm's output must decode under "
        "the ECMA-262 escape grammar to exactly the matched character, independently of the character that follows (no bare \\0, no "
        "variable-width hex), the pass-through class excludes the quote, backslash, CR, LF, U+2028/2029, and every escape form used "
        "is one the WXML expression parser accepts. C12.unescape: the escape table of the expression string-literal parser equals "
        "the ECMA single-character escapes, \\x/\\u widths are 2/4 hex digits, hex digit values are right. C12.entity: numeric "
        "character references use radix 16 for `&#x` and 10 for `&#`, with slice offsets equal to the prefix lengths. "
        "C12.sinks: every constant pasted into generated code goes through that emitter (shared with C02.holes).")
EXPLANATION = ("The escape/unescape tables are read from the source and checked exhaustively over ranges of code points (0..0x10FFFF) "
               "against the ECMA string-literal grammar; no string is ever compiled or executed.")
ASSUMPTIONS = ["ECMA-262 12.9.4 string literal grammar as transcribed in the rule", "the `entities` crate's named-entity table is right",
               "char::to_digit / char::from_u32 / format width specifiers behave as documented"]

ECMA_SINGLE = {"b": 8, "f": 0xC, "n": 0xA, "r": 0xD, "t": 9, "v": 0xB, "'": 0x27, '"': 0x22, "\\": 0x5C}
WXML_SINGLE = {"r": 0xD, "n": 0xA, "t": 9, "b": 8, "f": 0xC, "v": 0xB, "0": 0}


def pat_ranges(p):
    """char pattern -> list of (lo, hi) code point ranges, or None for catch-all; raises on unknown."""
    k = p.get("k")
    if k == "p_lit" and p["e"].get("t") == "char":
        c = p["e"]["cp"]
        return [(c, c)]
    if k == "p_range":
        lo = p["lo"]["cp"] if p.get("lo") else 0
        hi = p["hi"]["cp"] if p.get("hi") else 0x10FFFF
        if not p.get("incl"):
            hi -= 1
        return [(lo, hi)]
    if k == "p_or":
        out = []
        for c in p["cases"]:
            r = pat_ranges(c)
            if r is None:
                return None
            out.extend(r)
        return out
    if k in ("p_wild",) or (k == "p_ident" and not p.get("sub")):
        return None
    raise ValueError("unsupported char pattern %s" % sir.pat_str(p))


def arm_action(body, cvar):
    """-> ('lit', text) | ('pass',) | ('fmt', format string) | ('unknown', str)"""
    nodes = [n for n in sir.walk(body)]
    acts = []
    for n in nodes:
        if n.get("k") == "mcall" and n["m"] == "push_str" and n["args"]:
            a = sir.strip_ref(n["args"][0])
            if a.get("k") == "lit" and a.get("t") == "str":
                acts.append(("lit", a["v"]))
                continue
            pieces = sir.format_call(a)
            if pieces:
                acts.append(("fmt", pieces))
                continue
            acts.append(("unknown", sir.expr_str(a)))
        elif n.get("k") == "mcall" and n["m"] == "push" and n["args"]:
            a = sir.strip_ref(n["args"][0])
            if a.get("k") == "path":
                acts.append(("pass", a["s"]))
            elif a.get("k") == "lit" and a.get("t") == "char":
                acts.append(("lit", a["v"]))
            else:
                acts.append(("unknown", sir.expr_str(a)))
        else:
            wf = sir.write_fmt_call(n)
            if wf:
                acts.append(("fmt", wf[1]))
    return acts


def decode_js_escape(text):
    """Decode one JS string-literal fragment consisting of exactly one escape or one raw char.
    Returns (code point, follower_independent: bool) or None."""
    if len(text) == 1 and text not in "\\\"\n\r":
        return ord(text), True
    if not text.startswith("\\"):
        return None
    body = text[1:]
    if body in ECMA_SINGLE:
        return ECMA_SINGLE[body], True
    if body == "0":
        return 0, False  # \0 followed by a digit is a legacy octal escape
    m = re.fullmatch(r"x([0-9a-fA-F]{2})", body)
    if m:
        return int(m.group(1), 16), True
    m = re.fullmatch(r"u([0-9a-fA-F]{4})", body)
    if m:
        return int(m.group(1), 16), True
    m = re.fullmatch(r"u\{([0-9a-fA-F]+)\}", body)
    if m:
        return int(m.group(1), 16), True
    return None


def wxml_accepts(text):
    """Does parse_lit_str read this escape back as the same character?  (table read by C12.unescape)"""
    if not text.startswith("\\"):
        return True
    b = text[1:]
    if b[0] in WXML_SINGLE:
        return len(b) == 1
    if b[0] == "x":
        return re.fullmatch(r"x[0-9a-fA-F]{2}", b) is not None
    if b[0] == "u":
        return re.fullmatch(r"u[0-9a-fA-F]{4}", b) is not None
    return len(b) == 1  # `\<any>` = <any>


def find_escaper(idx):
    """The function every generated string constant goes through: by role = the most-called free function of module
    `escape` returning String that takes &str and writes a double quote."""
    c = [f for f in idx.fns if f.name == "gen_lit_str" and f.body]
    return c[0] if len(c) == 1 else None


def check_escaper(ctx, f, mir, crate, prefix):
    ob = ctx.ob
    obs = []
    where = ctx.where(f)
    # (1) no delegation to Debug
    bodies = mir.bodies_of_root(crate, f.qual)
    dbg = [c for b in bodies for c in b["calls"] if re.search(r"new_debug::<&?(str|std::string::String|&str)>|<str as std::fmt::Debug>::fmt|escape_debug|escape_default", c["generic"])]
    obs.append(ob(prefix + "/own-table", not dbg and bool(bodies), where,
                  "string-literal emitter delegates to Rust's Debug/escape_* (%s): `\\0` before a digit is a legacy octal escape, `\\u{..}` is not read back by the WXML parser" % dbg[0]["generic"] if dbg else "no delegation to Debug/escape_debug/escape_default in %d MIR bodies" % len(bodies),
                  witness="&#0;1 / '\\x001' emit \"\\01\"" if dbg else None))
    if dbg:
        return obs, None
    # (2) table
    ms = [n for n in sir.walk(f.body) if n.get("k") == "match"]
    tbl = None
    for m in ms:
        try:
            rows = []
            ok = True
            for a in m["arms"]:
                if a.get("guard") is not None:
                    ok = False
                    break
                rows.append((pat_ranges(a["pat"]), a))
            if ok and any(r[0] is None for r in rows) and len(rows) >= 3:
                tbl = (m, rows)
        except (ValueError, KeyError, TypeError):
            continue
    if tbl is None:
        # not one table: decide the same facts per character class (see escaper_by_classes)
        o2, forms2 = escaper_by_classes(ctx, f, prefix)
        return obs + o2, forms2
    m, rows = tbl
    cvar = sir.expr_str(m["e"])
    if any(len(arm_action(arm["body"], cvar)) != 1 for _rs, arm in rows):
        # a match over the character that does not write by itself (it selects something written later): per-class analysis
        o2, forms2 = escaper_by_classes(ctx, f, prefix)
        return obs + o2, forms2
    # quotes written around
    quotes = [n for n in sir.walk(f.body) if n.get("k") == "mcall" and n["m"] == "push" and n["args"] and n["args"][0].get("k") == "lit" and n["args"][0].get("v") == '"']
    in_match = [id(x) for x in sir.walk(m)]
    outer_quotes = [q for q in quotes if id(q) not in in_match]
    obs.append(ob(prefix + "/quotes", len(outer_quotes) == 2, where, "opening and closing double quote written outside the per-character table: %d" % len(outer_quotes)))
    # partition
    covered = []  # list of (lo, hi) already matched by earlier arms
    forms = set()

    def subtract(rs, cov):
        out = []
        for lo, hi in rs:
            segs = [(lo, hi)]
            for clo, chi in cov:
                nsegs = []
                for a, b in segs:
                    if chi < a or clo > b:
                        nsegs.append((a, b))
                    else:
                        if a < clo:
                            nsegs.append((a, clo - 1))
                        if chi < b:
                            nsegs.append((chi + 1, b))
                segs = nsegs
            out.extend(segs)
        return out
    ALL = [(0, 0xD7FF), (0xE000, 0x10FFFF)]
    total_points = 0
    for rs, arm in rows:
        eff = subtract(rs if rs is not None else ALL, covered)
        eff = [r for r in subtract(eff, [(0xD800, 0xDFFF)])]
        covered.extend(rs if rs is not None else ALL)
        acts = arm_action(arm["body"], cvar)
        name = sir.pat_str(arm["pat"])[:40]
        npts = sum(b - a + 1 for a, b in eff)
        total_points += npts
        key = "%s/arm/%s" % (prefix, "+".join("%x-%x" % r for r in (rs or [(0, 0x10FFFF)]))[:60])
        if len(acts) != 1:
            obs.append(ob(key, False, where, "arm `%s` performs %d output actions (%s): cannot be verified" % (name, len(acts), acts)))
            continue
        act = acts[0]
        problems = []
        if act[0] == "lit":
            if npts != 1:
                problems.append("a fixed escape %r is emitted for %d different characters" % (act[1], npts))
            else:
                cp = eff[0][0]
                d = decode_js_escape(act[1])
                if d is None:
                    problems.append("%r is not a valid JS escape" % act[1])
                else:
                    if d[0] != cp:
                        problems.append("%r decodes to U+%04X, arm matches U+%04X" % (act[1], d[0], cp))
                    if not d[1]:
                        problems.append("%r changes meaning when a digit follows (legacy octal)" % act[1])
                if not wxml_accepts(act[1]):
                    problems.append("%r is not read back by the WXML string parser" % act[1])
                forms.add(act[1][:2])
        elif act[0] == "pass":
            bad = [c for c in (0x22, 0x5C, 0xA, 0xD, 0x2028, 0x2029) if any(a <= c <= b for a, b in eff)]
            if bad:
                problems.append("characters %s pass through unescaped" % ["U+%04X" % c for c in bad])
            ctrl = [r for r in eff if r[0] < 0x20]
            if ctrl:
                problems.append("C0 controls %s pass through raw" % ctrl)
        elif act[0] == "fmt":
            pieces = act[1]
            lits = "".join(p[1] for p in pieces if p[0] == "lit")
            holes = [p for p in pieces if p[0] == "hole"]
            if len(holes) != 1:
                problems.append("format with %d holes" % len(holes))
            else:
                spec = holes[0][2]
                arg = sir.expr_str(holes[0][1]).replace(" ", "")
                if not re.fullmatch(r"\(?%s\)?asu32" % re.escape(cvar), arg.replace("(", "").replace(")", "")) and arg.replace("(", "").replace(")", "") != cvar + "asu32":
                    problems.append("hole argument is `%s`, expected the code point of the matched character" % arg)
                mx = max(b for a, b in eff) if eff else 0
                if lits == "\\u" and spec in ("04x", "04X"):
                    if mx > 0xFFFF:
                        problems.append("\\uXXXX used for code points up to U+%X" % mx)
                    forms.add("\\u")
                elif lits == "\\x" and spec in ("02x", "02X"):
                    if mx > 0xFF:
                        problems.append("\\xXX used for code points up to U+%X" % mx)
                    forms.add("\\x")
                elif lits.replace(" ", "") == "\\u{}" and spec in ("x", "X"):
                    problems.append("\\u{..} is not read back by the WXML string parser")
                else:
                    problems.append("escape format %r with spec %r is not a fixed-width \\xHH / \\uHHHH form" % (lits, spec))
        else:
            problems.append("unrecognised output action %r" % (act,))
        obs.append(ob(key, not problems, where, "; ".join(problems) if problems else "arm `%s` (%d code points) -> %s: decodes to itself" % (name, npts, act[0] if act[0] != "lit" else repr(act[1])),
                      sample={"ranges": eff[:4], "action": act[0]}))
    want = 0x110000 - 0x800
    obs.append(ob(prefix + "/partition", total_points == want, where, "arms partition %d of %d Unicode scalar values" % (total_points, want)))
    return obs, forms


def escaper_by_classes(ctx, f, prefix):
    """The emitter looks at each character only through comparisons with character constants (literal and range patterns,
    `==`, helper predicates made of those).  All characters between two neighbouring constants therefore take the same path:
    the per-character body is interpreted abstractly (lib/absint.py) for both ends of every such class, and what it writes
    must be that character or an escape that decodes to it.  Any construct outside that fragment taints the path -> undecided."""
    import absint as ai
    ob = ctx.ob
    where = ctx.where(f)
    obs = []
    idx = ctx.tc if f in ctx.tc.fns else None
    helpers = {}
    if idx is not None:
        for g in sir.reach(idx, f):
            if g is not f and g.body:
                helpers[g.name] = g
    import guards as gdm
    its = gdm.derived_names(f.body, ".chars()")
    loops = []
    for n in sir.walk(f.body):
        if n.get("k") == "for" and (any(x.get("k") == "mcall" and x["m"] == "chars" for x in sir.walk(n["e"])) or sir.root_expr_name(n["e"]) in its):
            loops.append(n)
        elif n.get("k") == "while" and n["cond"].get("k") == "let" and n["cond"]["e"].get("k") == "mcall" and n["cond"]["e"]["m"] == "next" and sir.root_expr_name(n["cond"]["e"]["recv"]) in its:
            loops.append(n)
    if len(loops) != 1:
        return [ob(prefix + "/table", None, where, "the emitter is neither one table over `char` nor one loop over `chars()`: the escape table is not decided for this tree")], None
    lp = loops[0]
    FOLLOWERS = [None, "0", "1", "7", "8", "9", "a", "/", ":", '"']
    classes = ai.char_classes([f.body] + [g.body for g in helpers.values()], extra=[c_ for must in (0x22, 0x5C, 0xA, 0xD, 0x2028, 0x2029) for c_ in (must, must + 1)])
    state = {"rep": None}

    def hooks(it_, e, st):
        # a hand-driven iterator: `it.next()` yields the character under analysis once, `it.peek()` any follower
        if e.get("k") == "mcall" and not e["args"] and e["recv"].get("k") == "path" and sir.root_expr_name(e["recv"]) in its:
            if e["m"] == "next":
                if st.env.get("$taken"):
                    return [(ai.NONE, st)]
                return [(("Some", state["rep"]), st.set("$taken", True).event(("for-enter",)))]
            if e["m"] == "peek":
                return [((ai.NONE if fo is None else ("Some", fo)), st.event(("follower", fo))) for fo in FOLLOWERS]
        return None
    it = ai.Interp(hooks=hooks, idx=idx, inline=helpers)
    it.max_paths = 2000
    forms = set()
    undecided = []
    for lo, hi in classes:
        problems = []
        texts = set()
        for cp in sorted({lo, hi}):
            it.paths = 0
            it.for_value = chr(cp)
            state["rep"] = chr(cp)
            env = {n_: ai.FREE for n_ in f.param_names() if n_}
            try:
                outs = it.run({"k": "block", "stmts": [{"k": "expr", "e": lp, "semi": True}]}, env)
            except ai.TooManyPaths:
                outs = None
            ent = [o for o in (outs or []) if ("for-enter",) in o.events]
            if not ent or any(o.tainted for o in ent):
                undecided.append((lo, hi))
                break
            seen_pairs = set()
            for o in ent:
                after = o.events[o.events.index(("for-enter",)):]
                text = "".join(ev[1] for ev in after if ev[0] == "write")
                foll = [ev[1] for ev in after if ev[0] == "follower"]
                key_ = (text, foll[0] if foll else "?")
                if key_ in seen_pairs:
                    continue
                seen_pairs.add(key_)
                texts.add(text if text != chr(cp) else "<itself>")
                if text == chr(cp):
                    if cp in (0x22, 0x5C, 0xA, 0xD, 0x2028, 0x2029):
                        problems.append("U+%04X passes through unescaped" % cp)
                    elif cp < 0x20:
                        problems.append("C0 control U+%04X passes through raw" % cp)
                    continue
                d = decode_js_escape(text)
                if d is None:
                    problems.append("U+%04X is written as %r, which is not one valid JS escape" % (cp, text))
                    continue
                if d[0] != cp:
                    problems.append("U+%04X is written as %r, which decodes to U+%04X" % (cp, text, d[0]))
                if not d[1] and (not foll or (foll[0] is not None and foll[0].isdigit())):
                    problems.append("%r is written %s: a legacy octal escape" % (text, "whatever follows" if not foll else "although the digit %r follows" % foll[0]))
                if not wxml_accepts(text):
                    problems.append("%r is not read back by the WXML string parser" % text)
                forms.add(text[:2])
        else:
            problems = sorted(set(problems))
            obs.append(ob("%s/class/%x-%x" % (prefix, lo, hi), not problems, where, "; ".join(problems) if problems else "U+%04X..U+%04X -> %s: decodes to itself" % (lo, hi, sorted(texts)),
                          witness=None if not problems else "a constant containing that character (and follower) reaches the generated script as a different string"))
    if undecided:
        obs.append(ob(prefix + "/table", None, where, "character classes %s are decided by a construct outside the interpreted fragment: not decided for this tree" % ["%x-%x" % c for c in undecided[:4]]))
    quotes = [n for n in sir.walk(f.body) if n.get("k") == "mcall" and n["m"] == "push" and n["args"] and n["args"][0].get("k") == "lit" and n["args"][0].get("v") == '"']
    inl = set(id(x) for x in sir.walk(lp))
    outer = [q for q in quotes if id(q) not in inl]
    obs.append(ob(prefix + "/quotes", len(outer) == 2, where, "opening and closing double quote written outside the per-character loop: %d" % len(outer)))
    return obs, forms


def check_unescape(ctx):
    ob = ctx.ob
    tc = ctx.tc
    fs = [f for f in tc.fns if f.name == "parse_lit_str" and f.body]
    if len(fs) != 1:
        return [ob("C12.unescape/anchor", False, "parse/expr.rs", "string-literal parser not found")]
    f = fs[0]
    where = ctx.where(f)
    obs = []
    single = {}
    hexd = {}
    widths = []
    # the tables may live in private helpers of the literal parser (extracting one is not a change of behaviour)
    for m in sir.walk_reach(tc, f):
        if m.get("k") != "match":
            continue
        for a in m["arms"]:
            p, b = a["pat"], a["body"]
            cases = p["cases"] if p.get("k") == "p_or" else [p]
            if all(c.get("k") == "p_lit" and c["e"].get("t") == "char" for c in cases):
                if b.get("k") == "lit" and b.get("t") == "char":
                    for c in cases:
                        single[c["e"]["v"]] = b["cp"]
                elif b.get("k") == "lit" and b.get("t") == "int":
                    for c in cases:
                        hexd[c["e"]["v"]] = int(b["v"])
    for n in sir.walk_reach(tc, f):
        if n.get("k") == "if" and n["cond"].get("k") == "binary" and n["cond"]["op"] == "==" and n["cond"]["r"].get("k") == "lit" and n["cond"]["r"].get("v") in ("x", "u"):
            which = n["cond"]["r"]["v"]

            def rng(x):
                for y in sir.walk(x):
                    if y.get("k") == "range" and y.get("to") is not None and y["to"].get("k") == "lit":
                        return int(y["to"]["v"]) - (int(y["from"]["v"]) if y.get("from") else 0)
                # the branch yields the digit count itself (`let n = if c == 'x' { 2 } else { 4 }; for _ in 0..n`)
                t_ = x
                while t_ is not None and t_.get("k") == "block" and len(t_["stmts"]) == 1 and t_["stmts"][0].get("k") == "expr" and not t_["stmts"][0].get("semi"):
                    t_ = t_["stmts"][0]["e"]
                if t_ is not None and t_.get("k") == "lit" and t_.get("t") == "int":
                    return int(t_["v"])
                return None
            t, e = rng(n["then"]), rng(n["else"]) if n.get("else") else None
            widths.append((which, t, e))
    for ch, cp in sorted(WXML_SINGLE.items()):
        got = single.get(ch)
        obs.append(ob("C12.unescape/single/%s" % ch, got == cp, where, "`\\%s` decodes to %s (ECMA: U+%04X)" % (ch, "U+%04X" % got if got is not None else "nothing", cp)))
    extra = {k: v for k, v in single.items() if k not in WXML_SINGLE}
    for k, v in extra.items():
        okx = ECMA_SINGLE.get(k) == v
        obs.append(ob("C12.unescape/single-extra/%s" % k, okx, where, "`\\%s` decodes to U+%04X; ECMA says %s" % (k, v, ECMA_SINGLE.get(k))))
    std_hex = any(n.get("k") == "mcall" and n["m"] == "to_digit" and n["args"] and str(n["args"][0].get("v")) == "16" for n in sir.walk_reach(tc, f))
    for d in "0123456789abcdefABCDEF":
        okd = hexd.get(d) == int(d, 16) or (not hexd and std_hex)
        obs.append(ob("C12.unescape/hex/%s" % d, okd, where, "hex digit %r has value %s" % (d, hexd.get(d) if hexd else "char::to_digit(16)")))
    # digit counts given as an argument of a helper, per escape letter
    for n in sir.walk_reach(tc, f):
        if n.get("k") == "arm" and n["pat"].get("k") == "p_lit" and n["pat"]["e"].get("v") in ("x", "u"):
            ints = [int(a["v"]) for x in sir.walk(n["body"]) if x.get("k") == "call" for a in x["args"] if a.get("k") == "lit" and a.get("t") == "int"]
            if len(ints) == 1:
                widths.append((n["pat"]["e"]["v"], ints[0], {"x": 4, "u": 2}[n["pat"]["e"]["v"]] if False else None))
    wok = False
    for which, t, e in widths:
        if which == "x" and t == 2 and e == 4:
            wok = True
        if which == "u" and t == 4 and e == 2:
            wok = True
    per_letter = {w_: t_ for w_, t_, e_ in widths if e_ is None}
    if per_letter:
        wok = per_letter == {"x": 2, "u": 4}
    obs.append(ob("C12.unescape/widths", wok, where, "\\x / \\u digit counts: %s (expected 2 / 4)" % widths))
    acc = [n for n in sir.walk_reach(tc, f) if n.get("k") == "assign" and n["r"].get("k") == "binary" and n["r"]["op"] == "+" and n["r"]["l"].get("k") == "binary" and n["r"]["l"]["op"] == "*"]
    aok = any(sir.expr_str(n["r"]["l"]["r"]) == "16" and sir.expr_str(n["r"]["l"]["l"]) == sir.expr_str(n["l"]) for n in acc)
    obs.append(ob("C12.unescape/accumulate", aok, where, "hex value accumulated as v = v*16 + digit: %s" % aok))
    return obs


def check_entities(ctx):
    ob = ctx.ob
    tc = ctx.tc
    fs = [f for f in tc.fns if f.name == "decode" and "entities" in f.module and f.body]
    if len(fs) != 1:
        return [ob("C12.entity/anchor", False, "entities.rs", "entity decoder not found")]
    f = fs[0]
    where = ctx.where(f)
    obs = []
    found = {}
    scalars = {}
    for n in sir.walk(f.body):
        if n.get("k") != "if":
            continue
        lits = [x["v"] for x in sir.walk(n["cond"]) if x.get("k") == "lit" and x.get("t") == "str"]
        if not lits or lits[0] not in ("#x", "#"):
            continue
        prefix = lits[0]
        radix = None
        start = None
        scalar_here = False
        for x in sir.walk(n["then"], into_closures=True):
            if x.get("k") == "call" and (sir.call_path(x) or "").endswith("from_u32"):
                scalar_here = True
            if x.get("k") == "call" and (sir.call_path(x) or "").endswith("from_str_radix") and len(x["args"]) == 2:
                radix = int(x["args"][1]["v"]) if x["args"][1].get("k") == "lit" else None
            elif x.get("k") == "call" and not (sir.call_path(x) or "").endswith("from_str_radix"):
                # a private helper that does the conversion: its radix parameter is bound to this call's argument
                hs = [g for g in tc.fns if g.name == sir.call_name(x) and g.body and "entities" in g.module and g is not f]
                if len(hs) == 1:
                    pn = hs[0].param_names()
                    for y in sir.walk(hs[0].body):
                        if y.get("k") == "call" and (sir.call_path(y) or "").endswith("from_str_radix") and len(y["args"]) == 2:
                            ra = sir.expr_str(sir.strip_ref(y["args"][1]))
                            if ra in pn and pn.index(ra) < len(x["args"]) and x["args"][pn.index(ra)].get("k") == "lit":
                                radix = int(x["args"][pn.index(ra)]["v"])
                            elif y["args"][1].get("k") == "lit":
                                radix = int(y["args"][1]["v"])
                        if y.get("k") == "call" and (sir.call_path(y) or "").endswith("from_u32"):
                            scalar_here = True
        scalars[prefix] = scalar_here
        for x in sir.walk(n["then"], into_closures=True):
            if x.get("k") == "index" and x["idx"].get("k") == "range" and x["idx"].get("from") is not None and x["idx"]["from"].get("k") == "lit":
                start = int(x["idx"]["from"]["v"])
        guard = None
        for x in sir.walk(n["cond"]):
            if x.get("k") == "binary" and x["op"] in (">", ">=") and sir.expr_str(x["l"]) == "len" and x["r"].get("k") == "lit":
                guard = int(x["r"]["v"]) + (0 if x["op"] == ">" else -1)
        found[prefix] = (radix, start, guard)
    for prefix, (wr, ws) in (("#x", (16, 3)), ("#", (10, 2))):
        r, s, g = found.get(prefix, (None, None, None))
        # `&` prefix digits `;` : the shortest reference has one digit, i.e. len == start + 2, so the guard must be len > start + 1
        obs.append(ob("C12.entity/%s" % prefix, r == wr and s == ws and g == ws + 1, where,
                      "`&%s..;` decoded with radix %s from byte offset %s under the guard len > %s (expected radix %d, offset %d, guard len > %d so that one-digit references decode)" % (prefix, r, s, g, wr, ws, ws + 1)))
    oks = scalars.get("#x") is True and scalars.get("#") is True
    obs.append(ob("C12.entity/scalar", oks, where, "both numeric forms go through char::from_u32 (surrogates and out-of-range values rejected): %s" % scalars))
    # the digits are read into an integer type that holds every Unicode scalar value (21 bits)
    narrow = []
    nconv = 0
    for g in [h for h in tc.fns if h.body and "entities" in h.module]:
        for n in sir.walk(g.body, into_closures=True):
            if n.get("k") == "call" and (sir.call_path(n) or "").endswith("from_str_radix"):
                nconv += 1
                ty = (sir.call_path(n) or "").split("::")[-2] if "::" in (sir.call_path(n) or "") else "?"
                if ty not in ("u32", "u64", "u128", "usize", "i32", "i64", "i128", "isize"):
                    narrow.append(ty)
    obs.append(ob("C12.entity/width", bool(nconv) and not narrow, where, "numeric references are converted in %d places, all into 32 bits or more" % nconv if not narrow else "a numeric reference is read into `%s`: code points above its range do not decode" % narrow[0],
                  witness=None if not narrow else "&#x1F600; is not decoded and reported as an illegal entity"))
    # named references are case-sensitive (`&Auml;` and `&auml;` are different characters): the name is looked up, and the table
    # is filled, with the text as it stands
    folds = []
    verdict = None
    pn = [x for x in f.param_names() if x]
    for g in [h for h in tc.fns if h.body and "entities" in h.module]:
        for n in sir.walk(g.body, into_closures=True):
            if n.get("k") == "mcall" and re.search(r"to_(ascii_)?(lower|upper)case|make_ascii_(lower|upper)case|eq_ignore_ascii_case|trim|replace", n["m"]):
                folds.append("%s calls `.%s()`" % (g.name, n["m"]))
    for n in sir.walk(f.body):
        if n.get("k") == "mcall" and n["m"] == "get" and len(n["args"]) == 1 and "MAPPING" in sir.expr_str(n["recv"]).upper():
            a = sir.strip_ref(n["args"][0])
            while a.get("k") == "mcall" and a["m"] in ("as_ref", "as_str", "borrow", "deref") and not a["args"]:
                a = sir.strip_ref(a["recv"])
            if a.get("k") == "path" and len(a["segs"]) == 1 and a["segs"][0] in pn:
                verdict = True
    if folds:
        verdict = False
    obs.append(ob("C12.entity/named-verbatim", verdict, where, "the named-reference table is consulted with the reference as written" if verdict else "; ".join(sorted(set(folds))[:3]) if folds else "the lookup is not a `get` with the parameter itself: not decided",
                  witness=None if verdict is not False else "&Auml; decodes to the character of &auml;"))
    # a named reference may denote TWO code points (&fjlig; &NotEqualTilde; &bne; ..: 93 rows of the table): what the decoder hands
    # back must be able to hold them, and the table is filled with the `characters` text of each row as it stands.
    ret = json.dumps(f.ret) if f.ret is not None else ""
    ret_char = bool(re.search(r'"char"', ret)) and not re.search(r'"(str|String|Cow)"', ret)
    derived = []
    filled = False
    for g in [h for h in tc.fns if h.body and "entities" in h.module]:
        for n in sir.walk(g.body, into_closures=True):
            if n.get("k") == "mcall" and sir.expr_str(sir.strip_ref(n["recv"])).endswith(".characters") and n["m"] in (
                    "chars", "bytes", "char_indices", "get", "split_at", "trim", "trim_start", "trim_end", "first", "as_bytes", "encode_utf16"):
                derived.append("%s reads `%s.%s()`" % (g.name, sir.expr_str(sir.strip_ref(n["recv"])), n["m"]))
            if n.get("k") == "index" and sir.expr_str(sir.strip_ref(n.get("base") or n.get("e") or {})).endswith(".characters"):
                derived.append("%s slices `.characters`" % g.name)
            if n.get("k") == "mcall" and n["m"] == "insert" and len(n["args"]) == 2 and sir.expr_str(sir.strip_ref(n["args"][1])).endswith(".characters"):
                filled = True
    whole = False if (ret_char or derived) else (True if filled else None)
    obs.append(ob("C12.entity/named-whole", whole, where,
                  "the table is filled with each row's `characters` text as it stands and the decoder returns text, so two-code-point references decode whole" if whole else
                  ("the decoder returns a single `char`: " if ret_char else "") + ("; ".join(sorted(set(derived))[:3]) if derived else "") if whole is False else
                  "the table filler does not insert `.characters` directly: not decided",
                  witness=None if whole is not False else "&fjlig; (U+0066 U+006A) decodes to `f` only"))
    return obs


def dash_to_camel_table(ctx, prefix):
    """the attribute-name normaliser as an automaton: the loop body is interpreted abstractly (lib/absint.py) for both values of
    its pending-dash flag and one character of every kind; it must be the automaton of the runtime's dashToCamelCase
    (`-` is dropped and arms the flag; any other character is copied, upper-cased and disarming the flag when it is armed)"""
    import absint as ai
    ob = ctx.ob
    tc = ctx.tc
    fs = [f for f in tc.fns if f.name == "dash_to_camel" and f.body]
    if len(fs) != 1:
        return [ob(prefix + "/automaton", False, "escape.rs", "dash_to_camel not found")]
    f = fs[0]
    loops = [n for n in sir.walk(f.body) if n.get("k") == "for" and any(x.get("k") == "mcall" and x["m"] == "chars" for x in sir.walk(n["e"]))]
    flags = [n["pat"]["name"] for n in sir.walk(f.body) if n.get("k") == "local" and n["pat"].get("k") == "p_ident" and n.get("init") is not None and n["init"].get("k") == "lit" and n["init"].get("t") == "bool"]
    if len(loops) != 1 or len(flags) != 1:
        return [ob(prefix + "/automaton", None, ctx.where(f), "the normaliser is not one loop over the characters with one pending-dash flag: not decided for this tree")]
    lp, flag = loops[0], flags[0]
    probs, und = [], False
    for armed in (False, True):
        for ch in ("-", "a", "z", "A", "1", "_", ".", "\u00e9"):
            it = ai.Interp(idx=tc)
            it.for_value = ch
            outs = [o for o in it.run({"k": "block", "stmts": [{"k": "expr", "e": lp, "semi": True}]}, {flag: armed, "s": ai.FREE}) if ("for-enter",) in o.events]
            if not outs or any(o.tainted for o in outs):
                und = True
                continue
            for o in outs:
                text = "".join(ev[1] for ev in o.events if ev[0] == "write")
                nxt = o.st.env.get(flag)
                want_text = "" if ch == "-" else (ch.upper() if armed and ch.isascii() else ch)
                want_flag = True if ch == "-" else False
                if text != want_text or nxt is not want_flag:
                    probs.append("flag %s, character %r: writes %r and leaves the flag %s (the runtime's dashToCamelCase writes %r and leaves it %s)" % (armed, ch, text, nxt, want_text, want_flag))
    if und and not probs:
        return [ob(prefix + "/automaton", None, ctx.where(f), "a step of the normaliser depends on a construct outside the interpreted fragment: not decided for this tree")]
    return [ob(prefix + "/automaton", not probs, ctx.where(f), "; ".join(probs[:3]) if probs else "per character: `-` is dropped and arms the flag, anything else is copied (upper-cased once when the flag is armed) and disarms it - 16 (flag, character kind) steps agree with dashToCamelCase",
               witness=None if not probs else "`data-col-2x` is delivered under the key `col2X` instead of `col-2x` -> `col2x`")]


def entity_start_rule(ctx, prefix):
    """the test that routes `&x..` to the named-reference scanner accepts every ASCII letter as first character"""
    import absint as ai
    ob = ctx.ob
    tc = ctx.tc
    pe = [f for f in tc.fns if f.name == "parse_next_entity" and f.body]
    if not pe:
        return [ob(prefix + "/name-start", False, "parse/tag.rs", "parse_next_entity not found")]
    f = pe[0]
    cond = None
    for n in sir.walk(f.body):
        if n.get("k") == "if" and any(x.get("k") in ("loop", "while") and any(y.get("k") == "p_range" and (y.get("lo") or {}).get("v") in ("a", "A") for y in sir.walk(x)) for x in sir.walk(n["then"])):
            c_ = n["cond"]
            if not any(x.get("k") == "lit" and x.get("v") == "#" for x in sir.walk(c_)) and c_.get("k") != "let":
                cond = c_
    if cond is None:
        return [ob(prefix + "/name-start", None, ctx.where(f), "the branch that scans a named reference is not written in a form this rule reads")]
    names = [x["segs"][0] for x in sir.walk(cond) if x.get("k") == "path" and len(x["segs"]) == 1 and x["segs"][0][:1].islower()]
    var = names[0] if names else "next"
    rejected, und = [], False
    for ch in "azAZmM":
        outs = ai.Interp(idx=tc).run(cond, {var: ch})
        vals = set(o.value for o in outs)
        if vals == {True}:
            continue
        if vals == {False}:
            rejected.append(ch)
        else:
            und = True
    if und and not rejected:
        return [ob(prefix + "/name-start", None, ctx.where(f), "the first-character test depends on a construct outside the interpreted fragment")]
    return [ob(prefix + "/name-start", not rejected, ctx.where(f), "a named reference may start with any ASCII letter" if not rejected else "references starting with %s are not recognised" % rejected,
               witness=None if not rejected else "&Omega; / &Eacute; stay undecoded, without a diagnostic")]


def wave10_rules(ctx):
    """obligations added after the tenth wave of seeded changes"""
    import absint as ai
    import string
    from share import relabel
    ob = ctx.ob
    tc = ctx.tc
    obs = []
    PROBES = [chr(c) for c in list(range(0, 0x100)) + [0x2028, 0x2029, 0xFEFF, 0x3000, 0x200B, 0x1680, 0x2003, 0x4E2D, 0x00E9, 0x0416, 0x03B1, 0x0660]]

    def accepted(f):
        ps_ = [q for q in f.params if not q.get("self")]
        if len(ps_) != 1 or (ps_[0].get("ty") or "").strip() != "char":
            return None
        pn = ps_[0].get("pat", {}).get("name")
        helpers = {g.name: g for g in tc.fns if g.body and g.base == f.base and g is not f and (g.ret or "").strip() == "bool"}
        acc = set()
        for ch in PROBES:
            it = ai.Interp(idx=tc, inline=helpers)
            try:
                outs = it.run(f.body, {pn: ch})
            except ai.TooManyPaths:
                return None
            vs = set(o.value for o in outs)
            if len(vs) != 1 or any(o.tainted for o in outs) or not (True in vs or False in vs):
                if ch.isascii():
                    return None
                continue   # a character whose Unicode class this analysis does not know: not part of the table that is compared
            if True in vs:
                acc.add(ch)
        return acc
    # (1) blank text is what HTML calls white space (space, tab, line feed, form feed, carriage return - the parser also takes
    #     U+000B): a character beyond these is content of a text node and is not trimmed or dropped
    for f in tc.fns:
        if f.body and f.name == "is_template_whitespace" and f.module[:1] == ["parse"]:
            acc = accepted(f)
            want = set(" \t\n\x0b\x0c\r")
            if acc is None:
                obs.append(ob("C12.text/whitespace-table", None, ctx.where(f), "the table is not a function of one character this rule can tabulate"))
            else:
                extra, miss = sorted(acc - want), sorted(want - acc)
                obs.append(ob("C12.text/whitespace-table", not extra and not miss, ctx.where(f), "template white space is exactly space and U+0009..U+000D" if not extra and not miss else "white space table: extra %s, missing %s" % (["U+%04X" % ord(c) for c in extra], ["U+%04X" % ord(c) for c in miss]),
                              witness=None if not extra else "a text node consisting of U+FEFF (or &#xFEFF;) is dropped"))
    # (2) a `<` starts a tag only in front of an ASCII letter or `_`; tag and attribute names are ASCII: `a<é` is text
    for f in tc.fns:
        if f.body and f.base == "Ident" and f.name in ("is_start_char", "is_following_char") and f.module[:2] == ["parse", "tag"]:
            acc = accepted(f)
            start = set(string.ascii_letters + "_")
            want = start if f.name == "is_start_char" else start | set(string.digits + "-.")
            if acc is None:
                obs.append(ob("C12.text/name-table/%s" % f.name, None, ctx.where(f), "the table is not a function of one character this rule can tabulate"))
            else:
                extra, miss = sorted(acc - want), sorted(want - acc)
                obs.append(ob("C12.text/name-table/%s" % f.name, not extra and not miss, ctx.where(f), "markup names are made of ASCII letters, `_`%s" % ("" if f.name == "is_start_char" else ", digits, `-` and `.`") if not extra and not miss else "name table: extra %s, missing %s" % (["U+%04X" % ord(c) for c in extra][:6], miss[:6]),
                              witness=None if not extra else "the text `a<é b` loses everything from the `<`: it is read as the tag `é`"))
    # (3) a quoted attribute value that is kept as a name (wx:key, template name, src ..) is read by the entity-decoding scanner:
    #     a raw slice of the source never becomes a name
    raw = []
    n_names = 0
    for f in tc.fns:
        if not f.body or f.module[:2] != ["parse", "tag"]:
            continue
        for n in sir.walk(f.body, into_closures=True):
            if n.get("k") == "struct" and n["segs"][-1] in ("StrName", "Ident") and any(x["name"] == "name" for x in n["fields"]):
                n_names += 1
                ne = [x["e"] for x in n["fields"] if x["name"] == "name"][0]
                if any(y.get("k") == "mcall" and y["m"] in ("code_slice", "cur_str", "skip_until_before", "skip_until_after") for y in sir.walk(ne)):
                    raw.append("%s builds a name from `%s`" % (f.name, sir.expr_str(ne)[:50]))
    obs.append(ob("C12.entity/names-decoded", False if raw else True if n_names >= 3 else None, "parse/tag.rs", "; ".join(raw[:2]) if raw else "%d names built, none from a raw slice of the source" % n_names,
                  witness=None if not raw else "wx:key=\"a&amp;b\" reaches the runtime as `a&amp;b`"))
    # (4) a constant subscript keeps its subscript form: the member skeleton of `a[..]` (shared with C06.paths)
    from rules.c06 import paths_rule
    obs += relabel([o for o in paths_rule(ctx) if "DynamicMember" in o["key"] or "StaticMember" in o["key"]], "C06.paths", "C12.member/paths")
    return obs


def wave7_rules(ctx):
    """obligations added after the seventh wave of seeded changes"""
    ob = ctx.ob
    tc = ctx.tc
    obs = []
    # (0') wave 9: a `{{ .. }}` binding that was read as an expression stays a binding in the value that is built (folding a constant
    #      into the static text in front of it makes the text node subject to the blank-text rules of static text)
    import absint as ai
    vf = [f for f in tc.fns if f.name == "parse_until_before" and f.base == "Value" and f.body]
    if vf:
        f = vf[0]
        arms = [a for m_ in sir.walk(f.body) if m_.get("k") == "match" and any((sir.call_name(x) or "").endswith("parse_data_binding") for x in sir.walk(m_["e"], into_closures=True) if x.get("k") in ("call", "mcall")) for a in m_["arms"] if "Dynamic" in sir.pat_str(a["pat"])]
        verdict, d = None, "the arm for an accepted binding was not found in a form this rule reads"
        if len(arms) == 1:
            binds = set(x["name"] for x in sir.walk(arms[0]["pat"]) if x.get("k") == "p_ident")
            bad, und, n_ = [], False, 0
            for label, start in (("static text", ("E", "Static", (("value", ai.FREE), ("location", ai.FREE)))),
                                 ("a binding", ("E", "Dynamic", (("expression", ai.FREE), ("double_brace_location", ai.FREE), ("binding_map_keys", ai.FREE))))):
                it = ai.Interp(idx=tc)
                env = {b: ai.FREE for b in binds}
                env.update({"ret": start, "ps": ai.FREE, "has_wrap_to_string": ai.FREE, "start_pos": ai.FREE})
                try:
                    outs = it.run(arms[0]["body"], env)
                except ai.TooManyPaths:
                    outs = None
                if not outs:
                    und = True
                    continue
                for o in outs:
                    r = o.st.env.get("ret")
                    n_ += 1
                    if isinstance(r, tuple) and r[:2] == ("E", "Dynamic"):
                        continue
                    if isinstance(r, tuple) and r[:2] == ("E", "Static"):
                        bad.append("after %s, a path through the arm leaves the value static" % label)
                    else:
                        und = True
            verdict = False if bad else None if und else True
            d = "; ".join(sorted(set(bad))) if bad else "on all %d paths the value is a binding afterwards" % n_ if verdict else "a path through the arm was not followed: not decided"
        obs.append(ob("C12.binding/kept", verdict, ctx.where(f), d, witness=None if verdict is not False else "<div>{{ ' ' }}</div>: the text node is dropped as blank static text"))
    # (0) wave 9: the `data-` marker of a dataset attribute is taken off once (`data-data-id` is the dataset name `dataId`)
    ONCE = {"strip_prefix", "starts_with", "split_once"}
    MANY = {"trim_start_matches", "trim_left_matches", "trim_matches", "replace", "split", "rsplit", "rsplit_once", "trim_end_matches", "strip_suffix", "rfind", "rsplitn"}
    uses = []
    for f in tc.fns:
        if not f.body or f.module[:1] != ["parse"]:
            continue
        for n in sir.walk(f.body, into_closures=True):
            if n.get("k") == "mcall" and n["args"] and sir.strip_ref(n["args"][0]).get("k") == "lit" and sir.strip_ref(n["args"][0]).get("v") == "data-":
                uses.append((f, n["m"]))
    if uses:
        bad = [(f, m) for f, m in uses if m in MANY]
        und = [(f, m) for f, m in uses if m not in MANY and m not in ONCE]
        obs.append(ob("C12.normalise/data-prefix-once", False if bad else None if und else True, ctx.where((bad or und or uses)[0][0]),
                      "`data-` is handled with %s" % sorted(set(m for _f, m in uses)) + (": %s does not stop after the first occurrence" % bad[0][1] if bad else ""),
                      witness=None if not bad else "data-data-id is emitted as the dataset name `id` instead of `dataId`"))
    else:
        obs.append(ob("C12.normalise/data-prefix-once", None, "parse/tag.rs", "no string operation with the literal `data-` found: not decided"))
    # (1) inside a string literal no look-ahead runs while blank skipping is still on (peek() skips blanks and comments as a side
    #     effect): after the opening quote has been consumed every cursor call sits inside parse_off_auto_whitespace
    fs = [f for f in tc.fns if f.name == "parse_lit_str" and f.body]
    if fs:
        f = fs[0]
        nodes = list(sir.walk(f.body))
        off = [n for n in nodes if n.get("k") == "mcall" and n["m"] == "parse_off_auto_whitespace"]
        inside = set(id(x) for o_ in off for a_ in o_["args"] for x in sir.walk(a_))
        cursor = [(i, n) for i, n in enumerate(nodes) if n.get("k") == "mcall" and sir.expr_str(n["recv"]) == "ps" and n["m"] in ("peek", "peek_n", "peek_str", "peek_chars", "next", "consume_str", "skip_whitespace", "try_parse")]
        first_next = [i for i, n in cursor if n["m"] == "next" and id(n) not in inside]
        late = [n["m"] for i, n in cursor if id(n) not in inside and first_next and i > first_next[0]]
        ok = bool(off) and bool(first_next) and not late
        obs.append(ob("C12.unescape/no-auto-skip", ok if (off and first_next) else None, ctx.where(f),
                      "after the opening quote every cursor call runs with blank skipping switched off" if ok else "`ps.%s` runs after the opening quote but outside parse_off_auto_whitespace: it skips blanks and comments that belong to the string" % (late[0] if late else "?"),
                      witness=None if ok else "'  x' is read as \"x\"; '/* c */y' as \"y\""))
    # (2) a named entity is scanned to its `;` without a length cap below the longest name of the table
    pe = [f for f in tc.fns if f.name == "parse_next_entity" and f.body]
    longest = 0
    if not longest:
        # the table lives in the `entities` crate: read its source from the cargo registry the build used, else the WHATWG fact
        import glob as _glob
        for src_ in _glob.glob(os.path.expanduser("~/.cargo/registry/src/*/entities-*/src/entities.rs")):
            try:
                for m_ in re.finditer(r'entity:\s*"&([A-Za-z0-9]+);"', open(src_).read()):
                    longest = max(longest, len(m_.group(1)))
            except OSError:
                pass
        longest = longest or 31   # CounterClockwiseContourIntegral
    if pe:
        f = pe[0]
        capped = []
        for a in sir.walk(f.body):
            if a.get("k") == "arm" and a.get("guard") is not None and any(y.get("k") == "p_range" and (y.get("lo") or {}).get("v") in ("a", "A") for y in sir.walk(a["pat"])):
                g = a["guard"]
                if g.get("k") == "binary" and g["op"] in ("<", "<=") and g["r"].get("k") == "lit" and g["l"].get("k") == "path":
                    cname = g["l"]["s"]
                    init = [n["init"].get("v") for n in sir.walk(f.body) if n.get("k") == "local" and n["pat"].get("name") == cname and n.get("init") is not None and n["init"].get("k") == "lit"]
                    if init:
                        room = int(g["r"]["v"]) - int(init[0]) + (1 if g["op"] == "<=" else 0) + 1   # + the first letter, at most
                        capped.append((sir.expr_str(g), room))
                    else:
                        capped.append((sir.expr_str(g), None))
                else:
                    capped.append((sir.expr_str(g), None))
        if not capped:
            obs.append(ob("C12.entity/name-length", True, ctx.where(f), "entity names are scanned letter by letter up to `;` without a length cap (longest name in the table: %d letters)" % longest))
        else:
            bad = [c for c in capped if c[1] is not None and longest and c[1] < longest]
            und = [c for c in capped if c[1] is None or not longest]
            obs.append(ob("C12.entity/name-length", False if bad else None, ctx.where(f), "entity-name letters are accepted only under `%s`: at most %s letters, the table's longest name has %d" % (capped[0][0], capped[0][1], longest),
                          witness=None if not bad else "&CounterClockwiseContourIntegral; stays undecoded"))
    # (3) names listed for the dev tools carry the prefix of the collection they come from
    ca = [f for f in tc.fns if f.name == "collect_active_attribute_names" and f.body]
    if ca:
        f = ca[0]
        want = {"data": "data:", "marks": "mark:"}
        bad, n_ = [], 0
        reach_nodes = list(sir.walk_reach(tc, f))
        # table-driven form: `for (prefix, attrs) in [("data:", &common.data), ("mark:", &common.marks)]`
        for t_ in reach_nodes:
            if t_.get("k") == "tuple" and len(t_["elems"]) == 2 and t_["elems"][0].get("k") == "lit" and t_["elems"][0].get("t") == "str" and re.fullmatch(r"\w+:", t_["elems"][0]["v"]):
                src = sir.strip_ref(t_["elems"][1])
                fld = src["name"] if src.get("k") == "field" else None
                if fld in want:
                    n_ += 1
                    if t_["elems"][0]["v"] != want[fld]:
                        bad.append("%s items are listed as `%s..`" % (fld, t_["elems"][0]["v"]))
        for lp in reach_nodes:
            if lp.get("k") != "for":
                continue
            src = sir.strip_ref(lp["e"])
            while src.get("k") == "mcall" and src["m"] in ("iter", "into_iter"):
                src = sir.strip_ref(src["recv"])
            fld = src["name"] if src.get("k") == "field" else (src["segs"][-1] if src.get("k") == "path" else None)
            if fld not in want:
                continue
            for x in sir.walk(lp["body"]):
                fc = sir.format_call(x)
                if fc and fc[0][0] == "lit" and re.fullmatch(r"\w+:", fc[0][1]):
                    n_ += 1
                    if fc[0][1] != want[fld]:
                        bad.append("%s items are listed as `%s..`" % (fld, fc[0][1]))
        obs.append(ob("C12.names/collection-prefix", (not bad) if (bad or n_ >= 2) else None, ctx.where(f), "data / mark attributes are listed under their own prefix (%d sites)" % n_ if not bad else "; ".join(bad),
                      witness=None if not bad else "in dev mode a `mark:x` of a <slot> is reported to the runtime as `data:x`"))
    return obs


TRANSFORM_RX = re.compile(r"^(trim\w*|split\w*|rsplit\w*|join|concat|replace\w*|to_(ascii_)?(lower|upper)case|make_ascii_\w+|strip_(prefix|suffix)|repeat|rev|truncate|pop|retain|remove|normalize\w*|lines|drain)$")


def wave11_rules(ctx):
    """obligations added after the eleventh wave of seeded changes"""
    from share import relabel
    ob = ctx.ob
    tc = ctx.tc
    obs = []
    # (1) a name is camel-cased for the property families only (shared with C04.normalise)
    from rules.c04 import normalise_rule
    obs += relabel(normalise_rule(ctx), "C04.normalise/only", "C12.names/camel-only")
    # (2) what the generator hands to the string-literal emitter is the text the parser stored: no trimming, splitting, joining,
    #     case folding or stripping between the tree and `gen_lit_str` (the parser has already decoded and, where the language says
    #     so, normalised it)
    n_sites, changed = 0, []
    for f in tc.fns:
        if not f.body or f.module[:1] != ["proc_gen"]:
            continue
        locs = {}
        for n in sir.walk(f.body, into_closures=True):
            if n.get("k") == "local" and n["pat"].get("k") == "p_ident" and n.get("init") is not None:
                locs.setdefault(n["pat"]["name"], []).append(n["init"])
            if n.get("k") == "match":      # `match text { "" => .., key => gen_lit_str(key) }`: the binding is the scrutinee
                for a_ in n["arms"]:
                    for nm, _p in sir.pat_bindings(a_["pat"]):
                        locs.setdefault(nm, []).append(n["e"])
            if n.get("k") == "if" and n["cond"].get("k") == "let":
                for nm, _p in sir.pat_bindings(n["cond"]["pat"]):
                    locs.setdefault(nm, []).append(n["cond"]["e"])
        for n in sir.walk(f.body, into_closures=True):
            if not (n.get("k") == "call" and sir.call_name(n) == "gen_lit_str" and n["args"]):
                continue
            n_sites += 1
            seen, todo, depth = set(), [n["args"][0]], 0
            while todo and depth < 4:
                nxt = []
                for e in todo:
                    for x in sir.walk(e, into_closures=True):
                        if x.get("k") == "mcall" and TRANSFORM_RX.match(x["m"]):
                            changed.append("%s: `%s` is applied to the text before it is escaped" % (f.name, x["m"]))
                        if x.get("k") == "path" and len(x["segs"]) == 1 and x["s"] in locs and x["s"] not in seen:
                            seen.add(x["s"])
                            nxt += locs[x["s"]]
                todo = nxt
                depth += 1
    # (3) the plain-character path of the text scanner returns every character it consumes: outside the entity attempt (a closure
    #     that is rolled back when it fails) no consuming call of the cursor has its result thrown away
    pe = [f for f in tc.fns if f.name == "parse_next_entity" and f.body]
    if pe:
        f = pe[0]
        CONS = re.compile(r"^(next|next_char_as_str|skip_bytes|consume_str\w*|skip_whitespace\w*|skip_until\w*)$")
        dropped = []
        for st in sir.walk(f.body, into_closures=False):
            if st.get("k") == "expr" and st.get("semi"):
                for x in sir.walk(st["e"], into_closures=False):
                    if x.get("k") == "closure":
                        break
                    if x.get("k") == "mcall" and CONS.match(x["m"]) and sir.expr_str(x["recv"]) in ("ps", "self"):
                        dropped.append("`%s` consumes input and its result is dropped" % sir.expr_str(x)[:40])
        n_ret = sum(1 for x in sir.walk(f.body, into_closures=False) if x.get("k") == "mcall" and x["m"] == "next_char_as_str")
        obs.append(ob("C12.text/every-char-returned", False if dropped else True if n_ret >= 1 else None, ctx.where(f),
                      "; ".join(dropped[:2]) if dropped else "the plain-character path hands back what it consumes",
                      witness=None if not dropped else "static text `a\r\nb` reaches the runtime as `a\nb`"))
    obs.append(ob("C12.sinks/as-stored", False if changed else True if n_sites >= 20 else None, "proc_gen/*.rs",
                  "; ".join(sorted(set(changed))[:3]) if changed else "%d uses of the string-literal emitter, each on the stored text" % n_sites,
                  witness=None if not changed else 'class="a\n  b" reaches the runtime as "a b"; wx:key=" a " as "a"'))
    return obs


def run(ctx):
    ob = ctx.ob
    obs = []
    f = find_escaper(ctx.tc)
    if f is None:
        obs.append(ob("C12.escaper/anchor", False, "escape.rs", "string-literal emitter not found"))
    else:
        o, forms = check_escaper(ctx, f, ctx.mir, "glass_easel_template_compiler", "C12.escaper")
        obs += o
    # positive control: fixture delegating to Debug must be rejected
    pf = [x for x in ctx.pc.fns if x.name == "debug_escaper"]
    if pf:
        o, _ = check_escaper(ctx, pf[0], ctx.pc_mir, "poscontrol", "pc")
        rejected = any(not x["ok"] and x["key"] == "pc/own-table" for x in o)
        obs.append(ob("C12.escaper/positive-control", rejected, "fixtures/poscontrol", "the Debug-delegating fixture is rejected: %s" % rejected))
    else:
        obs.append(ob("C12.escaper/positive-control", False, "fixtures/poscontrol", "fixture missing"))
    obs += check_unescape(ctx)
    obs += check_entities(ctx)
    # C12.sinks: every constant pasted into generated code goes through the emitter (same rule as C02.holes)
    from rules.c02 import holes_rule
    o, _sites = holes_rule(ctx)
    for x in o:
        x = dict(x)
        x["key"] = x["key"].replace("C02.holes", "C12.sinks").replace("C02.floor", "C12.floor")
        obs.append(x)
    # resolved paths are constants too: the resolver only cuts at `/`, drops `.`, pops `..` and joins with `/` (C13.algo)
    from rules.c13 import algo_rule
    for x in algo_rule(ctx):
        x = dict(x)
        x["key"] = x["key"].replace("C13.algo", "C12.paths")
        obs.append(x)
    # .. and so are the names taken from `src` attributes: the extension is removed once (C13.suffix)
    import rules.c13 as c13
    if hasattr(c13, "suffix_rule"):
        for x in c13.suffix_rule(ctx):
            x = dict(x)
            x["key"] = x["key"].replace("C13.suffix", "C12.paths/suffix")
            obs.append(x)
    obs += wave7_rules(ctx)
    obs += wave10_rules(ctx)
    obs += wave11_rules(ctx)
    obs += entity_start_rule(ctx, "C12.entity")
    obs += dash_to_camel_table(ctx, "C12.names")
    return obs
