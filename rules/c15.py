"""C15 - diagnostics: clean input is clean, broken input flagged, locations valid (structural half)."""
import json, os, re
import sir

RULE = ("C15.silent: in the expression parser every explicit failure return of a parse_* function is preceded by a diagnostic on that "
        "path, or is a propagation (`?`), or is the end-of-input exit of a peek/next (the rule stated above parse_ident_or_keyword). "
        "C15.kinds: every structural defect named in the property has at least one emission site in the parser, and ParseErrorKind::level "
        "has no wildcard arm and is at least as severe as the documented level (refs/diagnostic_levels.json). C15.dup: every duplicate "
        "check searches the collection the attribute is then pushed into, and reports DuplicatedAttribute / DuplicatedName. C15.prefix: "
        "an attribute name is classified by prefix only when it has at most one prefix segment; anything else is InvalidAttributePrefix. "
        "C15.entity: the character classes the entity scanner accepts are the ones the decoder understands (hex digits in both cases). "
        "C15.cursor: diagnostics take their locations from ParseState::position(), whose discipline is C16.cursor.")
EXPLANATION = ("Error discipline (no silent failure), presence and level of each diagnostic kind, and the consistency of duplicate checks "
               "are decided on the syntax tree of the parser; no template is parsed.")
ASSUMPTIONS = ["'clean input is clean' is not decided (it quantifies over all well-formed templates)", "refs/diagnostic_levels.json transcribes the documented levels"]

REFS = os.path.join(os.path.dirname(os.path.dirname(os.path.abspath(__file__))), "refs")


def silent_rule(ctx):
    ob = ctx.ob
    tc = ctx.tc
    obs = []
    n = 0
    for f in tc.fns:
        if not f.body or "expr" not in f.module or "parse" not in f.module or not f.name.startswith("parse_"):
            continue
        if not (f.ret or "").startswith("Option<"):
            continue
        pm = sir.parent_map(f.body)
        for r in sir.walk(f.body):
            is_none_ret = r.get("k") == "return" and r.get("e") is not None and sir.expr_str(r["e"]) == "None"
            if not is_none_ret:
                continue
            # closures used for look-ahead (`try_parse(|ps| -> Option<()> {..})`) are not parser results
            p = r
            in_lookahead = False
            while id(p) in pm:
                p = pm[id(p)]
                if p.get("k") == "closure" and (p.get("ret") or "").replace(" ", "") == "Option<()>":
                    in_lookahead = True
            if in_lookahead:
                continue
            n += 1
            # the statement directly before the return, in the same block, is the diagnostic:
            # `ps.add_warning*(..); return None;` or `if !ps.ended() { ps.add_warning*(..) } return None;`
            warned = False
            par = pm.get(id(r))
            if par is not None and par.get("k") == "expr" and id(par) in pm:
                par = pm[id(par)]
            if par is not None and par.get("k") == "block":
                idx = [i for i, st in enumerate(par["stmts"]) if st is r or st.get("e") is r]
                if idx and idx[0] > 0:
                    prev = par["stmts"][idx[0] - 1]
                    e = prev.get("e") if prev.get("k") == "expr" else prev
                    if e is not None and e.get("k") == "mcall" and e["m"].startswith("add_warning"):
                        warned = True
                    elif e is not None and e.get("k") == "if" and e.get("else") is None and sir.expr_str(e["cond"]).replace(" ", "") == "!ps.ended()":
                        warned = any(x.get("k") == "mcall" and x["m"].startswith("add_warning") for st in e["then"]["stmts"] for x in [st.get("e") if st.get("k") == "expr" else st] if x is not None)
            key = "C15.silent/%s#%d" % (f.qual, n)
            obs.append(ob(key, warned, ctx.where(f), "`return None` (expanded line %d) %s" % (sir.line_of(r), "follows a diagnostic on its path" if warned else "is reached without any diagnostic: the binding silently becomes empty"),
                          witness=None if warned else "a malformed expression of this shape yields no warning at all"))
    if n < 20:
        obs.append(ob("C15.floor/returns", False, "parse/expr.rs", "only %d failure returns found (floor 20)" % n))
    return obs


def kinds_rule(ctx):
    ob = ctx.ob
    tc = ctx.tc
    obs = []
    ref = json.load(open(os.path.join(REFS, "diagnostic_levels.json")))
    order = {n: i for i, n in enumerate(ref["order"])}
    lv = [f for f in tc.fns if f.name == "level" and f.base == "ParseErrorKind" and "parse" in f.module and f.body]
    if len(lv) != 1:
        return [ob("C15.kinds/level-table", False, "parse/mod.rs", "ParseErrorKind::level not found")]
    f = lv[0]
    table = {}
    wildcard = False
    for n in sir.walk(f.body):
        if n.get("k") == "arm":
            if n["pat"].get("k") in ("p_wild", "p_ident"):
                wildcard = True
            b = n["body"]
            if b.get("k") == "path":
                for v in sir.pat_variants(n["pat"]):
                    table[v] = b["segs"][-1]
    obs.append(ob("C15.kinds/no-wildcard", not wildcard, ctx.where(f), "level() lists every kind explicitly: %s" % (not wildcard)))
    for kind, minimum in sorted(ref["minimum"].items()):
        got = table.get(kind)
        ok = got is not None and order.get(got, -1) >= order[minimum]
        obs.append(ob("C15.kinds/level/%s" % kind, ok, ctx.where(f), "%s has level %s (documented: %s)" % (kind, got, minimum)))
    # emission sites
    emitted = {}
    for g in tc.fns:
        if not g.body or "parse" not in g.module:
            continue
        for n in sir.walk(g.body, into_items=True):
            if n.get("k") == "mcall" and n["m"].startswith("add_warning") and n["args"]:
                a = n["args"][0]
                if a.get("k") == "path" and len(a["segs"]) >= 2 and a["segs"][-2] == "ParseErrorKind":
                    emitted.setdefault(a["segs"][-1], set()).add(g.qual)
    for defect, kinds in sorted(ref["structural_defects"].items()):
        sites = set()
        for k in kinds:
            sites |= emitted.get(k, set())
        obs.append(ob("C15.kinds/emitted/%s" % re.sub(r"[^a-z]+", "-", defect), bool(sites), "parse/*.rs", "`%s` is reported as %s from %s" % (defect, kinds, sorted(s.split("::")[-2] + "::" + s.split("::")[-1] for s in sites)[:4] or "NOWHERE")))
    # the specific recovery points: the diagnostic is raised under the condition that defines the defect
    # (conditions are read through lib/guards.py: nested ifs, early returns, let-else, matches are the same thing)
    import guards as gd
    checks = [
        ("MissingEndTag", "Element", "parse", ("none", "close_with_end_tag_location")),
        ("IncompleteTag", "Element", "parse", None),
        ("MissingExpressionEnd", "Value", "parse_data_binding", None),
        ("UnexpectedExpressionCharacter", "Value", "parse_data_binding", ("nonempty", "skip_until_before")),
        ("InvalidAttributePrefix", "Element", "parse", None),
        ("ChildNodesNotAllowed", "Element", "parse", None),
        ("MissingSourcePath", "Element", "parse", ("empty", "path.1.name")),
        ("MissingModuleName", "Element", "parse", None),
    ]
    for kind, base, fn, cond in checks:
        gs_ = [g for g in tc.fns if g.base == base and g.name == fn and g.body]
        ok = False
        how = ""
        if gs_:
            g = gs_[0]
            G = gd.guards_of(g.node.get("body") or g.body)
            for n in sir.walk(g.node, into_items=True):
                if not (n.get("k") == "mcall" and n["m"].startswith("add_warning") and n["args"] and sir.expr_str(n["args"][0]).endswith(kind)):
                    continue
                if cond is None:
                    ok = True
                    continue
                guards_here = G.get(id(n))
                if guards_here is None:
                    continue
                mode, subject = cond
                if mode == "none":
                    st = gd.option_state(guards_here, lambda e: subject in sir.expr_str(e))
                    if st == "none":
                        ok = True
                elif mode in ("empty", "nonempty"):
                    names = gd.derived_names(g.body, subject) if mode == "nonempty" else set()
                    for kd, subj, pol in guards_here:
                        if kd != "cond":
                            continue
                        et = sir.emptiness_test(subj)
                        if not et:
                            continue
                        target, nonempty_when_true = et
                        is_subject = (subject.replace(" ", "") in target) if mode == "empty" else (sir.root_expr_name({"k": "path", "s": target.split(".")[0], "segs": [target.split(".")[0]]}) in names or target.split(".")[0] in names)
                        if not is_subject:
                            continue
                        nonempty = (nonempty_when_true == pol)
                        if (mode == "nonempty") == nonempty:
                            ok = True
            how = {None: "", "none": " when `%s` is None", "empty": " when `%s` is empty", "nonempty": " when the text left before `}}` (from %s) is not empty"}[cond[0] if cond else None] % ((cond[1],) if cond else ())
        obs.append(ob("C15.kinds/site/%s" % kind, ok, "parse/tag.rs", "%s::%s reports %s%s: %s" % (base, fn, kind, how, ok)))
    return obs


def dup_rule(ctx):
    ob = ctx.ob
    tc = ctx.tc
    ep = [f for f in tc.fns if f.base == "Element" and f.name == "parse" and f.body]
    if not ep:
        return [ob("C15.dup/anchor", False, "parse/tag.rs", "Element::parse not found")]
    f = ep[0]
    obs = []
    n = 0
    for i in sir.walk(f.node, into_items=True):
        if i.get("k") != "if" or i.get("else") is None:
            continue
        c = i["cond"]
        # COLL.iter().find(|x| ..name_eq(&attr_name)).is_some()
        # `coll.iter().find(p).is_some()` or `coll.iter().any(p)` (and `position(p).is_some()`)
        if c.get("k") == "mcall" and c["m"] == "is_some" and c["recv"].get("k") == "mcall" and c["recv"]["m"] in ("find", "position", "find_map"):
            chain = c["recv"]["recv"]
        elif c.get("k") == "mcall" and c["m"] == "any" and c["args"] and c["args"][0].get("k") == "closure":
            chain = c["recv"]
        else:
            continue
        coll = sir.expr_str(chain["recv"]) if chain.get("k") == "mcall" and chain["m"] == "iter" else sir.expr_str(chain)
        warns = [sir.expr_str(x["args"][0]).split("::")[-1] for x in sir.walk(i["then"]) if x.get("k") == "mcall" and x["m"].startswith("add_warning") and x["args"]]
        pushes = [sir.expr_str(x["recv"]) for x in sir.walk(i["else"]) if x.get("k") == "mcall" and x["m"] == "push"]
        if not pushes:
            continue
        n += 1
        ok = pushes[0] == coll and warns and warns[0] in ("DuplicatedAttribute", "DuplicatedName")
        obs.append(ob("C15.dup/%s#%d" % (coll.split(".")[-1], n), bool(ok), ctx.where(f), "duplicates are searched in `%s`, reported as %s, otherwise pushed into `%s`" % (coll, warns[:1], pushes[0]),
                      witness=None if ok else "the same attribute twice in this family is not flagged (and an unrelated family's name is)"))
    # "already given?" is asked in one of the three forms the parser uses: the option is set, the list holds the name, or the stored
    # location is no longer the `default_attr_position` sentinel - never by looking at the *value* (an empty value is a value)
    odd, n_forms = [], 0
    for i in sir.walk(f.node, into_items=True):
        if i.get("k") != "if" or i["cond"].get("k") == "let":
            continue
        direct = [x for st in (i["then"].get("stmts") or []) for x in sir.walk(st.get("e") if st.get("k") == "expr" else st, into_closures=False)
                  if isinstance(x, dict) and x.get("k") == "mcall" and x["m"].startswith("add_warning") and x["args"] and sir.expr_str(x["args"][0]).endswith("DuplicatedAttribute")]
        if not direct or len(i["then"].get("stmts") or []) != 1:
            continue
        n_forms += 1
        ct = sir.expr_str(i["cond"]).replace(" ", "")
        if "default_attr_position" in ct or re.search(r"\.(is_some|any)\(", ct) or re.search(r"\.is_some\(\)$", ct):
            continue
        odd.append(ct[:60])
    obs.append(ob("C15.dup/asked-by-presence", False if odd else True if n_forms >= 15 else None, ctx.where(f),
                  "%d duplicate tests ask whether the attribute was given (option set / name in the list / location sentinel)" % n_forms if not odd else "a duplicate test asks `%s`" % odd[0],
                  witness=None if not odd else '<slot name="" name="b"/> is not reported as a duplicated attribute'))
    # what is compared is the *name* of the stored item (the attribute name is what may not occur twice), never its value / alias
    wrong_field, n_cmp = [], 0
    for sn in sir.walk(f.node, into_items=True):
        if sn.get("k") == "mcall" and sn["m"] in ("find", "any", "position", "find_map") and sn["args"] and sn["args"][0].get("k") == "closure":
            clo = sn["args"][0]
            params = [nm for pp in clo["params"] for nm, _p in sir.pat_bindings(pp)]
            for x in sir.walk(clo["body"]):
                if x.get("k") == "mcall" and x["m"] == "name_eq" and x["args"]:
                    n_cmp += 1
                    r_ = sir.expr_str(sir.strip_ref(x["recv"])).replace(" ", "")
                    if not any(re.fullmatch(re.escape(p_) + r"(\.name|\.module_name\(\)|\.0)?", r_) for p_ in params):
                        wrong_field.append("`%s.name_eq(%s)`" % (r_, sir.expr_str(x["args"][0])))
    obs.append(ob("C15.dup/compares-names", False if wrong_field else True if n_cmp >= 10 else None, ctx.where(f),
                  "a duplicate search compares %s" % wrong_field[:2] if wrong_field else "%d duplicate searches compare the stored item's name" % n_cmp,
                  witness=None if not wrong_field else '<div slot:item="a" slot:item="b"/> is not reported as a duplicated attribute'))
    if n < 12:
        obs.append(ob("C15.floor/dup-checks", False, ctx.where(f), "only %d duplicate checks found (floor 12)" % n))
    # option-valued single attributes: `if X.is_some() { DuplicatedAttribute } else { X = Some(..) }`
    m = 0
    for i in sir.walk(f.node, into_items=True):
        if i.get("k") == "if" and i.get("else") is not None and i["cond"].get("k") == "mcall" and i["cond"]["m"] == "is_some":
            if i["cond"]["recv"].get("k") not in ("path", "field"):
                continue
            var = sir.expr_str(i["cond"]["recv"])
            warns = [sir.expr_str(x["args"][0]).split("::")[-1] for x in sir.walk(i["then"]) if x.get("k") == "mcall" and x["m"].startswith("add_warning") and x["args"]]
            sets = [sir.expr_str(x["l"]).lstrip("*") for x in sir.walk(i["else"]) if x.get("k") == "assign" and sir.expr_str(x["r"]).startswith("Some(")]
            if not sets or not warns:
                continue
            m += 1
            ok = sets[0] == var and warns[0] in ("DuplicatedAttribute", "InvalidAttribute")
            obs.append(ob("C15.dup/single/%s" % var, ok, ctx.where(f), "`%s` already set -> %s, else `%s = Some(..)`" % (var, warns[0], sets[0])))
    return obs


def prefix_rule(ctx):
    ob = ctx.ob
    tc = ctx.tc
    ep = [f for f in tc.fns if f.base == "Element" and f.name == "parse" and f.body]
    if not ep:
        return []
    f = ep[0]
    obs = []
    pr = [n for n in sir.walk(f.node, into_items=True) if n.get("k") == "local" and n["pat"].get("name") == "prefix" and n.get("init") is not None and n["init"].get("k") == "if"]
    ok = False
    d = "prefix classification not found"
    if pr:
        c = sir.expr_str(pr[0]["init"]["cond"]).replace(" ", "")
        import guards as gd
        atoms = gd._conj(pr[0]["init"]["cond"], True)
        seg_ok = name_ok = False
        extra = 0
        for kind, subj, pol in atoms:
            t = sir.expr_str(subj).replace(" ", "") if kind == "cond" else ""
            et = sir.emptiness_test(subj) if kind == "cond" else None
            if pol and t in ("segs.len()<=1", "segs.len()<2", "2>segs.len()", "1>=segs.len()"):
                seg_ok = True
            elif et and "attr_name.name" in et[0] and (et[1] == pol):
                name_ok = True
            else:
                extra += 1
        ok = seg_ok and name_ok and extra == 0
        els = pr[0]["init"].get("else")
        inv = els is not None and "AttrPrefixKind::Invalid" in sir.expr_str(els["stmts"][-1]["e"] if els.get("k") == "block" else els)
        ok = ok and inv
        d = "a name is classified when `%s`, otherwise it is Invalid: %s" % (c, inv)
    obs.append(ob("C15.prefix/segments", ok, ctx.where(f), d, witness=None if ok else "wx:x:if is silently accepted as wx:if"))
    warn = [n for n in sir.walk(f.node, into_items=True) if n.get("k") == "if" and n["cond"].get("k") == "let" and "AttrPrefixKind::Invalid" in sir.pat_str(n["cond"]["pat"]) + sir.expr_str(n["cond"]["pat"])]
    ok2 = any(any(x.get("k") == "mcall" and x["m"] == "add_warning" and "InvalidAttributePrefix" in sir.expr_str(x) for x in sir.walk(w["then"])) for w in warn) if warn else False
    if not warn:
        # pattern printed differently: search directly
        ok2 = any(n.get("k") == "mcall" and n["m"] == "add_warning" and "InvalidAttributePrefix" in sir.expr_str(n) for n in sir.walk(f.node, into_items=True))
    obs.append(ob("C15.prefix/reported", ok2, ctx.where(f), "an Invalid prefix is reported as InvalidAttributePrefix: %s" % ok2))
    # unknown wx: directives and unknown prefixes map to Invalid
    fallbacks = 0
    for m in sir.walk(f.node, into_items=True):
        if m.get("k") == "match":
            lits = [a for a in m["arms"] if a["pat"].get("k") == "p_lit"]
            wild = [a for a in m["arms"] if a["pat"].get("k") == "p_wild"]
            if len(lits) >= 6 and wild and "AttrPrefixKind::Invalid" in sir.expr_str(wild[0]["body"]):
                fallbacks += 1
    obs.append(ob("C15.prefix/fallbacks", fallbacks >= 2, ctx.where(f), "unknown wx: directives and unknown prefixes fall into AttrPrefixKind::Invalid (%d tables)" % fallbacks))
    return obs


def entity_rule(ctx):
    ob = ctx.ob
    tc = ctx.tc
    fs = [f for f in tc.fns if f.name == "parse_next_entity" and f.body]
    if not fs:
        return [ob("C15.entity/anchor", False, "parse/tag.rs", "parse_next_entity not found")]
    f = fs[0]
    obs = []
    sets = []
    for m in sir.walk(f.body):
        if m.get("k") == "match":
            for a in m["arms"]:
                rs = []
                for x in sir.walk(a["pat"]):
                    if x.get("k") == "p_range" and x.get("lo") and x.get("hi"):
                        rs.append((x["lo"].get("v"), x["hi"].get("v")))
                if rs:
                    sets.append(sorted(rs))
    # the same classes spelled with the standard ASCII predicates (in the scanner, its helpers, or closures handed to a helper)
    STD = {"is_ascii_hexdigit": [("0", "9"), ("A", "F"), ("a", "f")], "is_ascii_digit": [("0", "9")], "is_ascii_alphabetic": [("A", "Z"), ("a", "z")]}
    for n in sir.walk_reach(tc, f, 2):
        if n.get("k") == "mcall" and n["m"] in STD and not n["args"]:
            sets.append(STD[n["m"]])
    # `ch.is_digit(radix)`: radix 16 is the hex class, radix 10 the decimal one; a radix parameter of a helper takes the literal of
    # every call site
    RADIX = {"16": [("0", "9"), ("A", "F"), ("a", "f")], "10": [("0", "9")]}
    for g in sir.reach(tc, f, 2):
        pn = g.param_names()
        for n in sir.walk(g.body):
            if n.get("k") == "mcall" and n["m"] == "is_digit" and len(n["args"]) == 1:
                a = sir.strip_ref(n["args"][0])
                vals = []
                if a.get("k") == "lit":
                    vals = [str(a.get("v")).replace("u32", "")]
                elif a.get("k") == "path" and len(a["segs"]) == 1 and a["segs"][0] in pn:
                    pi = pn.index(a["segs"][0])
                    shift = 1 if pn and pn[0] == "self" else 0
                    for h in sir.reach(tc, f, 2):
                        for c in sir.walk(h.body):
                            if c.get("k") in ("call", "mcall") and sir.call_name(c) == g.name:
                                args = c["args"]
                                ix = pi - (shift if c.get("k") == "mcall" else 0)
                                if 0 <= ix < len(args) and sir.strip_ref(args[ix]).get("k") == "lit":
                                    vals.append(str(sir.strip_ref(args[ix]).get("v")).replace("u32", ""))
                for v in vals:
                    if v in RADIX:
                        sets.append(RADIX[v])
    want_hex = [("0", "9"), ("A", "F"), ("a", "f")]
    want_dec = [("0", "9")]
    want_name = [("A", "Z"), ("a", "z")]
    obs.append(ob("C15.entity/hex", want_hex in sets, ctx.where(f), "`&#x..;` accepts %s (the decoder reads radix 16 in both cases)" % [s for s in sets if ("a", "f") in s or ("A", "F") in s][:1],
                  witness=None if want_hex in sets else "&#x4E2D; raises IllegalEntity on clean input"))
    obs.append(ob("C15.entity/dec", want_dec in sets, ctx.where(f), "`&#..;` accepts decimal digits: %s" % (want_dec in sets)))
    obs.append(ob("C15.entity/named", want_name in sets, ctx.where(f), "`&name;` accepts ASCII letters: %s" % (want_name in sets)))
    # sites that report IllegalEntity: direct calls, or calls of a local helper that does the reporting
    def reports(b):
        return any(n.get("k") == "mcall" and n["m"].startswith("add_warning") and "IllegalEntity" in sir.expr_str(n) for n in sir.walk(b))
    helpers = set(it["name"] for it in sir.walk(f.node, into_items=True) if it.get("k") == "fn" and it is not f.node and it.get("body") and reports(it["body"]))
    helpers |= set(g.name for g in tc.fns if g.body and g is not f and "parse" in g.module and reports(g.body) and g.name != "add_warning")
    warn = 0
    for n in sir.walk(f.node, into_items=True):
        if n.get("k") == "mcall" and n["m"].startswith("add_warning") and "IllegalEntity" in sir.expr_str(n):
            inside_helper = False
            warn += 1
        elif n.get("k") == "call" and sir.call_name(n) in helpers:
            warn += 1
    obs.append(ob("C15.entity/reported", warn >= 4, ctx.where(f), "malformed numeric references are reported as IllegalEntity (%d sites)" % warn))
    return obs


def cursor_rule(ctx):
    ob = ctx.ob
    tc = ctx.tc
    obs = []
    aw = [f for f in tc.fns if f.name == "add_warning_at_current_position" and f.body]
    if aw:
        s = " ".join(sir.expr_str(n) for n in sir.walk(aw[0].body) if n.get("k") in ("local", "mcall"))
        ok = "self.position()" in s and "pos..pos" in s.replace(" ", "")
        obs.append(ob("C15.cursor/at-current-position", ok, ctx.where(aw[0]), "diagnostics without a range are located at the maintained cursor position: %s" % ok))
    from rules.c16 import cursor_rule as c16_cursor
    for x in c16_cursor(ctx):
        x = dict(x)
        x["key"] = x["key"].replace("C16.cursor", "C15.cursor")
        obs.append(x)
    return obs


def wave11_rules(ctx):
    """obligations added after the eleventh wave of seeded changes"""
    ob = ctx.ob
    tc = ctx.tc
    obs = []
    # every construct that reads attributes up to the end of a tag reports a tag that never ends: the function that calls the
    # attribute reader of `<!meta ..>` tags tests for the closing `>` and reports IncompleteTag when it is missing
    n_ = 0
    for f in tc.fns:
        if not f.body or f.module[:1] != ["parse"]:
            continue
        calls = [x for x in sir.walk(f.body, into_closures=True) if x.get("k") in ("call", "mcall") and sir.call_name(x) == "parse_until_tag_end"]
        if not calls:
            continue
        n_ += 1
        warns = [sir.expr_str(x["args"][0]).split("::")[-1] for x in sir.walk_reach(tc, f) if x.get("k") == "mcall" and x["m"].startswith("add_warning") and x["args"]]
        import guards as gd
        G = gd.guards_of(f.body)
        guarded = False
        for x in sir.walk(f.body, into_closures=True):
            if x.get("k") == "mcall" and x["m"].startswith("add_warning") and x["args"] and sir.expr_str(x["args"][0]).endswith("IncompleteTag"):
                gs_ = " ".join(sir.expr_str(sj) if kd == "cond" else sir.expr_str(sj[0]) for kd, sj, pl in G.get(id(x), []))
                if ">" in gs_ or "ended" in gs_ or "peek" in gs_:
                    guarded = True
        own = any(x.get("k") == "mcall" and x["m"].startswith("add_warning") and x["args"] and sir.expr_str(x["args"][0]).endswith("IncompleteTag") for x in sir.walk(f.body, into_closures=True))
        ok = own and guarded
        obs.append(ob("C15.kinds/incomplete-tag/%s" % f.name, ok if (not own or guarded) else None, ctx.where(f),
                      "after the attributes of a `<!..>` tag a missing `>` is reported as IncompleteTag: %s" % ok,
                      witness=None if ok else "`<!foo bar` at the end of the input yields only the Note-level UnknownMetaTag"))
    if n_ == 0:
        obs.append(ob("C15.kinds/incomplete-tag/anchor", None, "parse/tag.rs", "no caller of the meta-tag attribute reader found"))
    # trailing garbage in a binding: between the end of the expression and the search for `}}` only white space is consumed, so that
    # whatever else stands there is what the UnexpectedExpressionCharacter test sees
    pb = [f for f in tc.fns if f.name == "parse_data_binding" and f.body]
    if pb:
        f = pb[0]
        top = f.body["stmts"]
        i_expr = [i for i, st in enumerate(top) if any(x.get("k") == "call" and re.match(r"parse_expression", sir.call_name(x) or "") for x in sir.walk(st, into_closures=False))]
        i_end = [i for i, st in enumerate(top) if any(x.get("k") == "mcall" and x["m"] == "skip_until_before" and x["args"] and sir.strip_ref(x["args"][0]).get("v") == "}}" for x in sir.walk(st, into_closures=False))]
        if i_expr and i_end and i_expr[0] < i_end[0]:
            eaten = []
            for st in top[i_expr[0] + 1:i_end[0]]:
                for x in sir.walk(st, into_closures=True):
                    if x.get("k") == "mcall" and re.match(r"(next|next_char_as_str|skip_bytes|consume_str\w*|skip_until\w*|try_parse)$", x["m"]) and sir.expr_str(x["recv"]) == "ps":
                        eaten.append(sir.expr_str(x)[:40])
            obs.append(ob("C15.kinds/trailing-garbage/nothing-eaten", not eaten, ctx.where(f),
                          "between the expression and the search for `}}` only white space is skipped" if not eaten else "between the expression and the trailing-garbage test the parser consumes %s" % eaten[:2],
                          witness=None if not eaten else "{{ b.c; }} is accepted without an UnexpectedExpressionCharacter diagnostic"))
        else:
            obs.append(ob("C15.kinds/trailing-garbage/nothing-eaten", None, ctx.where(f), "the binding parser is not written as expression / white space / search for `}}` at its top level: not decided"))
    return obs


def wave10_rules(ctx):
    """obligations added after the tenth wave of seeded changes"""
    import guards as gd
    ob = ctx.ob
    tc = ctx.tc
    obs = []
    # (1) where the expression parser decides by the next character, the catch-all case is the failing one: it reports and gives
    #     up; only listed characters are accepted
    n1, bad1 = 0, []
    for f in tc.fns:
        if not f.body or f.module[:2] != ["parse", "expr"]:
            continue
        for m in sir.walk(f.body):
            if m.get("k") != "match":
                continue
            sc = sir.strip_ref(m["e"])
            if sc.get("k") == "path" and len(sc["segs"]) == 1:
                inits = [l_["init"] for l_ in sir.walk(f.body) if l_.get("k") == "local" and l_["pat"].get("name") == sc["segs"][0] and l_.get("init") is not None]
                sc = inits[-1] if inits else sc
            if not any(x.get("k") == "mcall" and x["m"] in ("peek", "peek_n", "peek_chars") for x in sir.walk(sc)):
                continue
            if not any("'" in sir.pat_str(a["pat"]) for a in m["arms"]):
                continue
            for a in m["arms"]:
                if a["pat"].get("k") == "p_wild":
                    n1 += 1
                    rej = any(x.get("k") == "mcall" and x["m"].startswith("add_warning") for x in sir.walk(a["body"])) or any(x.get("k") in ("return", "break") for x in sir.walk(a["body"]))
                    b_ = a["body"]
                    while b_.get("k") == "block" and len(b_["stmts"]) == 1 and b_["stmts"][0].get("k") == "expr":
                        b_ = b_["stmts"][0]["e"]
                    if (b_.get("k") == "path" and b_.get("s") == "None") or (b_.get("k") == "lit" and b_.get("v") is False):
                        rej = True      # an operator probe that answers "not here": nothing is accepted
                    if not rej:
                        bad1.append("%s: the catch-all case of the match on `%s` accepts" % (f.name, sir.expr_str(m["e"])[:20]))
    obs.append(ob("C15.silent/lookahead-catch-all", False if bad1 else True if n1 >= 2 else None, "parse/expr.rs", "; ".join(bad1[:2]) if bad1 else "%d look-ahead decisions, each with a failing catch-all" % n1,
                  witness=None if not bad1 else "{{ a, b junk }} is accepted without a diagnostic"))
    # (2) an end tag that names another element does not close this one: the name comparison is skipped only for an end tag without
    #     a name (which has been reported already)
    for f in tc.fns:
        if not f.body or f.module[:2] != ["parse", "tag"] or f.name != "parse" or f.base != "Element":
            continue
        G = gd.guards_of(f.body)
        for r in sir.walk(f.body, into_closures=True):
            if not (r.get("k") == "return" and r.get("e") is not None and sir.expr_str(r["e"]).strip() == "None"):
                continue
            conds = [(sj, pl) for kd, sj, pl in G.get(id(r), []) if kd == "cond"]
            cmp_ = [(sj, pl) for sj, pl in conds if sj.get("k") == "binary" and sj.get("op") in ("!=", "==") and "end_tag_name" in sir.expr_str(sj) and "tag_name" in sir.expr_str(sj).replace("end_tag_name", "")]
            if not cmp_:
                continue
            others = [(sj, pl) for sj, pl in conds if "end_tag_name" in sir.expr_str(sj) and not any(sj is c_[0] for c_ in cmp_)]
            verdict, why = True, "an end tag with a name closes the element only when the names are equal"
            for sj, pl in others:
                et = sir.emptiness_test(sj)
                if et is None:
                    t_ = sir.expr_str(sj).replace(" ", "")
                    mm = re.search(r"\.len\(\)(>=?|!=)(\d+)", t_)
                    if mm and not (mm.group(1) in (">", "!=") and mm.group(2) == "0") and not (mm.group(1) == ">=" and mm.group(2) == "1"):
                        verdict, why = False, "the name comparison also depends on `%s`: short names are not compared" % sir.expr_str(sj)[:40]
                    else:
                        verdict, why = None, "the name comparison also depends on `%s`: not decided" % sir.expr_str(sj)[:40]
            obs.append(ob("C15.kinds/end-tag-name", verdict, ctx.where(f), why, witness=None if verdict is not False else "<view><text>hi</b></view> parses without a diagnostic"))
            break
    # (3) a `<wxs src>` element is reported for content only when there is content: blank text between its tags is not content
    for f in tc.fns:
        if not f.body or f.module[:2] != ["parse", "tag"]:
            continue
        G = None
        for n in sir.walk(f.body):
            if n.get("k") == "mcall" and n["m"] == "add_warning" and n["args"] and sir.expr_str(n["args"][0]).endswith("ChildNodesNotAllowed") and len(n["args"]) > 1 and "content" in sir.expr_str(n["args"][1]):
                G = G or gd.guards_of(f.body)
                conds = [sj for kd, sj, pl in G.get(id(n), []) if kd == "cond" and "content" in sir.expr_str(sj)]
                trimmed = any(x.get("k") == "mcall" and x["m"] in ("trim", "trim_matches", "trim_start", "trim_start_matches", "chars", "bytes", "find", "any", "all") for sj in conds for x in sir.walk(sj))
                obs.append(ob("C15.clean/script-content-blank", bool(conds) and trimmed, ctx.where(f), "script content is reported only when something other than white space stands between the tags: %s" % trimmed,
                              witness=None if trimmed else "<wxs module=\"m\" src=\"./m.wxs\">\n</wxs> (well-formed) is flagged at Error level"))
    return obs


def wave9_rules(ctx):
    """obligations added after the ninth wave of seeded changes"""
    import guards as gd
    ob = ctx.ob
    tc = ctx.tc
    obs = []
    # (1) child nodes that are parsed and then dropped (the element cannot hold children) are reported whenever there are any:
    #     the report depends on the list being non-empty and on nothing else
    k = 0
    for f in tc.fns:
        if not f.body or f.module[:2] != ["parse", "tag"]:
            continue
        G = None
        for n in sir.walk(f.body):
            if not (n.get("k") == "mcall" and n["m"] == "add_warning" and n["args"] and sir.expr_str(n["args"][0]).endswith("ChildNodesNotAllowed")):
                continue
            if G is None:
                G = gd.guards_of(f.body)
            gs = G.get(id(n), [])
            # the innermost guard over a list of nodes
            inner = None
            for kind, subj, pol in reversed(gs):
                e0 = sir.strip_ref(subj[0] if kind == "pat" else subj)
                if e0.get("k") == "path" and len(e0["segs"]) == 1:
                    # a local: read its initialiser
                    nm0 = e0["segs"][0]
                    for l in sir.walk(f.body):
                        if l.get("k") == "local" and l["pat"].get("name") == nm0 and l.get("init") is not None:
                            e0 = l["init"]
                t = sir.expr_str(e0)
                if "children" in t and "children_mut" not in t:
                    inner = (kind, (e0,) if kind == "pat" else e0, pol, t)
                    break
            if inner is None:
                continue
            k += 1
            kind, subj, pol, t = inner
            chain = []
            e = subj[0] if kind == "pat" else subj
            for x in sir.walk(e):
                if x.get("k") == "mcall":
                    chain.append(x["m"])
            narrowing = [m for m in chain if m in ("filter", "filter_map", "skip", "skip_while", "take_while", "nth", "and_then", "map_while", "then", "then_some")]
            searching = [m for m in chain if m in ("find", "any", "position", "find_map", "all")]
            verdict = False if narrowing else None if searching else True
            obs.append(ob("C15.dropped-children/reported#%d" % k, verdict, ctx.where(f),
                          "dropped children are reported under `%s`%s" % (t[:70], ": the first node is picked and then tested, a node the test turns down hides the rest" if narrowing else ": a search over the nodes, not decided" if searching else ""),
                          witness=None if verdict is not False else "<include src=\"a\"><!-- c --><div/></include>: the div is dropped without a diagnostic"))
    if k < 2:
        obs.append(ob("C15.floor/dropped-children", False, "parse/tag.rs", "only %d reports of dropped child nodes found (floor 2)" % k))
    # (2) the identifier alphabet of the expression parser is ECMAScript's (ASCII part): a name may start with a letter, `_` or `$`
    #     and go on with those and digits; what is cut off an identifier is reported as an unexpected character
    import absint as ai
    import string
    START = set(string.ascii_letters + "_$")
    FOLLOW = START | set(string.digits)
    tabs = 0
    for f in tc.fns:
        if not f.body or f.module[:2] != ["parse", "expr"] or (f.ret or "").strip() != "bool" or f.base:
            continue
        ps_ = [q for q in f.params if not q.get("self")]
        if len(ps_) != 1 or (ps_[0].get("ty") or "").strip() != "char":
            continue
        pn = ps_[0].get("pat", {}).get("name")
        acc, und = set(), False
        for cp in range(0x20, 0x7f):
            it = ai.Interp(idx=tc)
            try:
                outs = it.run(f.body, {pn: chr(cp)})
            except ai.TooManyPaths:
                outs = []
            vs = set(o.value for o in outs)
            if len(vs) != 1 or any(o.tainted for o in outs) or not (True in vs or False in vs):
                und = True
                break
            if True in vs:
                acc.add(chr(cp))
        if und:
            continue
        if not ({"a", "_"} <= acc) or "." in acc or "-" in acc:
            continue   # not an identifier table
        tabs += 1
        # beyond ASCII: whatever the table accepts is pasted into the script as part of a name, so it has to be an ECMAScript
        # identifier character (Unicode ID_Start / ID_Continue, approximated by Python's XID tables); superscripts, fractions,
        # circled digits and the like are alphanumeric for Rust but not identifier characters
        probes = [chr(c) for c in list(range(0xA0, 0x100)) + [0x2070, 0x2074, 0x2081, 0x2153, 0x2460, 0x2160, 0x3007, 0x4E2D, 0x3042, 0x0301, 0x200D, 0x1F600, 0x0660, 0x00B2, 0x00BD, 0x2028, 0xFEFF]]
        wide = []
        for ch in probes:
            it = ai.Interp(idx=tc)
            try:
                outs = it.run(f.body, {pn: ch})
            except ai.TooManyPaths:
                outs = []
            vs = set(o.value for o in outs)
            if vs == {True} and not any(o.tainted for o in outs) and not ("a" + ch).isidentifier():
                wide.append("U+%04X" % ord(ch))
        obs.append(ob("C15.ident/alphabet/%s/non-ascii" % f.name, not wide, ctx.where(f), "no character outside ASCII is accepted that ECMAScript does not allow in a name" if not wide else "accepts %s, which cannot be part of an ECMAScript name" % ", ".join(wide[:6]),
                      witness=None if not wide else "{{ x² }} emits `D.x²`, a syntax error"))
        want = FOLLOW if "0" in acc else START
        role = "following" if "0" in acc else "first"
        miss, extra = sorted(want - acc), sorted(acc - want)
        obs.append(ob("C15.ident/alphabet/%s" % f.name, not miss and not extra, ctx.where(f), "%s characters of an identifier: %s" % (role, "the ECMAScript ASCII set" if not miss and not extra else "missing %s, extra %s" % (miss, extra)),
                      witness=None if not miss else "{{ item$id }} is cut after `item` and reported as an unexpected character"))
    if tabs < 2:
        obs.append(ob("C15.ident/alphabet", None, "parse/expr.rs", "only %d identifier tables read as functions of one character: not decided" % tabs))
    return obs


def wave8_rules(ctx):
    """obligations added after the eighth wave of seeded changes"""
    import guards as gd
    ob = ctx.ob
    tc = ctx.tc
    obs = []
    # (1) names are duplicates when they are equal, not when they are similar
    for f in tc.fns:
        if f.body and f.name == "name_eq" and "parse" in f.module:
            tail = f.body["stmts"][-1].get("e") if f.body["stmts"] and f.body["stmts"][-1].get("k") == "expr" else None
            exact = tail is not None and tail.get("k") == "binary" and tail["op"] == "==" and not any(x.get("k") == "mcall" and re.search(r"ignore|lower|upper|trim|fold", x["m"]) for x in sir.walk(tail))
            exact = exact or (tail is not None and tail.get("k") == "mcall" and tail["m"] == "eq" and not any(x.get("k") == "mcall" and re.search(r"ignore|lower|upper|trim|fold", x["m"]) for x in sir.walk(tail)))
            obs.append(ob("C15.dup/exact-names/%s" % (f.base or "?"), exact, ctx.where(f), "%s::name_eq compares the names for equality: %s" % (f.base, exact),
                          witness=None if exact else "<my-comp itemId=.. itemid=..>: a false DuplicatedAttribute, and the second attribute is dropped"))
    # (2) the diagnostic sink keeps every diagnostic
    for f in tc.fns:
        if f.body and f.base == "ParseState" and f.name == "add_warning":
            G = gd.guards_of(f.body)
            pushes = [n for n in sir.walk(f.body) if n.get("k") == "mcall" and n["m"] == "push" and "warnings" in sir.expr_str(n["recv"])]
            okw = bool(pushes) and not any(G.get(id(p_)) for p_ in pushes) and not any(n.get("k") == "return" for n in sir.walk(f.body))
            obs.append(ob("C15.silent/sink", okw, ctx.where(f), "ParseState::add_warning records every diagnostic it is given: %s" % okw,
                          witness=None if okw else "after 100 notes a missing end tag is no longer reported"))
    # (3) a <wxs> without a module name is flagged whatever else it carries
    ep = [g for g in tc.fns if g.base == "Element" and g.name == "parse" and g.body]
    if ep:
        g = ep[0]
        G = gd.guards_of(g.node.get("body") or g.body)
        for n in sir.walk(g.node, into_items=True):
            if n.get("k") == "mcall" and n["m"].startswith("add_warning") and n["args"] and sir.expr_str(n["args"][0]).endswith("MissingModuleName") and "tag_name" in sir.expr_str(n["args"][-1]):
                gs_ = G.get(id(n)) or []
                idx = [i for i, (kind, subj, pol) in enumerate(gs_) if "script_module" in (sir.expr_str(subj) if kind == "cond" else sir.expr_str(subj[0]))]
                if not idx:
                    obs.append(ob("C15.kinds/site/MissingModuleName-wxs", None, ctx.where(g), "the <wxs> module check is not in a form this rule reads"))
                    continue
                inner = [(sir.expr_str(subj) if kind == "cond" else sir.expr_str(subj[0]) + "~" + subj[1])[:50] for kind, subj, pol in gs_[idx[-1] + 1:]]
                obs.append(ob("C15.kinds/site/MissingModuleName-wxs", not inner, ctx.where(g), "a <wxs> without `module` is always flagged" if not inner else "a <wxs> without `module` is flagged only under %s" % inner[:2],
                              witness=None if not inner else "<wxs src=\"x.wxs\"/> is accepted silently"))
    # (4) only `\n` counts as a line break, in every cursor method alike (CR LF must not count twice; a lone CR is not a break
    #     for one method and a column for another)
    for f in tc.fns:
        if not f.body or f.base != "ParseState":
            continue
        G = None
        for n in sir.walk(f.body):
            if n.get("k") == "binary" and n["op"] == "+=" and sir.expr_str(n["l"]) == "self.line":
                G = G or gd.guards_of(f.body)
                chars = set()
                for kind, subj, pol in G.get(id(n), []):
                    s_ = subj if kind == "cond" else subj[0]
                    chars |= set(x["v"] for x in sir.walk(s_) if x.get("k") == "lit" and x.get("t") in ("char", "byte", "str") and isinstance(x.get("v"), str))
                    if kind == "pat":
                        chars |= set(re.findall(r"'(\\?.)'", subj[1]))
                other = sorted(c_ for c_ in chars if c_ not in ("\n", "\\n"))
                if chars:
                    obs.append(ob("C15.cursor/line-break/%s" % f.name, not other, ctx.where(f), "the line counter advances on `\\n` only" if not other else "the line counter also advances on %r" % other,
                                  witness=None if not other else "in a CRLF source a diagnostic is reported on a line that does not exist"))
    # (5) a conditional nested in either branch needs no parentheses (shared with C03.prec/parser/Cond)
    from rules.c03 import parser_cond_rule
    for x in parser_cond_rule(ctx):
        if x["key"] == "C03.prec/parser/Cond":
            x = dict(x)
            x["key"] = "C15.clean/nested-conditional"
            obs.append(x)
    return obs


def run(ctx):
    obs = silent_rule(ctx)
    obs += kinds_rule(ctx)
    obs += dup_rule(ctx)
    obs += prefix_rule(ctx)
    obs += entity_rule(ctx)
    # what the scanner accepts the decoder decodes: a reference the decoder turns down is reported at Error level (shared with C12)
    from share import relabel
    from rules.c12 import check_entities
    obs += relabel(check_entities(ctx), "C12.entity", "C15.entity/decoder")
    obs += cursor_rule(ctx)
    obs += wave8_rules(ctx)
    obs += wave9_rules(ctx)
    obs += wave10_rules(ctx)
    obs += wave11_rules(ctx)
    return obs
