"""C10 - rpx conversion is arithmetically right; other numbers keep their value (structural half)."""
from rules import csspacks as cp

RULE = 'C10.int/*/writer: digits come from the bound integer, `+` iff has_sign and the integer is not negative, `-0` kept. C10.rules/not-a-rule-list: no declaration-block at-rule (@page, @font-face, ...) is parsed as a rule list, so its declarations reach the rpx writer. C10.route: every dispatch loop routes Dimension tokens through write_maybe_rpx_dimension or is a tabled context. C10.expr: the conversion applies exactly for unit `rpx`, computes value*100/ratio without further rounding, emits value/new int flag/sign/`vw`, re-emits other units unchanged, and the ratio option is never rewritten. C10.int: numeric tokens carrying an integer value are written from that integer, not through the 6-significant-digit f32 printer.'
EXPLANATION = ("The token-dispatch loops of the stylesheet compiler are located by role in the expanded syntax tree and their arms, "
               "flags and field writers (MIR) are checked against the rule; no stylesheet is ever transformed.")
ASSUMPTIONS = ["cssparser tokenises and serialises per CSS Syntax 3", "refs/css_refs.json lists rule-bearing at-rules and math functions correctly",
               "token-stream equality of concrete outputs is not decided"]


def run(ctx):
    obs, ok = cp.anchors(ctx, 'C10')
    if not ok:
        return obs
    obs += cp.rpx_rules(ctx, 'C10')
    obs += cp.int_rule(ctx, 'C10')
    # a number keeps its value only if it stays a token of its own: the blank in front of it follows cssparser's separator rule (C08.sep)
    obs += cp.separator_condition_rule(ctx, 'C10')
    obs += [o for o in cp.rules_rule(ctx, 'C10') if '/not-a-rule-list/' in o['key'] or '/lookup-key' in o['key'] or '/anchor' in o['key']]
    # the options are read-only while a sheet is compiled (wave 9; shared by C08, C09, C10, C17)
    obs += cp.options_untouched_rule(ctx, 'C10')
    # units are compared as written: the tokens reach the conversion routine as cssparser produced them (shared with C08.step)
    obs += [o for o in cp.step_rules(ctx, 'C10') if '/verbatim' in o['key'] or '/anchor' in o['key']]
    # every rewrite works on tokens: no source text is copied into the output (wave 10; shared by the stylesheet packs)
    obs += cp.tokens_only_rule(ctx, 'C10')
    obs += cp.state_counters_rule(ctx, 'C10')
    # every dimension of a block reaches the conversion: a block is processed up to its end (wave 11; shared with C08.ctx)
    obs += [o for o in cp.ctx_rule(ctx, 'C10') if '/to-the-end' in o['key']]
    return obs
