"""C08 - stylesheet output keeps the token stream and all meaningful whitespace (structural half)."""
import re
from rules import csspacks as cp

RULE = "C08.int/*/writer + C08.ser: integer numbers are written from their integer value with `+` iff has_sign and non-negative and `-0` kept; every other token kind is serialised by cssparser to_css. C08.step: skipping a comment consumes nothing else. C08.rules/lookup-key + not-a-rule-list: the rule-list table is consulted with the at-keyword itself and contains no declaration-block at-rule. C08.ctx: inside every dispatch loop except the declaration-value routine, nested-block arms (Function, ParenthesisBlock, SquareBracketBlock) descend with a selector-context routine unless the function is a math function; selector-context loops read whitespace tokens, set has_whitespace on them and re-emit one space before every token except `{` and whitespace itself. C08.rules: the set of at-rules whose block is parsed as a rule list contains the CSS reference set. C08.calc: +/- whitespace preservation is inherited by nested blocks and applies to every CSS math function. C08.txn: a try_parse closure that opened wrapper blocks closes them before failing. C08.pair/at-rule-stack + only/detection (shared with C17): the at-rule wrappers replayed for a low-priority rule are pushed and popped in pairs, and a rule is taken out of the normal stream only for an exact `:host` / `:host(`. C08.sep: every append goes through the serialising appenders, which apply cssparser's separator rule; C08.sep/adjacency: the blank between two tokens is decided from their serialization types AND from whether they touched in the source (a type-only decision is wrong for one of `a 1` / `U+0`), the exception covers signed numeric source tokens only (signed-only, source-tokens-only)."
EXPLANATION = ("The token-dispatch loops of the stylesheet compiler are located by role in the expanded syntax tree and their arms, "
               "flags and field writers (MIR) are checked against the rule; no stylesheet is ever transformed.")
ASSUMPTIONS = ["cssparser tokenises and serialises per CSS Syntax 3", "refs/css_refs.json lists rule-bearing at-rules and math functions correctly",
               "token-stream equality of concrete outputs is not decided"]


def run(ctx):
    obs, ok = cp.anchors(ctx, 'C08')
    if not ok:
        return obs
    obs += cp.ctx_rule(ctx, 'C08')
    obs += cp.rules_rule(ctx, 'C08')
    obs += cp.calc_rule(ctx, 'C08')
    obs += cp.txn_rule(ctx, 'C08')
    obs += cp.sep_rule(ctx, 'C08')
    obs += cp.separator_condition_rule(ctx, 'C08')
    obs += cp.capture_offsets_rule(ctx, 'C08')
    obs += cp.int_rule(ctx, 'C08', writer_only=True)
    obs += cp.step_rules(ctx, 'C08')
    # a rule replayed into the low-priority stream keeps its at-rule wrappers, and only a real `:host` / `:host(` is taken out of
    # the normal stream: otherwise tokens of the sheet are lost (shared with C17)
    obs += [o for o in cp.host_rules(ctx, 'C08') if re.search(r"\.pair/at-rule-stack|\.only/detection|\.pair/low-priority", o["key"])]
    # the options are read-only while a sheet is compiled (wave 9; shared by C08, C09, C10, C17)
    obs += cp.options_untouched_rule(ctx, 'C08')
    # class names are rewritten exactly in class positions when a prefix is configured (shared with C09)
    obs += [o for o in cp.class_only_rule(ctx, 'C08') if '.only/condition' in o['key']]
    # wave 10: an at-rule ends at its block or its `;` on every path through the prelude loop
    obs += cp.at_prelude_terminators_rule(ctx, 'C08')
    # an rpx length stays a dimension: the conversion builds its token only under the unit test, nothing else (shared with C10)
    obs += [o for o in cp.rpx_rules(ctx, 'C08') if '.expr/unit-test' in o['key']]
    # every rewrite works on tokens: no source text is copied into the output (wave 10; shared by the stylesheet packs)
    obs += cp.tokens_only_rule(ctx, 'C08')
    obs += cp.state_counters_rule(ctx, 'C08')
    return obs
