"""C01 - both compilers are total: no panic, abort, hang or runaway allocation (structural half)."""
import json, os, re
import sir
import progress

RULE = ("C01.progress: an abstract interpretation (advanced / input-known-non-empty per path, callee summaries to a least fixpoint) of "
        "every loop of the two parsers that touches the input cursor: each path to the back edge must have consumed input; loops whose "
        "argument needs character-level knowledge are in a reviewed table with structural side conditions that are re-checked. "
        "C01.leftrec: no cycle of parser functions re-enters itself without consuming. C01.panic: every potentially panicking construct "
        "in library code (panic!/unreachable!/todo!/unimplemented!, unwrap/expect, str/slice/Vec indexing, bounds/overflow/division "
        "asserts on non-cursor integers) enumerated from MIR must be in the reviewed table refs/panic_sites.json (key: function + kind, "
        "with count and reason); variants whose arms are todo!() are never constructed. C01.literal: literal accumulators cannot "
        "overflow and floats are displayed under a finiteness test (shared with C03). C01.guard: the parser flag that keeps the "
        "printer's panic arm unreachable is set wherever a wrapped concatenation is built.")
EXPLANATION = ("Loop progress and panic freedom are decided per loop / per potential panic site from the syntax tree and the resolved MIR "
               "of both crates, for all inputs at once; neither compiler is run. Polynomial bounds and third-party crates are not decided.")
ASSUMPTIONS = ["cssparser, regex, sourcemap, entities, compact_str do not panic or loop on any input", "recursion depth <= 64 (stack bound granted by the property)",
               "the reviewed tables (refs/panic_sites.json, reviewed loops) were confirmed by reading each site; a new site is reported, not assumed safe"]

REFS = os.path.join(os.path.dirname(os.path.dirname(os.path.abspath(__file__))), "refs")

# loops whose termination needs a character-level argument; each entry names the structural side conditions re-checked below
REVIEWED_LOOPS = {
    # function -> (calls the reviewed argument relies on, argument); the loop counts as reviewed while it still makes those calls
    "parse::tag::Template::parse": (frozenset(["Node::parse_vec_node", "skip_until_after"]),
                                    "parse_vec_node returns only at end of input or in front of `</`; the loop then consumes up to the next `>` (or everything)"),
    "parse::tag::Node::parse_vec_node": (frozenset(["Element::parse", "Value::parse_until_before", "consume_str"]),
                                         "the text arm stops in front of `<` + (`/` | `!` | tag start char), which are exactly the cases taken by the earlier arms, so it consumes at least one character"),
}


def progress_rule(ctx):
    ob = ctx.ob
    obs = []
    n_loops = 0
    for (idx, cfg, flt, label) in ((ctx.tc, progress.TEMPLATE, lambda f: "parse" in f.module, "template"), (ctx.sc, progress.CSS, lambda f: True, "css")):
        an = progress.Analyzer(idx, cfg, flt)
        an.compute_summaries()
        for r in an.check_loops():
            n_loops += 1
            f = r["fn"]
            key = "C01.progress/%s/%s#%d" % (label, f.qual, r["index"])
            if r["ok"]:
                obs.append(ob(key, True, ctx.where(f), "%s loop: every path to the back edge consumes input (calls: %s)" % (r["kind"], ", ".join(r["calls"])[:120])))
                continue
            rv = REVIEWED_LOOPS.get(f.qual)
            if rv and rv[0] <= frozenset(r["calls"]):
                obs.append(ob(key, True, ctx.where(f), "reviewed loop (side conditions checked separately): %s" % rv[1]))
                continue
            obs.append(ob(key, False, ctx.where(f),
                          "%s loop (expanded line %d) can reach its back edge without consuming input (states at the back edge (advanced, non-empty): %s; cursor calls: %s): it spins forever, pushing a diagnostic per iteration if it reports one" % (r["kind"], r["line"], r["back_states"], ", ".join(r["calls"])[:160]),
                          witness="an input that drives the loop down the non-consuming path, e.g. a character the inner scan stops at but the loop does not handle"))
        # left recursion
        obs += leftrec(ctx, an, label)
    if n_loops < 40:
        obs.append(ob("C01.floor/loops", False, "parse/*.rs, lib.rs", "only %d cursor loops analysed (floor 40)" % n_loops))
    obs += reviewed_side_conditions(ctx)
    return obs


def leftrec(ctx, an, label):
    """cycles in the graph `f calls g before having consumed anything`"""
    ob = ctx.ob
    edges = {}
    for f in an.fns:
        if not an.takes_cursor(f):
            continue
        an._edges = []
        an._record = None
        orig = an.apply_call

        def hook(n, states, branch=None, _orig=orig, _an=an):
            for g in _an.callee_fns(n):
                if any(not s.adv for s in states):
                    _an._edges.append(g.qual)
            return _orig(n, states, branch)
        an.apply_call = hook
        an.cur_fn = f   # calls through a local function value are resolved against the values the *enclosing* function names
        try:
            an._flow(f.body, [progress.St()], progress.Flow())
        finally:
            an.apply_call = orig
        edges[f.qual] = set(an._edges)
    # cycles via DFS
    cyc = []
    color = {}

    def dfs(u, stack):
        color[u] = 1
        for v in edges.get(u, ()):
            if v not in edges:
                continue
            if color.get(v) == 1:
                cyc.append(stack[stack.index(v):] + [v] if v in stack else [u, v])
            elif color.get(v) is None:
                dfs(v, stack + [v])
        color[u] = 2
    for u in sorted(edges):
        if color.get(u) is None:
            dfs(u, [u])
    n_edges = sum(len(v) for v in edges.values())
    if cyc:
        return [ob("C01.leftrec/%s/%s" % (label, "->".join(x.split("::")[-1] for x in c)), False, "parse/*.rs", "recursion cycle without consuming input: %s" % " -> ".join(c)) for c in cyc[:5]]
    return [ob("C01.leftrec/%s" % label, True, "parse/*.rs", "no cycle among %d functions / %d `calls before consuming` edges: every recursion consumes input first" % (len(edges), n_edges))]


def reviewed_side_conditions(ctx):
    ob = ctx.ob
    tc = ctx.tc
    obs = []
    pv = [f for f in tc.fns if f.name == "parse_vec_node" and f.body]
    tp = [f for f in tc.fns if f.base == "Template" and f.name == "parse" and f.body]
    if not pv or not tp:
        return [ob("C01.progress/reviewed/anchor", False, "parse/tag.rs", "parse_vec_node / Template::parse not found")]
    f = pv[0]
    import guards as G
    loops = [n for n in sir.walk(f.body) if n.get("k") in ("loop", "while")]
    ok = False
    handled = set()
    until = set()
    d = ""

    def is_end_test(c):
        return c.get("k") == "mcall" and c["m"] == "peek_str" and c["args"] and c["args"][0].get("v") == "</"

    def gtxt(g):
        kind, subj, pol = g
        if kind == "cond":
            return sir.expr_str(subj)
        if kind == "pat":
            return sir.expr_str(subj[0]) + " ~ " + subj[1]
        return sir.expr_str(subj)
    if loops:
        lp = loops[0]
        gs = G.guards_of(f.body)
        # the loop is left only where `ps.peek_str("</")` (or the end of input) has been seen: as the `while` condition, or as the
        # condition dominating every break / return of the body
        in_cond = lp.get("k") == "while" and any(is_end_test(x) for x in sir.walk(lp["cond"]))
        exits = [x for x in sir.walk(lp["body"], into_closures=False) if x.get("k") in ("break", "return")]
        exits_guarded = all(any(kind == "cond" and any(is_end_test(y) for y in sir.walk(subj)) for kind, subj, pol in gs.get(id(x), [])) for x in exits)
        first_ok = (in_cond or bool(exits)) and exits_guarded and (in_cond or any(is_end_test(y) for x in exits for kind, subj, pol in gs.get(id(x), []) if kind == "cond" for y in sir.walk(subj)))
        only_exit = exits_guarded
        if first_ok:
            handled.add("/")
        for x in sir.walk(lp["body"], into_closures=False):
            if x.get("k") == "mcall" and x["m"] == "consume_str" and x["args"] and x["args"][0].get("v") == "<!":
                handled.add("!")
            if x.get("k") == "call" and (sir.call_path(x) or "").endswith("Element::parse"):
                txt = " && ".join(gtxt(g) for g in gs.get(id(x), []))
                if "is_start_char" in txt and "'<'" in txt:
                    handled.add("@start")
        for c in sir.walk(lp["body"]):
            if c.get("k") == "call" and (sir.call_path(c) or "").endswith("Value::parse_until_before"):
                clo = [a_ for a_ in c["args"] if a_.get("k") == "closure"]
                if clo:
                    # characters / character classes the text scan stops in front of (after a `<`): everything the predicate compares
                    # the second character with
                    for x in sir.walk(clo[0]["body"]):
                        if x.get("k") == "binary" and x["op"] == "==":
                            for side, other in ((x["l"], x["r"]), (x["r"], x["l"])):
                                if side.get("k") == "lit" and side.get("t") == "char" and side["v"] != "<" and other.get("k") == "path":
                                    until.add(side["v"])
                        if x.get("k") == "p_lit" and x["e"].get("t") == "char" and x["e"]["v"] != "<":
                            until.add(x["e"]["v"])
                        if x.get("k") in ("call", "mcall") and x.get("args") and any(sir.strip_ref(a_).get("k") == "path" and len(sir.strip_ref(a_)["segs"]) == 1 for a_ in x["args"]) and x.get("k") == "call":
                            nm = (sir.call_name(x) or "?").split("::")[-1]
                            if nm not in ("Some",):
                                until.add("@start" if nm == "is_start_char" else "@" + nm)
                        if x.get("k") == "path" and x["segs"][-1] == "is_start_char":
                            until.add("@start")   # passed as a function value (`map_or(false, Ident::is_start_char)`)
                        if x.get("k") == "mcall" and x["recv"].get("k") == "path" and len(x["recv"]["segs"]) == 1 and x["recv"]["s"] not in ("ps",) and x["m"].startswith("is_"):
                            until.add("@ch." + x["m"])
        ok = first_ok and only_exit and until and until <= handled
        d = "loop is left only at `ps.ended() || ps.peek_str(\"</\")`: %s/%s; text stops in front of `<` + %s; earlier arms take `<` + %s" % (first_ok, only_exit, sorted(until), sorted(handled))
    obs.append(ob("C01.progress/reviewed/parse_vec_node", bool(ok), ctx.where(f), d,
                  witness=None if ok else "`<?` (or whatever the text arm newly stops at) is consumed by no arm: the node loop spins forever"))
    g = tp[0]
    wl = [n for n in sir.walk(g.body) if n.get("k") in ("while", "loop")]
    ok2 = False
    if wl:
        w = wl[0]
        gs2 = G.guards_of(g.body)
        # the skip must really consume: not inside a closure (a `try_parse` look-ahead is rolled back when it fails)
        skips = [x for x in sir.walk(w["body"], into_closures=False) if x.get("k") == "mcall" and x["m"] == "skip_until_after" and x["args"] and x["args"][0].get("v") == ">"]
        answered = any(any(kind == "cond" and pol and any(is_end_test(y) for y in sir.walk(subj)) for kind, subj, pol in gs2.get(id(x), [])) for x in skips)
        runs_to_end = any(x.get("k") == "mcall" and x["m"] == "ended" for x in sir.walk(w["cond"])) if w.get("k") == "while" else \
            any(any(kind == "cond" and any(y.get("k") == "mcall" and y["m"] == "ended" for y in sir.walk(subj)) for kind, subj, pol in gs2.get(id(x), []))
                for x in sir.walk(w["body"], into_closures=False) if x.get("k") in ("break", "return"))
        ok2 = runs_to_end and answered
    obs.append(ob("C01.progress/reviewed/Template::parse", ok2, ctx.where(g), "top loop runs until `ps.ended()` and answers a stray `</` by skipping past the next `>`: %s" % ok2))
    # skip_until_after consumes everything when the needle is missing
    sb = [f2 for f2 in tc.fns if f2.name == "skip_until_before" and f2.base == "ParseState" and f2.body]
    ok3 = False
    if sb:
        # abstract outcomes: when the needle is found the cursor moves by its index, otherwise by the whole rest of the input
        import absint as ai

        def hooks3(it, e, st):
            if e.get("k") == "mcall" and e["m"] == "find" and len(e["args"]) == 1:
                return [(("Some", "IDX"), st.event(("found", True))), (ai.NONE, st.event(("found", False)))]
            if e.get("k") == "mcall" and e["m"] == "len" and not e["args"]:
                return [("LEN", st)]
            if e.get("k") == "mcall" and e["m"] == "skip_bytes" and len(e["args"]) == 1:
                vs = [o.value for o in it.ev(e["args"][0], st) if o.kind == "val"]
                return [(ai.UNIT, st.event(("skip", vs[0] if len(vs) == 1 else ai.UNK)))]
            return None
        it3 = ai.Interp(hooks=hooks3, idx=tc)
        try:
            outs3 = it3.run(sb[0].body, {"self": ai.FREE, "until": ai.FREE})
        except ai.TooManyPaths:
            outs3 = []
        ok3 = bool(outs3)
        for o in outs3:
            found = [ev[1] for ev in o.events if ev[0] == "found"]
            skips = [ev[1] for ev in o.events if ev[0] == "skip"]
            if len(found) != 1 or skips != (["IDX"] if found[0] else ["LEN"]):
                ok3 = None if (o.tainted or any(ai.is_unknown(x) for x in skips)) and ok3 is not False else False
    obs.append(ob("C01.progress/reviewed/skip_until", ok3, "parse/mod.rs", "skip_until_before moves to the needle or to the end of the input: %s" % ok3))
    return obs


# ------------------------------------------------------------------ panic sites

def panic_sites(mir):
    sites = {}
    for b in mir.bodies:
        root = b["root"]
        if re.search(r"(^|::|<)(main|cbinding|js_bindings)(::|$)", root) or "js_bindings" in root or "cbinding" in root:
            continue
        if root.startswith("<") and " as std::fmt::" in root:
            continue
        crate = "template" if "template" in b["crate"] else "stylesheet"
        for c in b["calls"]:
            g = sir.norm_mir_name(c["callee"])
            cat = None
            if re.search(r"panicking::|begin_panic|rt::panic", g):
                cat = "panic"
            elif re.search(r"Option::unwrap$|Result::unwrap$|::expect$|unwrap_failed|expect_failed", g):
                cat = "unwrap"
                a0 = (c.get("argtys") or [""])[0]
                if re.fullmatch(r"(std|core)::result::Result<\(\), (std|core)::fmt::Error>", a0):
                    cat = "unwrap:fmt"  # result of formatting into the crate's own String sinks
            elif re.search(r"num::<impl [iu](8|16|32|64|128|size)>::(abs|pow|div_euclid|rem_euclid|next_power_of_two|ilog2?|ilog10|isqrt|strict_\w+)$", c["callee"]):
                cat = "intpanic:" + g.split("::")[-1]
            elif re.search(r"Index(Mut)?::index(_mut)?$|::index$|::index_mut$", g):
                t = (c["argtys"][0] if c["argtys"] else "?")
                t = re.sub(r"<.*", "", t.replace("&mut ", "").replace("&", ""))
                cat = "index:" + t.split("::")[-1]
            if cat:
                sites.setdefault((crate, root, cat), []).append(c["span"])
        for a in b["asserts"]:
            k = a["kind"].split("(")[0].split(" ")[0]
            m = re.search(r":: (\w+)$", a["kind"])
            ty = m.group(1) if m else ""
            if k in ("MisalignedPointerDereference", "NullPointerDereference"):
                continue
            if k == "Overflow" and ty in ("usize", "u32", "u64"):
                continue  # cursor / counter arithmetic bounded by the u32::MAX truncation of the input
            sites.setdefault((crate, root, "assert:%s%s" % (k, (":" + ty) if ty else "")), []).append(a["span"])
    return sites


def covered_unreachables(tc):
    """{fn qual: n} - `_ => unreachable!()` arms of an inner match that sits in an arm of an outer match over the same value, where
    the inner arms list every variant the outer arm admits: such an arm cannot be taken (discharged mechanically, not by the table)"""
    out = {}
    for f in tc.fns:
        if not f.body:
            continue
        pm = None
        for m in sir.walk(f.body):
            if m.get("k") != "match":
                continue
            wild = [a for a in m["arms"] if a["pat"].get("k") == "p_wild" and any(sir.is_panic_node(x) for x in sir.walk(a["body"]))]
            if not wild:
                continue
            inner_vs = set(v for a in m["arms"] if a["pat"].get("k") != "p_wild" for v in sir.pat_variants(a["pat"]))
            if not inner_vs:
                continue
            if pm is None:
                pm = sir.parent_map(f.body)
            scr = sir.expr_str(sir.strip_ref(m["e"]))
            cur = m
            ok = False
            while id(cur) in pm and not ok:
                par = pm[id(cur)]
                if par.get("k") == "arm":
                    outer = pm.get(id(par))
                    if outer is not None and outer.get("k") == "match" and sir.expr_str(sir.strip_ref(outer["e"])) == scr:
                        outer_vs = set(sir.pat_variants(par["pat"]))
                        if outer_vs and outer_vs <= inner_vs:
                            ok = True
                cur = par
            if ok:
                # MIR names a method either with or without its impl type: register both spellings
                for q in {f.qual, "::".join(list(f.module) + [f.name])}:
                    out[q] = out.get(q, 0) + len(wild)
    return out


def boundary_safe_slices(tc):
    """{fn qual: n} - string slices `s[..n]` / `s[n..]` whose bound is a local taken from `s.find(..)` / `s.rfind(..)` / `s.len()`
    (optionally `.unwrap_or(s.len())`): such an index is in range and on a character boundary of `s` by construction"""
    out = {}

    def len_getter(name, base):
        """a zero-argument method whose whole body is `<base>.len()`"""
        for g in tc.fns:
            if g.name == name and g.body and len(g.params) == 1 and g.params[0].get("self") and len(g.body["stmts"]) == 1:
                st = g.body["stmts"][0]
                if st.get("k") == "expr" and not st.get("semi") and sir.expr_str(st["e"]).replace(" ", "") == base + ".len()":
                    return True
        return False

    def locals_of(f):
        locs = {}
        for n in sir.walk(f.body):
            if n.get("k") == "local" and n["pat"].get("k") == "p_ident" and n.get("init") is not None:
                locs.setdefault(n["pat"]["name"], n["init"])
        return locs

    for f in tc.fns:
        if not f.body:
            continue
        locs = locals_of(f)

        def origin_ok(b, base, f=f, locs=locs, depth=0):
            if b is None:
                return True
            b = sir.strip_ref(b)
            if b.get("k") == "path" and len(b["segs"]) == 1 and b["segs"][0] in locs:
                e = locs[b["segs"][0]]
            elif (b.get("k") == "path" and len(b["segs"]) == 1 and b["segs"][0] in f.param_names() and base.startswith("self.")
                  and f.base and f.node.get("vis", "") in ("", "pub(crate)", "pub(super)", "pub(self)") and depth == 0):
                # a bound handed in by the callers of a private method: every caller passes an offset taken from the same field
                pi = f.param_names().index(b["segs"][0]) - 1
                sites = []
                for g in tc.fns:
                    if not g.body or g.base != f.base:
                        continue
                    for c in sir.walk(g.body):
                        if c.get("k") == "mcall" and c["m"] == f.name and sir.expr_str(c["recv"]) == "self" and len(c["args"]) > pi:
                            sites.append((g, c["args"][pi]))
                return bool(sites) and all(origin_ok(a, base, g, locals_of(g), 1) for g, a in sites)
            else:
                e = b
            if e.get("k") == "mcall" and not e["args"] and sir.expr_str(e["recv"]) == "self" and base.startswith("self.") and len_getter(e["m"], base):
                return True
            # strip `.unwrap_or(base.len())`
            if e.get("k") == "mcall" and e["m"] in ("unwrap_or", "unwrap_or_else") and e["args"]:
                dflt = sir.expr_str(e["args"][0]).replace(" ", "")
                if dflt not in ("%s.len()" % base, "||%s.len()" % base, "0"):
                    return False
                e = e["recv"]
            if e.get("k") == "mcall" and e["m"] in ("find", "rfind", "len") and sir.expr_str(sir.strip_ref(e["recv"])).replace(" ", "") == base:
                return True
            return False
        k = 0
        for n in sir.walk(f.body):
            if n.get("k") == "index" and n["idx"].get("k") == "range":
                base = sir.expr_str(sir.strip_ref(n["base"])).replace(" ", "")
                fr, to = n["idx"].get("from"), n["idx"].get("to")
                if (fr is not None or to is not None) and origin_ok(fr, base) and origin_ok(to, base):
                    k += 1
        if k:
            for q in {f.qual, "::".join(list(f.module) + [f.name])}:
                out[q] = k
    return out


def peeked_next_unwraps(tc):
    """{fn qual: n} - `ps.next().unwrap()` sites where the cursor call that textually precedes it is a look-ahead that is known to
    have found a character (`ps.peek()?`, `let Some(..) = ps.peek() else ..`, `while ps.peek().map_or(false, ..)`, ..): the
    character is still there"""
    out = {}
    CUR = ("peek", "peek_n", "peek_str", "peek_chars", "next", "skip_bytes", "skip_whitespace", "skip_whitespace_with_js_comments", "consume_str",
           "consume_str_except_followed", "consume_str_except_followed_char", "skip_until_before", "skip_until_after", "next_char_as_str", "try_parse")
    for f in tc.fns:
        if not f.body or "parse" not in f.module:
            continue
        order = list(sir.walk(f.body))
        pm = None
        cur = [(i, n) for i, n in enumerate(order) if n.get("k") == "mcall" and n["m"] in CUR and n["recv"].get("k") == "path" and n["recv"]["segs"] in (["ps"], ["self"])]
        k = 0
        for j, (i, n) in enumerate(cur):
            if n["m"] != "next" or j == 0:
                continue
            pm = pm or sir.parent_map(f.body)
            par = pm.get(id(n))
            if not (par is not None and par.get("k") == "mcall" and par["m"] in ("unwrap", "expect") and par["recv"] is n):
                continue
            prev = cur[j - 1][1]
            if not prev["m"].startswith("peek"):
                continue
            # the look-ahead is known to have succeeded
            a, okp = prev, False
            for _ in range(4):
                a_par = pm.get(id(a))
                if a_par is None:
                    break
                kk = a_par.get("k")
                if kk == "try" or (kk == "let" and "Some" in sir.pat_str(a_par["pat"])) or (kk == "local" and a_par.get("else") is not None and "Some" in sir.pat_str(a_par["pat"])):
                    okp = True
                if kk == "mcall" and a_par["m"] in ("map_or", "is_some_and") and (a_par["m"] == "is_some_and" or (a_par["args"] and a_par["args"][0].get("v") is False)):
                    okp = True
                if kk == "binary" and a_par["op"] == "==" and any(sir.expr_str(x).startswith("Some(") for x in (a_par["l"], a_par["r"])):
                    okp = True
                if kk == "match" and a_par["e"] is a:
                    okp = any("Some" in sir.pat_str(arm["pat"]) and any(x is n for x in sir.walk(arm["body"])) for arm in a_par["arms"])
                a = a_par
            if okp:
                k += 1
        if k:
            for q in {f.qual, "::".join(list(f.module) + [f.name])}:
                out[q] = k
    return out


def classified_sites(ctx):
    """potential panic sites per (crate, function, kind), after the mechanical discharges (covered unreachable arms, boundary-safe slices)"""
    sites = panic_sites(ctx.mir)
    cov = {}
    for idx_, cname in ((ctx.tc, "template"), (ctx.sc_raw, "stylesheet")):
        for q, n_ in covered_unreachables(idx_).items():
            cov[(cname, q)] = n_
    for (crate, root, cat) in list(sites):
        if cat == "panic" and cov.get((crate, root)):
            n_ = min(cov[(crate, root)], len(sites[(crate, root, cat)]))
            sites[(crate, root, "panic:covered")] = sites[(crate, root, cat)][:n_]
            sites[(crate, root, cat)] = sites[(crate, root, cat)][n_:]
            if not sites[(crate, root, cat)]:
                del sites[(crate, root, cat)]
    for q, n_ in peeked_next_unwraps(ctx.tc).items():
        key_ = ("template", q, "unwrap")
        if key_ in sites and n_ > 0:
            take = min(n_, len(sites[key_]))
            sites[("template", q, "unwrap:peeked")] = sites[key_][:take]
            sites[key_] = sites[key_][take:]
            if not sites[key_]:
                del sites[key_]
    for idx_, cname in ((ctx.tc, "template"), (ctx.sc_raw, "stylesheet")):      # as written: MIR sites are keyed by the function they live in
        for q, n_ in boundary_safe_slices(idx_).items():
            for cat in ("index:str", "index:String"):
                key_ = (cname, q, cat)
                if key_ in sites and n_ > 0:
                    take = min(n_, len(sites[key_]))
                    sites[(cname, q, "index:boundary")] = sites.get((cname, q, "index:boundary"), []) + sites[key_][:take]
                    sites[key_] = sites[key_][take:]
                    n_ -= take
                    if not sites[key_]:
                        del sites[key_]
    return sites


def panic_rule(ctx):
    ob = ctx.ob
    obs = []
    table = json.load(open(os.path.join(REFS, "panic_sites.json")))["sites"]
    reviewed = {(r["crate"], r["fn"], r["kind"]): r for r in table}
    sites = classified_sites(ctx)
    total = 0
    # A site that moves between functions (a helper is extracted or inlined) is not a new way to panic: the reviewed table is
    # compared per (crate, kind) over the whole crate first, and per function only to say where a surplus appeared.
    now_tot, rev_tot = {}, {}
    for (crate, root, cat), spans in sites.items():
        if cat not in ("unwrap:fmt", "panic:covered", "index:boundary", "unwrap:peeked"):
            now_tot[(crate, cat)] = now_tot.get((crate, cat), 0) + len(spans)
    for r in table:
        rev_tot[(r["crate"], r["kind"])] = rev_tot.get((r["crate"], r["kind"]), 0) + r["count"]
    # unwraps of fmt results used to be counted under `unwrap` in the reviewed table
    fmt_now = {}
    for (crate, root, cat), spans in sites.items():
        if cat == "unwrap:fmt":
            fmt_now[crate] = fmt_now.get(crate, 0) + len(spans)
    for (crate, root, cat), spans in sorted(sites.items()):
        total += len(spans)
        key = "C01.panic/%s/%s/%s" % (crate, root, cat)
        if cat == "index:boundary":
            obs.append(ob(key, True, spans[0], "%d string slice(s) bounded by `find`/`rfind`/`len` of the same string: in range and on a character boundary by construction" % len(spans)))
            continue
        if cat == "unwrap:peeked":
            obs.append(ob(key, True, spans[0], "%d `ps.next().unwrap()` directly behind a look-ahead that found a character: the character is still there" % len(spans)))
            continue
        if cat == "panic:covered":
            obs.append(ob(key, True, spans[0], "%d `_ => unreachable!()` arm(s) of an inner match whose other arms list every variant the enclosing arm admits (cannot be taken)" % len(spans)))
            continue
        if cat == "unwrap:fmt":
            obs.append(ob(key, True, spans[0], "%d unwrap(s) of a `fmt::Result`: the writers of both crates format into `String` buffers, whose `fmt::Write` never fails (discharged by type, not by count)" % len(spans)))
            continue
        r = reviewed.get((crate, root, cat))
        surplus = now_tot.get((crate, cat), 0) - rev_tot.get((crate, cat), 0)
        if r is not None and len(spans) <= r["count"]:
            obs.append(ob(key, True, spans[0], "%d site(s), reviewed: %s" % (len(spans), r["why"])))
        elif surplus <= 0 and rev_tot.get((crate, cat), 0) > 0:
            obs.append(ob(key, True, spans[0], "%d site(s) of kind `%s` here%s; the crate as a whole has %d, not more than the %d that were reviewed: sites have moved between functions, none was added" % (
                len(spans), cat, (" (%d reviewed in this function)" % r["count"]) if r else " (function not in the reviewed table)", now_tot.get((crate, cat), 0), rev_tot.get((crate, cat), 0))))
        elif r is None:
            obs.append(ob(key, False, spans[0], "%d potential panic site(s) of kind `%s` in a function that has no reviewed entry for it, and the crate now has %d more of this kind than were reviewed: %s" % (len(spans), cat, surplus, [s.split("/")[-1] for s in spans][:4]),
                          witness="whatever input reaches this site with the failing value (None / out-of-range index / overflow)"))
        else:
            obs.append(ob(key, False, spans[0], "%d sites of kind `%s`, %d were reviewed (%s) and the crate now has %d more of this kind than were reviewed: a new one appeared at one of %s" % (len(spans), cat, r["count"], r["why"], surplus, [s.split("/")[-1] for s in spans][:6])))
    if total < 100:
        obs.append(ob("C01.floor/panic-sites", False, "mir", "only %d potential panic sites enumerated (floor 100): extraction incomplete" % total))
    # todo!()/unimplemented!() arms belong to variants that are never constructed
    tc = ctx.tc
    for en, var in (("ClassAttribute", "Multiple"), ("StyleAttribute", "Multiple")):
        built = []
        for f in tc.fns:
            if not f.body or (f.trait and f.trait.split("::")[-1] in ("Clone", "Debug")):
                continue
            for n in sir.walk(f.body):
                if n.get("k") == "call" and (sir.call_path(n) or "").endswith("%s::%s" % (en, var)):
                    built.append(f.qual)
                if n.get("k") == "struct" and n["path"].endswith("%s::%s" % (en, var)):
                    built.append(f.qual)
        obs.append(ob("C01.panic/never-constructed/%s::%s" % (en, var), not built, "parse/tag.rs", "variant %s::%s (whose arms are todo!/unimplemented!) is constructed in %s" % (en, var, built or "no function")))
    return obs


# ------------------------------------------------------------------ side conditions of reviewed panic sites

SIDE_EXCEPTIONS = {
    ("parse::tag::Element::parse", "wrapped_element"): "`wrapped_element` is None only for the kinds that the match on `for_list`/`if_condition` above maps to themselves; reviewed (refs/panic_sites.json)",
    ("parse::tag::Element::parse", "attr.prefix_location"): "slot value refs are only created from `slot:` attributes, whose prefix location is always recorded; reviewed",
}


def _conjuncts(c):
    if c.get("k") == "binary" and c.get("op") == "&&":
        return _conjuncts(c["l"]) + _conjuncts(c["r"])
    if c.get("k") == "paren":
        return _conjuncts(c["e"])
    return [c]


def _disjuncts(c):
    if c.get("k") == "binary" and c.get("op") == "||":
        return _disjuncts(c["l"]) + _disjuncts(c["r"])
    return [c]


def unreachable_dispatch_rule(ctx, key):
    """parse_at_rule: the `_ => unreachable!()` dispatch on the import condition name is guarded by a test of the same names"""
    ob = ctx.ob
    obs = []
    pa = [g for g in ctx.sc.fns if g.name == "parse_at_rule" and g.body]
    if pa:
        g = pa[0]
        found = False
        for m in sir.walk(g.body):
            if m.get("k") != "match" or not any(a["pat"].get("k") == "p_wild" and any(sir.is_panic_node(x) for x in sir.walk(a["body"])) for a in m["arms"]):
                continue
            lits = sorted(a["pat"]["e"]["v"] for a in m["arms"] if a["pat"].get("k") == "p_lit")
            if not lits:
                continue
            found = True
            scr = sir.expr_str(m["e"])
            guard_ok = False
            for x in sir.walk(g.body):
                if x.get("k") == "if" and x["cond"].get("k") == "unary" and x["cond"].get("op") == "!":
                    c = x["cond"]["e"]
                    glits = None
                    if c.get("k") == "mac" and c.get("name") == "matches" and c.get("e") is not None and sir.expr_str(c["e"]) == scr and c.get("pat") is not None:
                        glits = sorted(t["e"]["v"] for t in sir.walk(c["pat"]) if t.get("k") == "p_lit")
                    elif c.get("k") == "match" and sir.expr_str(c["e"]) == scr:
                        glits = sorted(t["e"]["v"] for a in c["arms"] for t in sir.walk(a["pat"]) if t.get("k") == "p_lit")
                    if glits == lits and any(y.get("k") in ("break", "return", "continue") for y in sir.walk(x["then"], into_closures=False)):
                        guard_ok = True
            obs.append(ob(key + "/" + "+".join(lits), guard_ok, ctx.where(g), "the dispatch on `%s` over %s ends in unreachable!(); it is preceded by a diverging test of exactly those spellings: %s" % (scr, lits, guard_ok),
                          witness=None if guard_ok else "`@import './a' LAYER(base);` passes a relaxed guard and reaches unreachable!()"))
        if not found:
            obs.append(ob(key, True, ctx.where(g), "parse_at_rule has no dispatch that ends in unreachable!(): nothing to guard"))
    return obs


def child_once_rule(ctx, key):
    """a function that walks the expression tree through the generic child iterator visits every child once: a second recursive
    call on a child next to that loop doubles the work per level (2^depth on a member chain)"""
    ob = ctx.ob
    obs = []
    twice = []
    n_walk = 0
    for g in ctx.tc.fns:
        if not g.body:
            continue
        loops = [n for n in sir.walk(g.body) if n.get("k") == "for" and re.search(r"\bsub_expressions(_mut)?\(\)", sir.expr_str(n["e"]).replace(" ", ""))
                 and any(x.get("k") == "mcall" and x["m"] == g.name for x in sir.walk(n["body"]))]
        if not loops:
            continue
        n_walk += 1
        inside = set(id(x) for l_ in loops for x in sir.walk(l_))
        extra = [x for x in sir.walk(g.body, into_closures=True) if x.get("k") == "mcall" and x["m"] == g.name and id(x) not in inside and sir.expr_str(x["recv"]) not in ("self",)]
        if extra:
            twice.append("%s calls itself on `%s` and again for every child" % (g.qual.split("::")[-1], sir.expr_str(extra[0]["recv"])[:30]))
    obs.append(ob(key, False if twice else True if n_walk >= 2 else None, "parse/expr.rs", "; ".join(twice[:2]) if twice else "%d generic tree walks, each recursing only through the child iterator" % n_walk,
                  witness=None if not twice else "<a wx:if=\"{{ a.b.c.d. .. (40 members) }}\"/> takes 2^40 steps to parse"))
    return obs


def for_wrap_rule(ctx):
    """`wrapped_element.unwrap()` in the wx:for wrapping of Element::parse: with a for-list present the branch classification can
    only be `None` or `If`, and those are exactly the arms of the wx:if wrapping that always hand an element on.  The
    classification is tabulated by abstract interpretation over (allow_for_if, for-list present, wx:if / wx:elif / wx:else
    present)."""
    import absint as ai
    ob = ctx.ob
    tc = ctx.tc
    ep = [g for g in tc.fns if g.base == "Element" and g.name == "parse" and g.body]
    if not ep:
        return []
    g = ep[0]
    where = ctx.where(g)
    decl = [n for n in sir.walk(g.node, into_items=True) if n.get("k") == "local" and n["pat"].get("name") == "if_condition" and n.get("init") is not None]
    wrap = [n for n in sir.walk(g.node, into_items=True) if n.get("k") == "match" and sir.expr_str(sir.strip_ref(n["e"])) == "if_condition"]
    unwraps = [n for n in sir.walk(g.node, into_items=True) if n.get("k") == "mcall" and n["m"] in ("unwrap", "expect") and sir.expr_str(n["recv"]) == "wrapped_element"]
    if not unwraps:
        return [ob("C01.panic/side/for-wrap", True, where, "the wx:for wrapping does not unwrap the element handed on by the wx:if wrapping")]
    if len(decl) != 1 or len(wrap) != 1:
        return [ob("C01.panic/side/for-wrap", None, where, "the branch classification / wx:if wrapping is not in a form this rule reads")]

    def hooks(it, e, st):
        if e.get("k") == "mcall" and e["m"].startswith("add_warning"):
            return [(ai.UNIT, st)]
        return None
    F = ai.FREE
    under_for = set()
    und = False
    for allow in (True, False):
        for wi in (("Some", ("T", (F, F))), ai.NONE):
            for we in (("Some", ("T", (F, F))), ai.NONE):
                for wl in (("Some", F), ai.NONE):
                    env = {"allow_for_if": allow, "for_list": ("E", "For", (("list", F),)), "wx_if": wi, "wx_elif": we, "wx_else": wl, "ps": F}
                    try:
                        outs = ai.Interp(hooks=hooks, idx=tc).run(decl[0]["init"], env)
                    except ai.TooManyPaths:
                        outs = []
                    if not outs:
                        und = True
                    for o in outs:
                        v = o.value
                        if isinstance(v, tuple) and v[:1] == ("E",) and not o.tainted:
                            under_for.add(v[1])
                        else:
                            und = True
    # arms of the wx:if wrapping that always yield Some(..)
    always = set()
    for a in wrap[0]["arms"]:
        leaves = []

        def collect(e_):
            while e_.get("k") == "block" and e_["stmts"]:
                l_ = e_["stmts"][-1]
                e_ = l_["e"] if l_.get("k") == "expr" else l_
            if e_.get("k") == "match":
                for a_ in e_["arms"]:
                    collect(a_["body"])
            elif e_.get("k") == "if" and e_.get("else") is not None:
                collect(e_["then"])
                collect(e_["else"])
            else:
                leaves.append(e_)
        collect(a["body"])
        if leaves and all(l_.get("k") == "call" and sir.call_name(l_) == "Some" for l_ in leaves):
            always |= set(sir.pat_variants(a["pat"]))
    if und:
        return [ob("C01.panic/side/for-wrap", None, where, "the branch classification depends on a construct outside the interpreted fragment")]
    bad = sorted(under_for - always)
    return [ob("C01.panic/side/for-wrap", not bad, where, "with a wx:for list the branch classification is one of %s; the wx:if wrapping always hands an element on for %s" % (sorted(under_for), sorted(always)) if not bad
               else "with a wx:for list the element can be classified as %s, for which the wx:if wrapping may hand on nothing: `wrapped_element.unwrap()` panics" % bad,
               witness=None if not bad else "<a wx:if=\"{{x}}\"/><b wx:for=\"{{l}}\" wx:elif=\"{{y}}\"/>")]


def side_conditions_rule(ctx):
    """the guards that the reviewed table relies on are re-established mechanically on every run"""
    ob = ctx.ob
    obs = []
    n_guarded = 0
    for idx in (ctx.tc, ctx.sc):
        for f in idx.fns:
            if not f.body or any(m in ("js_bindings", "cbinding") for m in f.module):
                continue
            pm = None
            for n in sir.walk(f.body):
                if not (n.get("k") == "mcall" and n["m"] in ("unwrap", "expect")):
                    continue
                r = n["recv"]
                while r.get("k") == "mcall" and r["m"] in ("as_ref", "as_mut", "clone", "as_deref", "as_deref_mut") and not r["args"]:
                    r = r["recv"]
                if r.get("k") not in ("path", "field"):
                    continue
                if r.get("k") == "path" and len(r["segs"]) != 1:
                    continue
                place = sir.expr_str(r).replace(" ", "")
                if pm is None:
                    pm = sir.parent_map(f.body)
                how = None
                cur = n
                while id(cur) in pm and how is None:
                    par = pm[id(cur)]
                    if par.get("k") == "if":
                        if par.get("then") is cur and any(sir.expr_str(c).replace(" ", "") == place + ".is_some()" for c in _conjuncts(par["cond"])):
                            how = "inside `if .. %s.is_some()`" % place
                        if par.get("else") is cur and any(sir.expr_str(c).replace(" ", "") == place + ".is_none()" for c in _disjuncts(par["cond"])):
                            how = "in the else branch of `if %s.is_none()`" % place
                    if par.get("k") == "block" and how is None:
                        # `if P.is_none() { P = Some(..); }` directly before the statement that unwraps
                        i = [k for k, st in enumerate(par["stmts"]) if st is cur]
                        if i and i[0] > 0:
                            prev = par["stmts"][i[0] - 1]
                            e = prev.get("e") if prev.get("k") == "expr" else prev
                            if e is not None and e.get("k") == "if" and sir.expr_str(e["cond"]).replace(" ", "") == place + ".is_none()" and \
                                    any(x.get("k") == "assign" and sir.expr_str(x["l"]).replace(" ", "") == place and sir.expr_str(x["r"]).startswith("Some(") for x in sir.walk(e["then"])):
                                how = "set to Some(..) by the statement before when it was None"
                    cur = par
                key = "C01.panic/side/unwrap/%s/%s" % (f.qual, place)
                if how is None and (f.qual, place) in SIDE_EXCEPTIONS:
                    obs.append(ob(key, True, ctx.where(f), "reviewed exception: " + SIDE_EXCEPTIONS[(f.qual, place)]))
                    continue
                if how:
                    n_guarded += 1
                obs.append(ob(key, how is not None, ctx.where(f), "`%s.unwrap()` is %s" % (place, how) if how else "`%s.unwrap()` is not dominated by a test that `%s` is Some" % (place, place),
                              witness=None if how else "any input reaching this statement with `%s` unset panics" % place))
    # (no floor here: fewer unwraps is not a defect)
    # entities::decode slices the entity text by bytes: the scanner must only let ASCII through
    pe = [g for g in ctx.tc.fns if g.name == "parse_next_entity" and g.body]
    if pe:
        g = pe[0]
        probs = []
        n_arms = 0
        for m in sir.walk_reach(ctx.tc, g, 2):
            if m.get("k") != "match":
                continue
            for a in m["arms"]:
                b = a["body"]
                cont = b.get("k") == "block" and not b["stmts"]
                if not cont:
                    continue
                n_arms += 1
                pats = a["pat"]["cases"] if a["pat"].get("k") == "p_or" else [a["pat"]]
                g_ = a.get("guard")
                if g_ is not None and all(p_.get("k") in ("p_ident", "p_ts") for p_ in pats):
                    # `ch if ch.is_ascii_alphabetic()` / `Some(ch) if is_digit(ch)` with ASCII-only predicates at every call site
                    def ascii_pred(e):
                        e = sir.strip_ref(e)
                        if e.get("k") == "mcall" and e["m"] == "is_digit" and len(e["args"]) == 1:
                            return True   # char::is_digit(radix) = to_digit(radix).is_some(): ASCII digits and letters only, whatever the radix
                        return e.get("k") == "mcall" and e["m"] in ("is_ascii_hexdigit", "is_ascii_digit", "is_ascii_alphabetic", "is_ascii_alphanumeric") and not e["args"]
                    okg = ascii_pred(g_)
                    if not okg and g_.get("k") == "call" and g_["f"].get("k") == "path" and len(g_["f"]["segs"]) == 1:
                        # a predicate parameter: every closure passed for it must be an ASCII predicate
                        owner = [h for h in ctx.tc.fns if h.body and any(x is a for x in sir.walk(h.body))]
                        if owner:
                            pn = owner[0].param_names()
                            if g_["f"]["segs"][0] in pn:
                                pi = pn.index(g_["f"]["segs"][0])
                                sites = [c for h in ctx.tc.fns if h.body for c in sir.walk(h.body) if c.get("k") == "call" and sir.call_name(c) == owner[0].name and len(c["args"]) == len(pn)]
                                okg = bool(sites) and all(c["args"][pi].get("k") == "closure" and ascii_pred(c["args"][pi]["body"]) for c in sites)
                    if okg:
                        continue
                for pt_ in pats:
                    okp = False
                    if pt_.get("k") == "p_range" and pt_.get("lo") and pt_.get("hi"):
                        okp = all(isinstance(x.get("v"), str) and len(x["v"]) == 1 and ord(x["v"]) < 128 for x in (pt_["lo"], pt_["hi"]))
                    elif pt_.get("k") == "p_lit":
                        v = pt_["e"].get("v")
                        okp = isinstance(v, str) and len(v) == 1 and ord(v) < 128
                    if not okp or a.get("guard") is not None:
                        probs.append("the scanner continues on `%s`%s, which is not a set of ASCII characters" % (sir.pat_str(pt_), " if <guard>" if a.get("guard") is not None else ""))
        obs.append(ob("C01.panic/side/entity-ascii", n_arms >= 1 and not probs, ctx.where(g), "; ".join(sorted(set(probs))) if probs else "%d continue-arms of the entity scanner accept ASCII letters/digits only" % n_arms,
                      witness=None if not probs else "`&a\u00e9;` reaches a byte slice inside a character in entities::decode"))
    obs += unreachable_dispatch_rule(ctx, "C01.panic/side/unreachable-dispatch")
    # get_var_name: every table is indexed modulo its own length
    gv = [g for g in ctx.tc.fns if g.name == "get_var_name" and g.body]
    if gv:
        g = gv[0]
        idxs = [n for n in sir.walk(g.body) if n.get("k") == "index"]
        probs = []
        for n in idxs:
            base = sir.expr_str(n["base"])
            ix = n["idx"]
            ok1 = ix.get("k") == "binary" and ix.get("op") == "%" and sir.expr_str(ix["r"]).replace(" ", "") == base + ".len()"
            if not ok1:
                probs.append("`%s[%s]`: the index is not reduced modulo `%s.len()`" % (base, sir.expr_str(ix), base))
        obs.append(ob("C01.panic/side/table-index", bool(idxs) and not probs, ctx.where(g), "; ".join(probs) if probs else "%d table lookups, each `T[i %% T.len()]` with the same table" % len(idxs),
                      witness=None if not probs else "a template with about 1900 bound elements indexes past the end of the shorter table"))
    # scopes[index] in the generator relies on the parser's and the generator's scope stacks being mirrored (C05.mirror)
    # the `_ => unreachable!()` of the HTML escapers is dead only while every character of the regex class has an arm (C14.escape)
    try:
        from rules.c14 import escape_rules
        for x in escape_rules(ctx):
            if re.search(r"C14\.escape/escape_html_(body|quote)$", x["key"]):
                x = dict(x)
                x["key"] = x["key"].replace("C14.escape", "C01.panic/side/escaper-arms")
                obs.append(x)
    except ImportError:
        pass
    # `name.strip_prefix(P).unwrap()` behind an enum tag: the tag is assigned only where `name.starts_with(P)` was tested on the
    # name itself
    import guards as G
    for g in ctx.tc.fns:
        if not g.body or g.module[:1] != ["parse"]:
            continue
        gs = None
        for n in sir.walk(g.node, into_items=True):
            if not (n.get("k") == "mcall" and n["m"] in ("unwrap", "expect") and n["recv"].get("k") == "mcall" and n["recv"]["m"] in ("strip_prefix", "strip_suffix") and n["recv"]["args"] and sir.strip_ref(n["recv"]["args"][0]).get("k") == "lit"):
                continue
            lit = sir.strip_ref(n["recv"]["args"][0])["v"]
            test = "starts_with" if n["recv"]["m"] == "strip_prefix" else "ends_with"
            gs = gs or G.guards_of(g.body)
            subject = sir.expr_str(sir.strip_ref(n["recv"]["recv"])).replace(" ", "")
            direct = False
            tags = []
            for kind, subj, pol in gs.get(id(n), []):
                if kind == "cond" and pol:
                    for y in sir.walk(subj):
                        if y.get("k") == "mcall" and y["m"] == test and y["args"] and sir.strip_ref(y["args"][0]).get("v") == lit and sir.expr_str(sir.strip_ref(y["recv"])).replace(" ", "") == subject:
                            direct = True
                if kind == "pat" and pol and re.fullmatch(r"[\w:]+", subj[1]):
                    tags.append(subj[1])
            key = "C01.panic/side/strip-guard/%s/%s" % (g.qual.split("::")[-1], lit)
            if direct:
                obs.append(ob(key, True, ctx.where(g), "`%s(%r).unwrap()` under `%s(%r)` of the same string" % (n["recv"]["m"], lit, test, lit)))
                continue
            # through a tag: every place that produces the tag has tested the plain name
            verdict, why = None, "no guard found in a form this rule reads"
            for tag in tags[-1:]:
                sites = [x for x in sir.walk(g.node, into_items=True) if x.get("k") == "path" and x["s"].endswith(tag.split("::")[-1]) and len(x["segs"]) >= 2]
                okall, seen = True, 0
                for sx in sites:
                    tested = False
                    for kind, subj, pol in gs.get(id(sx), []):
                        if kind == "cond" and pol:
                            for y in sir.walk(subj):
                                if y.get("k") == "mcall" and y["m"] == test and y["args"] and sir.strip_ref(y["args"][0]).get("v") == lit:
                                    tested = sir.strip_ref(y["recv"]).get("k") == "path"
                                    seen += 1
                    okall = okall and tested
                if sites and seen:
                    verdict = okall
                    why = "the tag `%s` is produced at %d place(s), each under `%s(%r)` of the attribute name itself: %s" % (tag, len(sites), test, lit, okall)
            obs.append(ob(key, verdict, ctx.where(g), why, witness=None if verdict is not False else "<view Data-id=\"1\"/>: the guard accepts a name the unwrap cannot strip"))
    obs += for_wrap_rule(ctx)
    # `skip_bytes(N)` with a literal N slices N bytes off the rest of the input: what reaches it has tested that they are there
    # (a look-ahead of at least N-1 further characters that found one, or a prefix test with a literal of at least N bytes)
    import guards as gd
    for g in ctx.tc.fns:
        if not g.body or g.module[:1] != ["parse"]:
            continue
        Gs = None
        k_ = 0
        for n in sir.walk(g.body, into_closures=True):
            if not (n.get("k") == "mcall" and n["m"] == "skip_bytes" and n["args"] and n["args"][0].get("k") == "lit" and str(n["args"][0].get("v", "")).isdigit() and int(n["args"][0]["v"]) > 0):
                continue
            need = int(n["args"][0]["v"])
            Gs = Gs or gd.guards_of(g.body)
            have = 0
            for kind, subj, pol in Gs.get(id(n), []):
                if kind == "pat":
                    e_, ptxt = subj
                    e_ = sir.strip_ref(e_)
                    while e_.get("k") == "try":
                        e_ = e_["e"]
                    if e_.get("k") == "mcall" and e_["m"] == "peek":
                        kk = re.sub(r"\D", "", e_.get("tf") or "") or "0"
                        found = (ptxt.replace(" ", "") == "None" and pol is False) or (ptxt.replace(" ", "").startswith("Some(") and pol is True)
                        if found:
                            have = max(have, int(kk) + 1)
                if kind == "cond" and pol:
                    for y in sir.walk(subj):
                        if y.get("k") == "mcall" and y["m"] in ("starts_with", "peek_str") and y["args"] and sir.strip_ref(y["args"][0]).get("k") == "lit" and sir.strip_ref(y["args"][0]).get("t") == "str":
                            have = max(have, len(sir.strip_ref(y["args"][0])["v"].encode()))
            k_ += 1
            tests = any(y.get("k") == "mcall" and y["m"] in ("peek", "peek_str", "starts_with", "peek_n", "skip_until_before") for y in sir.walk(g.body, into_closures=True))
            verdict = True if have >= need else (False if tests else None)
            obs.append(ob("C01.panic/side/skip-bytes/%s#%d" % (g.qual, k_), verdict, ctx.where(g),
                          "`skip_bytes(%d)` runs where at least %d byte(s) are known to be left" % (need, have) if verdict else "`skip_bytes(%d)` is reached without a test that %d bytes are left (known: %d)" % (need, need, have),
                          witness=None if verdict is not False else "`<wxs module=\"m\">a</wxs` at the end of the input: the slice of 5 bytes is out of range"))
    # the text generated for an operand is pasted once: a buffer filled by a recursive generator call that is written twice
    # doubles the output per nesting level (2^depth for a chain)
    dup = []
    n_buf = 0
    for g in ctx.tc.fns:
        if not g.body or g.module[:2] != ["proc_gen", "expr"]:
            continue
        bufs = set()
        for n in sir.walk(g.body, into_closures=True):
            if n.get("k") in ("call", "mcall") and (sir.call_name(n) or "").split("::")[-1].startswith("to_proc_gen_rec"):
                for a in n["args"]:
                    if a.get("k") == "ref" and a.get("mut") and a["e"].get("k") == "path" and len(a["e"]["segs"]) == 1:
                        bufs.add(a["e"]["segs"][0])
        bufs -= set(x for x in g.param_names() if x)
        n_buf += len(bufs)
        for n in sir.walk(g.body, into_closures=True):
            wf = sir.write_fmt_call(n)
            if not wf:
                continue
            cnt = {}
            for p_ in wf[1]:
                if p_[0] == "hole" and isinstance(p_[1], dict):
                    e_ = sir.strip_ref(p_[1])
                    if e_.get("k") == "path" and len(e_["segs"]) == 1 and e_["segs"][0] in bufs:
                        cnt[e_["segs"][0]] = cnt.get(e_["segs"][0], 0) + 1
            for b_, c_ in cnt.items():
                if c_ > 1:
                    dup.append("%s writes the generated text `%s` %d times in one fragment" % (g.name, b_, c_))
    obs.append(ob("C01.size/operand-once", False if dup else True if n_buf >= 2 else None, "proc_gen/expr.rs", "; ".join(dup[:2]) if dup else "%d operand buffers, none pasted twice into one fragment" % n_buf,
                  witness=None if not dup else "{{ a ?? b ?? c ?? .. }} with 40 operators generates 2^40 copies of `a`"))
    obs += child_once_rule(ctx, "C01.size/child-once")
    from rules.c05 import check_mirror, slot_key_rule
    for x in check_mirror(ctx) + slot_key_rule(ctx):
        x = dict(x)
        x["key"] = x["key"].replace("C05.mirror", "C01.panic/side/mirror").replace("C05.", "C01.panic/side/c05.")
        obs.append(x)
    # ParseState::new: the truncation index is moved back to a character boundary before slicing
    f = [g for g in ctx.tc.fns if g.base == "ParseState" and g.name == "new" and g.body]
    if f:
        g = f[0]
        okb = False
        d = "no truncation found"
        for n in sir.walk(g.body):
            if n.get("k") == "index" and n["idx"].get("k") == "range" and n["idx"].get("from") is None and n["idx"].get("to") is not None:
                hi = n["idx"]["to"]
                if hi.get("k") == "path" and len(hi["segs"]) == 1:
                    v = hi["segs"][0]
                    loops = [w for w in sir.walk(g.body) if w.get("k") == "while" and sir.expr_str(w["cond"]).replace(" ", "") == "!%s.is_char_boundary(%s)" % (sir.expr_str(n["base"]).replace(" ", ""), v)
                             and any(x.get("k") == "binary" and x.get("op") == "-=" and sir.expr_str(x["l"]) == v for x in sir.walk(w["body"]))]
                    okb = bool(loops)
                    d = "`&%s[..%s]` after `while !is_char_boundary(%s) { %s -= 1 }`: %s" % (sir.expr_str(n["base"]), v, v, v, okb)
                else:
                    d = "the source is cut at `%s`, a fixed byte offset that may fall inside a character" % sir.expr_str(hi)
        obs.append(ob("C01.panic/side/truncation-boundary", okb, ctx.where(g), d, witness=None if okb else "a 4 GiB source with a multi-byte character across the cut panics in str slicing"))
    return obs


def guard_flag_rule(ctx):
    """every wrapped concatenation the parser builds sets has_wrap_to_string, which keeps ToStringWithoutUndefined away from the
    expression printer's panic arm"""
    ob = ctx.ob
    tc = ctx.tc
    vp = [g for g in tc.fns if g.base == "Value" and g.name == "parse_until_before" and g.body]
    if not vp:
        return [ob("C01.guard/anchor", False, "parse/tag.rs", "Value::parse_until_before not found")]
    g = vp[0]
    pm = sir.parent_map(g.node)
    obs = []
    k = 0
    for n in sir.walk(g.node, into_items=True):
        if n.get("k") == "struct" and n["segs"][-1] == "Plus":
            k += 1
            # the innermost branch (match arm / if branch) that builds this chain
            br = n
            hops = 0
            while id(br) in pm and hops < 20:
                par = pm[id(br)]
                hops += 1
                if par.get("k") == "arm" or (par.get("k") == "if" and (par.get("then") is br or par.get("else") is br)):
                    if par.get("k") == "arm":
                        br = par
                    break
                br = par
            sets = any(x.get("k") == "assign" and sir.expr_str(x["l"]) == "has_wrap_to_string" and x["r"].get("v") is True for x in sir.walk(br))
            obs.append(ob("C01.guard/wrap-flag#%d" % k, sets, ctx.where(g), "the branch that builds this `+` chain records that its operands are wrapped (has_wrap_to_string = true): %s" % sets,
                          witness=None if sets else "{{a}}{{b}}{{c}} is wrapped twice; printing it reaches panic!(\"illegal expression\") in the expression printer"))
    if k < 1:
        obs.append(ob("C01.floor/guard", False, ctx.where(g), "no concatenation site found (floor 1)"))
    return obs


def run(ctx):
    obs = progress_rule(ctx)
    obs += panic_rule(ctx)
    obs += guard_flag_rule(ctx)
    obs += side_conditions_rule(ctx)
    from rules.c03 import literal_rules
    for x in literal_rules(ctx):
        x = dict(x)
        x["key"] = x["key"].replace("C03.literal", "C01.literal")
        obs.append(x)
    from rules.c04 import concat_rule
    for x in concat_rule(ctx):
        x = dict(x)
        x["key"] = x["key"].replace("C04.text/concat", "C01.guard/concat").replace("C04.floor", "C01.floor")
        obs.append(x)
    from rules import csspacks as cp
    o, ok = cp.anchors(ctx, "C01")
    if ok:
        for x in cp.capture_offsets_rule(ctx, "C01.panic"):
            obs.append(x)
    if ctx.tier == "thorough":
        obs += clippy_xref_rule(ctx)
    return obs


def clippy_xref_rule(ctx):
    """thorough tier: clippy's opt-in restriction lints are an independent, type-resolved enumeration of explicit panics,
    unwrap/expect, indexing and string slicing.  Every site clippy reports in library code must be a site the MIR enumeration of
    C01.panic has seen (same crate, file and line): the reviewed table can only be trusted if the enumeration has no blind spot."""
    import clippyxref as cx
    ob = ctx.ob
    obs = []
    try:
        csites = cx.repo_sites()
        fsites = cx.fixture_sites()
    except Exception as e:  # noqa: BLE001 - the lint run itself failing is reported, never taken as a pass
        return [ob("C01.xref/clippy/run", False, "cargo +nightly clippy", "the cross-reference lint run failed: %s" % str(e)[:600])]
    seen = {}
    for (crate, root, cat), spans in panic_sites(ctx.mir).items():
        for sp in spans:
            m = re.match(r"(.*?):(\d+):(\d+)", sp)
            if m:
                c_, f_ = cx.norm(m.group(1))
                seen.setdefault((c_, f_, int(m.group(2))), set()).add(cat)
    per = {}
    missing = []
    for s in csites:
        if s["lint"] not in cx.PANIC_LINTS:
            continue
        if re.search(r"js_bindings|cbinding|main\.rs", s["file"]):
            continue   # binding shims unwrap I/O by design; they are not roots of the panic rule either
        c_, f_ = cx.norm(s["file"])
        per[s["lint"]] = per.get(s["lint"], 0) + 1
        if not any((c_, f_, ln) in seen for ln in range(s["line"], s["line_end"] + 1)):
            missing.append(s)
    for lint in cx.PANIC_LINTS:
        miss = [s for s in missing if s["lint"] == lint]
        obs.append(ob("C01.xref/clippy/%s" % lint.split("::")[-1], not miss, (miss[0]["file"] + ":%d" % miss[0]["line"]) if miss else "both crates",
                      ("%d site(s) reported by %s that the MIR enumeration of potential panic sites does not contain (extractor blind spot): %s" % (
                          len(miss), lint, ["%s:%d `%s`" % (s["file"], s["line"], s["text"][:50]) for s in miss[:5]])) if miss else
                      "%d site(s) reported by %s in library code, each one also enumerated from MIR at the same file and line" % (per.get(lint, 0), lint)))
    total = sum(per.values())
    obs.append(ob("C01.xref/clippy/floor", total >= 40, "cargo +nightly clippy", "%d lint sites cross-referenced (floor 40: the lint run must have seen the crates)" % total))
    fk = {s["lint"] for s in fsites}
    obs.append(ob("C01.xref/clippy/positive-control", "clippy::unwrap_used" in fk or "clippy::indexing_slicing" in fk or "clippy::iter_over_hash_type" in fk, "fixtures/poscontrol",
                  "lints raised on the fixture crate: %s" % sorted(fk)))
    return obs
