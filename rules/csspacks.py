"""Shared rules of the stylesheet-compiler packs (C08, C09, C10, C17, C18, C19)."""
import os, re
import sir
import cssmodel as cm


def _roles(ctx):
    if not hasattr(ctx, "_css_roles"):
        ds = cm.dispatches(ctx.sc)
        ctx._css_ds = ds
        ctx._css_roles = cm.classify(ds)
    return ctx._css_roles


def anchors(ctx, prefix):
    roles = _roles(ctx)
    want = ["import-conditions", "import-media", "at-prelude", "qualified-prelude", "class-block", "value-block"]
    missing = [w for w in want if w not in roles]
    return [ctx.ob("%s.anchor/dispatch-loops" % prefix, not missing, "glass-easel-stylesheet-compiler/src/lib.rs",
                   "token dispatch loops found by role: %s" % {k: v.fn.name for k, v in roles.items()} + ("; missing %s" % missing if missing else ""))], not missing


def selector_routines(ctx):
    """names of functions whose dispatch has a `.` class arm (selector context)"""
    return set(d.fn.name for d in ctx._css_ds if d.has_class_arm())


def value_routine(ctx):
    return _roles(ctx)["value-block"].fn.name


# ------------------------------------------------------------------ C08.ctx / C09.reach

def ctx_rule(ctx, prefix):
    ob = ctx.ob
    obs = []
    roles = _roles(ctx)
    sel = selector_routines(ctx)
    val = value_routine(ctx)
    ref = cm.css_ref()
    math = set(ref["math_functions"])
    # a block is copied to its end: in the two block routines only the exhausted input ends the loop - no arm leaves it
    for role in ("value-block", "class-block"):
        d = roles[role]
        leaves = []
        for a in d.arms:
            for n in sir.walk(a.body, into_closures=False):      # closures (try_parse transactions) are not entered: their `?` ends the attempt, not the loop
                if n.get("k") in ("return", "break", "try"):
                    leaves.append("the arm for %s can leave the loop (`%s`)" % ("|".join(sorted(a.variants)), sir.expr_str(n)[:50]))
        obs.append(ob("%s.ctx/%s/to-the-end" % (prefix, role), not leaves, ctx.where(d.fn),
                      "; ".join(sorted(set(leaves))[:3]) if leaves else "no arm of the %d-arm dispatch leaves the loop: a block is processed up to its closing bracket" % len(d.arms),
                      witness=None if not leaves else "`width:calc(15rpx + 5px));height:75rpx`: everything after the stray `)` is dropped from the output"))
    for role in ("qualified-prelude", "class-block", "at-prelude", "import-media"):
        d = roles[role]
        where = ctx.where(d.fn)
        for tok in ("SquareBracketBlock", "ParenthesisBlock", "Function") + (("CurlyBracketBlock",) if role == "class-block" else ()):
            arm = d.arm(tok)
            key = "%s.ctx/%s/%s" % (prefix, role, tok)
            if arm is None:
                obs.append(ob(key, False, where, "no arm for %s" % tok))
                continue
            pm = sir.parent_map(arm.body)
            callees = []
            for n in sir.walk(arm.body):
                if n.get("k") == "call" and sir.call_name(n) in sel | {val}:
                    # condition(s) guarding this call inside the arm
                    conds = []
                    p = n
                    while id(p) in pm:
                        c = p
                        p = pm[id(p)]
                        if p.get("k") == "if":
                            conds.append((sir.expr_str(p["cond"]), p.get("then") is c))
                    callees.append((sir.call_name(n), conds, n))
            if not callees:
                obs.append(ob(key, False, where, "%s arm does not descend into the block with a selector-aware routine" % tok))
                continue
            problems = []
            for name, conds, n in callees:
                if name in sel:
                    continue
                # value routine inside selector context: only for math functions
                names = set()
                for cs, in_then in conds:
                    if in_then:
                        names |= cm.math_condition(cs, ctx.sc)
                # `let config = if func == "calc" {..}` style does not guard the call itself
                if not names:
                    problems.append("contents of a nested %s are processed by the declaration-value routine %s(): descendant-combinator whitespace is dropped and class names are not rewritten" % (tok, name))
                elif not names <= math:
                    problems.append("value routine used for non-math functions %s" % sorted(names - math))
            obs.append(ob(key, not problems, where, "; ".join(problems) if problems else "%s -> %s" % (tok, sorted(set(c[0] for c in callees))),
                          witness=None if not problems else ":not(:is(.a .b)){} is emitted as :not(:is(.a.b)){} and `.a`/`.b` stay unprefixed"))
    # whitespace protocol of the selector-context loops
    for role in ("qualified-prelude", "class-block"):
        d = roles[role]
        where = ctx.where(d.fn)
        loop = d.loop
        src = [n for n in sir.walk(loop) if n.get("k") == "mcall" and n["m"] in ("next", "next_including_whitespace") and sir.expr_str(n["recv"]) == "input"]
        ok_src = bool(src) and all(n["m"] == "next_including_whitespace" for n in src)
        obs.append(ob("%s.ctx/%s/whitespace-observed" % (prefix, role), ok_src, where, "tokens are read with next_including_whitespace(): %s" % [n["m"] for n in src]))
        ws = d.arm("WhiteSpace")
        sets = ws is not None and any(n.get("k") == "assign" and sir.expr_str(n["l"]) == "has_whitespace" and n["r"].get("v") is True for n in sir.walk(ws.body))
        obs.append(ob("%s.ctx/%s/whitespace-flag" % (prefix, role), bool(sets), where, "a whitespace token sets has_whitespace: %s" % bool(sets)))
        # the pre-match: pending whitespace is re-emitted before every token except blocks-openers `{` and whitespace itself
        import guards as gd
        G = gd.guards_of(loop)
        inside_dispatch = set(id(x) for x in sir.walk(d.node))
        emits = [x for x in sir.walk(loop) if x.get("k") == "call" and (sir.call_path(x) or "").endswith("StepToken::wrap") and "WhiteSpace" in sir.expr_str(x["args"][0]) and id(x) not in inside_dispatch]
        okp = False
        dsc = "pre-dispatch whitespace re-emission not found"

        def variants_of_pat(p_):
            return set(c["segs"][-1] for c in sir.walk(p_) if c.get("k") in ("p_path", "p_ts", "p_struct") and len(c.get("segs", [])) >= 2 and c["segs"][-2] == "Token")

        def kinds_of_test(c):
            """token kinds K such that `c` is true iff the current token is one of K (matches!-style tests, possibly via a local)"""
            if c.get("k") == "paren":
                return kinds_of_test(c["e"])
            if c.get("k") == "path" and len(c["segs"]) == 1:
                for st_ in sir.walk(loop):
                    if st_.get("k") == "local" and st_["pat"].get("name") == c["segs"][0] and st_.get("init") is not None:
                        return kinds_of_test(st_["init"])
                return None
            if c.get("k") == "mac" and c.get("name") == "matches" and c.get("pat") is not None:
                return variants_of_pat(c["pat"])
            if c.get("k") == "match" and len(c["arms"]) == 2 and all(a["body"].get("k") == "lit" and a["body"].get("t") == "bool" for a in c["arms"]) and c["arms"][0]["body"]["v"] is True:
                return variants_of_pat(c["arms"][0]["pat"])
            if c.get("k") == "call" and len(c["args"]) == 1:
                # a private predicate over the token whose body is such a test of its parameter
                hs = [g for g in ctx.sc.fns if g.name == sir.call_name(c) and g.body and g.ret == "bool" and not g.base]
                if len(hs) == 1 and hs[0].body["stmts"]:
                    last = hs[0].body["stmts"][-1]
                    if last.get("k") == "expr" and not last.get("semi"):
                        return kinds_of_test(last["e"])
            return None
        if len(emits) == 1:
            w = emits[0]
            gs = G.get(id(w), [])
            has_ws = gd.truth_of_flag(gs, "has_whitespace") is True
            skip = None
            for kind, subj, pol in gs:
                if kind == "cond":
                    ks = kinds_of_test(subj)
                    if ks is not None and pol is False:
                        skip = ks
                elif kind == "pat" and pol is True and subj[1] == "_":
                    # the catch-all arm of a match on the token: the other arms (which do nothing) are the exceptions
                    for m in sir.walk(loop):
                        if m.get("k") == "match" and m is not d.node and any(any(y is w for y in sir.walk(a["body"])) for a in m["arms"] if a["pat"].get("k") == "p_wild"):
                            sk = set()
                            for a in m["arms"]:
                                if a["pat"].get("k") != "p_wild" and not any(x.get("k") in ("call", "mcall") for x in sir.walk(a["body"])):
                                    sk |= variants_of_pat(a["pat"])
                            skip = sk
            okp = has_ws and skip == {"CurlyBracketBlock", "WhiteSpace"}
            dsc = "pending whitespace (has_whitespace: %s) is re-emitted before every token except %s (expected CurlyBracketBlock, WhiteSpace)" % (has_ws, sorted(skip) if skip is not None else "?")
            nodes = list(sir.walk(loop))
            i_pre = [i for i, x in enumerate(nodes) if x is w][0]
            i_dis = [i for i, x in enumerate(nodes) if x is d.node][0]
            resets = [i for i, x in enumerate(nodes) if x.get("k") == "assign" and sir.expr_str(x["l"]) == "has_whitespace" and x["r"].get("v") is False]
            okp = okp and any(i_pre < r < i_dis for r in resets)
        obs.append(ob("%s.ctx/%s/whitespace-reemit" % (prefix, role), okp, where, dsc,
                      witness=None if okp else ":not(.a :hover) is emitted as :not(.a:hover)"))
        # a further local flag in front of the re-emission (e.g. "the previous token was a combinator, the blank means nothing")
        # is sound only if every arm of the dispatch that writes a token gives the flag a fresh value, and only arms for `,` `>`
        # `+` `~` raise it: an arm that leaves it alone lets a stale value swallow a descendant combinator
        if len(emits) == 1:
            COMB = {("Comma", None), ("Delim", ">"), ("Delim", "+"), ("Delim", "~")}
            extra = []
            for kind, subj, pol in G.get(id(emits[0]), []):
                if kind != "cond":
                    continue
                for k_, a_, p_ in gd._conj(subj, pol) if hasattr(gd, "_conj") else [(kind, subj, pol)]:
                    if k_ == "cond" and a_.get("k") == "path" and len(a_["segs"]) == 1 and a_["segs"][0] != "has_whitespace" and kinds_of_test(a_) is None:
                        extra.append((a_["segs"][0], p_))
            for flag, pol in extra:
                is_flag = any(n.get("k") == "local" and n["pat"].get("name") == flag and n.get("init") is not None and n["init"].get("t") == "bool" for n in sir.walk(d.fn.body))
                if not is_flag:
                    obs.append(ob("%s.ctx/%s/whitespace-reemit/extra/%s" % (prefix, role, flag), None, where, "the re-emission also depends on `%s`, which is not a local flag with a constant start value: not decided" % flag))
                    continue
                suppress = not pol   # the value of the flag that suppresses the blank
                bad = []
                for a in d.arms:
                    if a.variants == ["WhiteSpace"]:
                        continue
                    sets = [n["r"].get("v") for n in sir.walk(a.body) if n.get("k") == "assign" and sir.expr_str(n["l"]) == flag and n["r"].get("t") == "bool"]
                    cases = a.node["pat"]["cases"] if a.node["pat"].get("k") == "p_or" else [a.node["pat"]]
                    kinds = set()
                    for c in cases:
                        if c.get("k") in ("p_path", "p_ts", "p_struct") and len(c["segs"]) >= 2 and c["segs"][-2] == "Token":
                            dl = c["elems"][0]["e"].get("v") if c["segs"][-1] == "Delim" and c.get("elems") and c["elems"][0].get("k") == "p_lit" else None
                            kinds.add((c["segs"][-1], dl))
                        else:
                            kinds.add(("_", None))
                    if not sets:
                        bad.append("the arm for %s leaves `%s` as it was" % ("|".join(a.variants) or "?", flag))
                    elif any(v is suppress for v in sets) and not kinds <= COMB:
                        bad.append("the arm for %s makes the following blank disappear" % "|".join(a.variants))
                obs.append(ob("%s.ctx/%s/whitespace-reemit/extra/%s" % (prefix, role, flag), not bad, where,
                              "the blank is also suppressed by `%s`: %s" % (flag, "; ".join(bad[:3]) if bad else "every token-writing arm renews it, only combinator arms raise it"),
                              witness=None if not bad else "a>[x] b{} is emitted as a>[x]b{}"))
    return obs


def _true_literals(expr, sc, depth=0):
    """(set of string literals for which `expr` is true, scrutinee node) for `matches!(x, "a" | "b")`, a match over string
    literals with boolean arms, or a call of a private helper whose body is one of those (its parameter stands for the argument)"""
    e = expr
    while e.get("k") == "paren":
        e = e["e"]
    if e.get("k") == "mac" and e.get("name") == "matches" and e.get("pat") is not None:
        return set(t["e"]["v"] for t in sir.walk(e["pat"]) if t.get("k") == "p_lit" and t["e"].get("t") == "str"), e.get("e")
    if e.get("k") == "match":
        lits = set()
        okm = True
        for a in e["arms"]:
            b = a["body"]
            while b.get("k") == "block" and len(b["stmts"]) == 1 and b["stmts"][0].get("k") == "expr":
                b = b["stmts"][0]["e"]
            if not (b.get("k") == "lit" and b.get("t") == "bool"):
                okm = False
                break
            if b["v"] is True:
                if a["pat"].get("k") == "p_wild":
                    okm = False
                    break
                lits |= set(t["e"]["v"] for t in sir.walk(a["pat"]) if t.get("k") == "p_lit" and t["e"].get("t") == "str")
        if okm and lits:
            return lits, e["e"]
    if e.get("k") == "mcall" and e["m"] == "contains" and len(e["args"]) == 1:
        # `TABLE.contains(&x)` over a constant array of string literals (or an array literal)
        recv = sir.strip_ref(e["recv"])
        arr = None
        if recv.get("k") == "array":
            arr = recv
        elif recv.get("k") == "path":
            c = sc.const(recv["segs"][-1])
            if c is not None and (c.get("e") or {}).get("k") == "array":
                arr = c["e"]
            elif c is not None and (c.get("e") or {}).get("k") == "ref" and c["e"]["e"].get("k") == "array":
                arr = c["e"]["e"]
        if arr is not None and arr["elems"] and all(sir.strip_ref(x).get("k") == "lit" and sir.strip_ref(x).get("t") == "str" for x in arr["elems"]):
            return set(sir.strip_ref(x)["v"] for x in arr["elems"]), sir.strip_ref(e["args"][0])
    if e.get("k") == "call" and depth < 2 and len(e["args"]) == 1:
        nm = sir.call_name(e)
        cands = [g for g in sc.fns if g.name == nm and g.body]
        if len(cands) == 1:
            g = cands[0]
            body = g.body
            tail = body["stmts"][-1]["e"] if body["stmts"] and body["stmts"][-1].get("k") == "expr" else None
            if tail is not None:
                r = _true_literals(tail, sc, depth + 1)
                if r:
                    lits, scr = r
                    pn = [x for x in g.param_names() if x]
                    if scr is not None and pn and sir.expr_str(sir.strip_ref(scr)) == pn[0]:
                        return lits, e["args"][0]
    return None


def rules_rule(ctx, prefix):
    ob = ctx.ob
    obs = []
    roles = _roles(ctx)
    d = roles["at-prelude"]
    f = d.fn
    ref = cm.css_ref()
    names = None
    scrut = None
    for n in sir.walk(f.body):
        if n.get("k") == "local" and n["pat"].get("name") == "contain_rule_list" and n.get("init") is not None:
            r = _true_literals(n["init"], ctx.sc)
            if r:
                names, scrut = r
    if names is None:
        return [ob("%s.rules/anchor" % prefix, False, ctx.where(f), "rule-list table (contain_rule_list) not found")]
    # the table is consulted with the at-rule's own name
    oks = False
    ds = "table lookup not found"
    if scrut is not None:
        e = sir.strip_ref(scrut)
        chain = []
        while True:
            if e.get("k") == "mcall" and not e["args"]:
                chain.append(e["m"])
                e = sir.strip_ref(e["recv"])
            elif e.get("k") == "unary" and e.get("op") == "*":
                e = sir.strip_ref(e["e"])
            else:
                break
        base_ok = e.get("k") == "path" and len(e["segs"]) == 1
        bound = False
        if base_ok:
            nm = e["segs"][0]
            # follow `let at_keyword: &str = &x;` style renamings back to the binding of the token's payload
            for _hop in range(4):
                nxt = None
                for n in sir.walk(f.body):
                    if n.get("k") == "local" and n["pat"].get("name") == nm and n.get("init") is not None:
                        i_ = sir.strip_ref(n["init"])
                        while (i_.get("k") == "unary" and i_.get("op") == "*") or (i_.get("k") == "mcall" and not i_["args"] and i_["m"] in ("as_ref", "as_str", "deref", "clone")):
                            i_ = sir.strip_ref(i_["e"] if i_.get("k") == "unary" else i_["recv"])
                        if i_.get("k") == "path" and len(i_["segs"]) == 1 and i_["segs"][0] != nm:
                            nxt = i_["segs"][0]
                if nxt is None:
                    break
                nm = nxt
            for n in sir.walk(f.body):
                if n.get("k") == "local" and n["pat"].get("name") == nm and n.get("init") is not None and sir.expr_str(sir.strip_ref(n["init"])).lstrip("*&") == nm:
                    bound = True
                if n.get("k") in ("if", "arm"):
                    pat = n["cond"]["pat"] if n.get("k") == "if" and n["cond"].get("k") == "let" else (n.get("pat") if n.get("k") == "arm" else None)
                    if pat is not None and "AtKeyword" in sir.pat_str(pat) and any(b == nm for b, _p in sir.pat_bindings(pat)):
                        bound = True
        # a later `let x = <something computed from x>` shadows the keyword with a transformed copy
        transformed = []
        if base_ok:
            for n in sir.walk(f.body, into_closures=True):
                if n.get("k") == "local" and n["pat"].get("name") == e["segs"][0] and n.get("init") is not None:
                    i_ = sir.strip_ref(n["init"])
                    while (i_.get("k") == "unary" and i_.get("op") == "*") or (i_.get("k") == "mcall" and not i_["args"] and i_["m"] in ("as_ref", "as_str", "deref", "clone")) or i_.get("k") == "paren":
                        i_ = sir.strip_ref(i_["e"] if i_.get("k") in ("unary", "paren") else i_["recv"])
                    if i_.get("k") != "path" and sir.root_expr_name(i_) == e["segs"][0]:
                        transformed.append(sir.expr_str(n["init"])[:50])
        oks = base_ok and bound and not transformed and all(m in ("as_ref", "as_str", "to_ascii_lowercase", "to_lowercase", "deref") for m in chain)
        ds = "the table is looked up with `%s`, the at-keyword's name itself: %s%s" % (sir.expr_str(scrut), oks, (" (re-bound as `%s`)" % transformed[0]) if transformed else "")
    obs.append(ob("%s.rules/lookup-key" % prefix, oks, ctx.where(f), ds, witness=None if oks else "a transformed key (`starting-style` cut to `style`) silently stops matching"))
    for w in ref.get("declaration_block_at_rules", []):
        if w in names:
            obs.append(ob("%s.rules/not-a-rule-list/@%s" % (prefix, w), False, ctx.where(f), "@%s holds declarations, not style rules; parsing its block as a rule list treats `prop: value` as a selector (no rpx conversion, spacing rules of selectors)" % w,
                          witness="@%s{margin:20rpx} keeps `rpx`" % w))
    for w in ref["rule_list_at_rules"]:
        obs.append(ob("%s.rules/@%s" % (prefix, w), w in names, ctx.where(f), "@%s %s parsed as a list of nested rules" % (w, "is" if w in names else "is NOT") + ("" if w in names else ": its block goes through the declaration-value routine (descendant whitespace dropped, classes not prefixed, :host not moved)"),
                      witness=None if w in names else "@%s x{.c .d{}} is emitted as @%s x{.c.d{}}" % (w, w)))
    # curly arm: rule list -> parse_rules, else value routine
    curly = d.arm("CurlyBracketBlock")
    calls = d.calls_deep(curly, ctx.sc) if curly else []
    ok = "parse_rules" in calls and value_routine(ctx) in calls
    obs.append(ob("%s.rules/dispatch" % prefix, ok, ctx.where(f), "at-rule blocks go to parse_rules (rule lists) or %s (declaration lists): %s" % (value_routine(ctx), ok)))
    # the choice between the two is made by the table alone: inside the `{` arm (or the helper it hands the block to) the
    # rule-list parser is called under boolean names / table tests only, not under further comparisons
    import guards as gdm
    extra = []
    scopes = [curly.body] if curly else []
    for g in ctx.sc.fns:
        if g.body and g is not f and not g.base and g.name in calls and any(x.get("k") == "call" and sir.call_name(x) == "parse_rules" for x in sir.walk(g.body)) and g.name != "parse_rules":
            scopes.append(g.body)
    for sc_ in scopes:
        GG = gdm.guards_of(sc_)
        for x in sir.walk(sc_):
            if x.get("k") == "call" and sir.call_name(x) == "parse_rules":
                for kind, subj, pol in GG.get(id(x), []):
                    if kind != "cond":
                        continue
                    c_ = subj
                    while c_.get("k") in ("paren",) or (c_.get("k") == "unary" and c_.get("op") in ("!", "*")):
                        c_ = c_["e"]
                    plain = c_.get("k") in ("path", "field", "mac", "match") or (c_.get("k") == "call" and len(c_["args"]) == 1) or (c_.get("k") == "mcall" and c_["m"] == "contains")
                    if not plain:
                        extra.append(sir.expr_str(subj)[:60])
    obs.append(ob("%s.rules/table-only" % prefix, not extra, ctx.where(f), "the block of a rule-bearing at-rule is parsed as a rule list whenever the table says so" if not extra else "the rule-list parser runs only under the additional condition(s) %s" % extra,
                  witness=None if not extra else "past that condition `@media x{.a .b{}}` is emitted as `.a.b` and its classes are not prefixed"))
    return obs


def calc_modes(ctx, d):
    """The value routine is interpreted abstractly (lib/absint.py) once per value of its mode parameter (whatever its type: an
    Option of a struct, an enum, a bool).  Per mode: which token reader it uses, and which mode every recursive call hands on
    (per dispatch arm, and for functions per outcome of the math-function test).
    -> {mode value: {"reads": set, "nested": [(arm label, math True/False/None, value)], "tainted": bool}} or None"""
    import absint as ai
    f = d.fn
    sc = ctx.sc
    pn = [x for x in f.param_names() if x]
    if not pn:
        return None
    mode_param = pn[-1]
    pm = sir.parent_map(f.body)
    arm_of = {}
    for a in d.arms:
        for x in sir.walk(a.node):
            arm_of[id(x)] = "+".join(a.variants)
    preds = set(g.name for g in sc.fns if g.body and g.ret == "bool" and len([x for x in g.param_names() if x]) == 1 and not g.base)
    # externally supplied modes
    seeds = []
    for g in sc.fns:
        if not g.body or g is f:
            continue
        for c in sir.walk(g.body):
            if c.get("k") == "call" and sir.call_name(c) == f.name and c["args"]:
                vs = [o.value for o in ai.Interp().run(c["args"][-1], {}) if o.kind == "val"]
                if len(vs) == 1 and not ai.is_unknown(vs[0]):
                    seeds.append(vs[0])
    if not seeds:
        return None

    def run(mode):
        def hooks(it, e, st):
            k = e.get("k")
            if k == "mcall" and e["m"] == "parse_nested_block" and e["args"] and e["args"][-1].get("k") == "closure":
                return [ai.Out("val", ai.FREE, o.st) for o in it.call_closure(("closure", 0, e["args"][-1]), [ai.FREE], st)]
            if k == "mcall" and e["m"] in ("next", "next_including_whitespace", "next_including_whitespace_and_comments") and "input" in sir.expr_str(e["recv"]):
                return [(ai.FREE, st.event(("read", e["m"])))]
            if k == "mcall" and e["m"] == "try_parse":
                return [(ai.FREE, st)]
            if k == "call" and sir.call_name(e) == f.name and e["args"]:
                vs = [o.value for o in it.ev(e["args"][-1], st) if o.kind == "val"]
                math = [ev[2] for ev in st.events if ev[0] == "pred"]
                return [(ai.UNIT, st.event(("nested", arm_of.get(id(e), "?"), math[-1] if math else None, vs[0] if len(vs) == 1 else ai.UNK)))]
            if k == "call" and sir.call_name(e) in preds and len(e["args"]) == 1:
                return [(True, st.event(("pred", sir.call_name(e), True))), (False, st.event(("pred", sir.call_name(e), False)))]
            return None
        it = ai.Interp(hooks=hooks, idx=sc)
        it.max_paths = 4000
        env = {x: ai.FREE for x in pn}
        env[mode_param] = mode
        try:
            outs = it.run(f.body, env)
        except ai.TooManyPaths:
            return None
        reads, nested, tainted = set(), [], False
        for o in outs:
            for ev in o.events:
                if ev[0] == "read":
                    reads.add(ev[1])
                elif ev[0] == "nested":
                    nested.append((ev[1], ev[2], ev[3]))
                    tainted = tainted or (o.tainted and ai.is_unknown(ev[3]))
        return {"reads": reads, "nested": sorted(set(nested), key=repr), "tainted": tainted}
    table = {}
    work = list(dict.fromkeys(seeds))
    while work and len(table) < 5:
        m = work.pop(0)
        if m in table:
            continue
        r = run(m)
        if r is None:
            return None
        table[m] = r
        for _arm, _math, v in r["nested"]:
            if not ai.is_unknown(v) and v not in table and v not in work:
                work.append(v)
    return table


def calc_rule(ctx, prefix):
    ob = ctx.ob
    obs = []
    roles = _roles(ctx)
    d = roles["value-block"]
    f = d.fn
    where = ctx.where(f)
    ref = cm.css_ref()
    math = set(ref["math_functions"])
    val = f.name
    import absint as ai
    modes = calc_modes(ctx, d)
    if modes is not None:
        return calc_rule_by_modes(ctx, prefix, d, modes, math)
    for tok in ("CurlyBracketBlock", "SquareBracketBlock", "ParenthesisBlock"):
        arm = d.arm(tok)
        rec = [n for n in sir.walk(arm.body) if n.get("k") == "call" and sir.call_name(n) == val] if arm else []
        ok = False
        dsc = "no recursive call"
        if rec:
            a = sir.expr_str(rec[0]["args"][-1]).replace(" ", "")
            if rec[0]["args"][-1].get("k") == "path":
                for n in sir.walk(arm.body):
                    if n.get("k") == "local" and n["pat"].get("name") == a and n.get("init") is not None:
                        a = sir.expr_str(n["init"]).replace(" ", "") + " [" + " ".join(sir.expr_str(x) for x in sir.walk(n["init"]) if x.get("k") == "struct").replace(" ", "") + "]"
            ok = a != "None" and "in_calc" in a
            dsc = "nested %s is processed with options `%s`" % (tok, a[:80])
        obs.append(ob("%s.calc/nested/%s" % (prefix, tok), ok, where, dsc + ("" if ok else ": the rule that keeps whitespace around + and - is switched off inside parentheses of a math expression"),
                      witness=None if ok else "calc((1px + 2px)*3) is emitted as calc((1px+ 2px)*3)"))
    arm = d.arm("Function")
    names = set()
    uncond_inherit = False
    if arm:
        for n in sir.walk(arm.body):
            if n.get("k") == "if":
                names |= cm.math_condition(sir.expr_str(n["cond"]), ctx.sc)
                if "in_calc" in sir.expr_str(n["cond"]):
                    uncond_inherit = True
        for n in sir.walk(arm.body):
            if n.get("k") == "binary" and n["op"] in ("||", "&&") and "in_calc" in sir.expr_str(n):
                if n["op"] == "||":
                    # `in_calc || <math test>` used as a value (bound to a local, `.then(..)`) instead of an `if` condition
                    names |= cm.math_condition(sir.expr_str(n), ctx.sc)
                uncond_inherit = n["op"] == "||" and not sir.expr_str(n).replace(" ", "").startswith("!")
                if n["op"] == "&&" or "!in_calc" in sir.expr_str(n).replace(" ", ""):
                    uncond_inherit = False
                    names = set()
    missing = math - names
    ok = not missing and uncond_inherit
    obs.append(ob("%s.calc/functions" % prefix, ok, where,
                  "math functions that switch on +/- whitespace preservation: %s; inherited inside an enclosing math expression: %s" % (sorted(names), uncond_inherit) +
                  ("" if ok else "; not covered: %s" % sorted(missing)[:8]),
                  witness=None if ok else "max(1px + 2px,3px) is emitted as max(1px+ 2px,3px); calc(1px + calc(2px + 3px)) loses the inner spaces"))
    # the whitespace arm keeps a space next to + / - (look-ahead and look-behind)
    ws = d.arm("WhiteSpace")
    okw = False
    dsw = "no whitespace arm"
    if ws:
        # the arm itself plus the private helpers it calls (the test may be factored out)
        nodes = list(sir.walk(ws.body))
        seen_fns = set()
        frontier = [ws.body]
        for _ in range(2):
            nxt = []
            for b in frontier:
                for n in sir.walk(b):
                    if n.get("k") == "call":
                        nm = sir.call_name(n)
                        for g in ctx.sc.fns:
                            if g.name == nm and g.body and id(g) not in seen_fns and g is not f:
                                seen_fns.add(id(g))
                                nodes += list(sir.walk(g.body))
                                nxt.append(g.body)
            frontier = nxt
        chars = set(x.get("v") for x in nodes if x.get("k") == "lit" and x.get("t") == "char")
        chars |= set(y["e"].get("v") for x in nodes if x.get("k") in ("arm", "mac") for y in sir.walk(x.get("pat") or {}) if y.get("k") == "p_lit")
        ahead = any(x.get("k") == "mcall" and x["m"] in ("try_parse", "peek_including_whitespace", "peek") for x in nodes)
        behind = any(x.get("k") == "path" and x.get("s") == "prev_token" for x in nodes)
        calc = any(x.get("k") == "path" and x.get("s") == "in_calc" for x in sir.walk(ws.body))
        okw = {"+", "-"} <= chars and ahead and behind and calc
        dsw = "tests for `+`/`-`: %s; looks at the next token: %s; looks at the previous token: %s; only inside math functions: %s" % ({"+", "-"} <= chars, ahead, behind, calc)
    obs.append(ob("%s.calc/whitespace-arm" % prefix, okw, where, "whitespace is kept when the next or the previous token is `+` or `-`: %s" % dsw))
    return obs


def calc_rule_by_modes(ctx, prefix, d, modes, math):
    import absint as ai
    ob = ctx.ob
    obs = []
    f = d.fn
    where = ctx.where(f)

    def kind(m):
        r = modes.get(m)
        if r is None:
            return None
        if any("whitespace" in x for x in r["reads"]):
            return "math" if all("whitespace" in x for x in r["reads"]) else "mixed"
        return "plain" if r["reads"] else None

    def show(m):
        return "%s(%s)" % (kind(m), "None" if m == ai.NONE else m[1] if isinstance(m, tuple) and m[0] == "E" else "Some" if isinstance(m, tuple) else m)
    math_modes = [m for m in modes if kind(m) == "math"]
    plain_modes = [m for m in modes if kind(m) == "plain"]
    und = [m for m in modes if kind(m) in (None, "mixed") or modes[m]["tainted"]]
    for tok in ("CurlyBracketBlock", "SquareBracketBlock", "ParenthesisBlock"):
        key = "%s.calc/nested/%s" % (prefix, tok)
        if und or not math_modes:
            obs.append(ob(key, None if und else False, where, "modes of the value routine: %s%s" % ([show(m) for m in modes], "; not readable" if und else ": none of them reads whitespace tokens, the + / - rule cannot apply")))
            continue
        bad, seen = [], 0
        for m in math_modes:
            for arm, _mt, v in modes[m]["nested"]:
                if tok in arm.split("+"):
                    seen += 1
                    if kind(v) != "math":
                        bad.append("%s -> %s" % (show(m), show(v) if v in modes else v))
        ok = seen > 0 and not bad
        obs.append(ob(key, ok, where, ("nested %s inside a math expression stays in a whitespace-reading mode" % tok if ok else "nested %s inside a math expression is processed in %s" % (tok, bad or "no recursive call")) +
                      ("" if ok else ": the rule that keeps whitespace around + and - is switched off inside parentheses of a math expression"),
                      witness=None if ok else "calc((1px + 2px)*3) is emitted as calc((1px+ 2px)*3)"))
    # functions: a math function switches the mode on; inside a math expression every function stays in it
    arm = d.arm("Function")
    names = set()
    if arm:
        for n in sir.walk(arm.body):
            if n.get("k") == "if":
                names |= cm.math_condition(sir.expr_str(n["cond"]), ctx.sc)
            if n.get("k") == "binary" and n["op"] in ("||", "&&"):
                names |= cm.math_condition(sir.expr_str(n), ctx.sc)
            if n.get("k") == "call" and len(n["args"]) == 1:
                names |= cm.math_condition(sir.expr_str(n), ctx.sc)
    missing = math - names
    if und or not math_modes:
        obs.append(ob("%s.calc/functions" % prefix, None if und else False, where, "modes not readable" if und else "no whitespace-reading mode"))
    else:
        bad = []
        switched = 0
        for m in modes:
            for arm_l, mt, v in modes[m]["nested"]:
                if "Function" not in arm_l.split("+"):
                    continue
                if kind(m) == "math" and kind(v) != "math":
                    bad.append("inside a math expression the function%s is processed in %s" % ("" if mt is None else " (math test %s)" % mt, show(v) if v in modes else v))
                if kind(m) == "plain" and mt is True:
                    switched += 1
                    if kind(v) != "math":
                        bad.append("a math function is processed in %s" % (show(v) if v in modes else v))
                if kind(m) == "plain" and mt is False and kind(v) == "math":
                    bad.append("a non-math function switches whitespace reading on")
        ok = not bad and not missing and (switched > 0 or not plain_modes)
        obs.append(ob("%s.calc/functions" % prefix, ok, where,
                      "math functions that switch on +/- whitespace preservation: %s; modes %s" % (sorted(names), [show(m) for m in modes]) +
                      ("" if ok else "; %s" % (bad or ("not covered: %s" % sorted(missing)[:8]))),
                      witness=None if ok else "max(1px + 2px,3px) is emitted as max(1px+ 2px,3px); calc(1px + calc(2px + 3px)) loses the inner spaces"))
    # the whitespace arm keeps a space next to + / - (look-ahead and look-behind)
    ws = d.arm("WhiteSpace")
    okw = False
    dsw = "no whitespace arm"
    if ws:
        nodes = list(sir.walk(ws.body))
        seen_fns = set()
        frontier = [ws.body]
        for _ in range(2):
            nxt = []
            for b in frontier:
                for n in sir.walk(b):
                    if n.get("k") == "call":
                        nm = sir.call_name(n)
                        for g in ctx.sc.fns:
                            if g.name == nm and g.body and id(g) not in seen_fns and g is not f:
                                seen_fns.add(id(g))
                                nodes += list(sir.walk(g.body))
                                nxt.append(g.body)
            frontier = nxt
        chars = set(x.get("v") for x in nodes if x.get("k") == "lit" and x.get("t") == "char")
        chars |= set(y["e"].get("v") for x in nodes if x.get("k") in ("arm", "mac") for y in sir.walk(x.get("pat") or {}) if y.get("k") == "p_lit")
        ahead = any(x.get("k") == "mcall" and x["m"] in ("try_parse", "peek_including_whitespace", "peek") for x in nodes)
        behind = any(x.get("k") == "path" and x.get("s") == "prev_token" for x in nodes)
        calc = bool(math_modes) and bool(plain_modes or len(modes) == len(math_modes))

        def chars_near(pred):
            """operator characters tested in the top-level statements of the arm that contain a node satisfying pred (following
            calls to private helpers)"""
            out = set()
            stmts = []
            bodies = [ws.body]
            seen_h = set()
            for _d in range(2):   # the tests may sit in private helpers the arm hands its work to
                for bd in list(bodies):
                    for x in sir.walk(bd):
                        if x.get("k") == "call":
                            for g in ctx.sc.fns:
                                if g.name == sir.call_name(x) and g.body and g is not f and not g.base and id(g) not in seen_h:
                                    seen_h.add(id(g))
                                    bodies.append(g.body)
            for bd in bodies:
                pm_ = sir.parent_map(bd)
                for x in sir.walk(bd):
                    if not pred(x):
                        continue
                    # the innermost statement of a block that contains the node
                    cur_ = x
                    while id(cur_) in pm_:
                        par_ = pm_[id(cur_)]
                        if par_.get("k") == "block" and any(s_ is cur_ for s_ in par_["stmts"]):
                            break
                        cur_ = par_
                    if not any(s_ is cur_ for s_ in stmts):
                        stmts.append(cur_)
            for st_ in stmts:
                ns = list(sir.walk(st_))
                local_closures = {l_["pat"]["name"]: l_["init"] for l_ in sir.walk(ws.body) if l_.get("k") == "local" and l_["pat"].get("k") == "p_ident" and l_.get("init") is not None and l_["init"].get("k") == "closure"}
                for x in list(ns):
                    if x.get("k") == "call":
                        for g in ctx.sc.fns:
                            if g.name == sir.call_name(x) and g.body and g is not f and not g.base:
                                ns += list(sir.walk(g.body))
                        if x["f"].get("k") == "path" and len(x["f"]["segs"]) == 1 and x["f"]["segs"][0] in local_closures:
                            ns += list(sir.walk(local_closures[x["f"]["segs"][0]]["body"]))   # a test shared through a local closure
                out |= set(x.get("v") for x in ns if x.get("k") == "lit" and x.get("t") == "char")
                out |= set(y["e"].get("v") for x in ns if x.get("k") in ("arm", "mac", "let", "local") for y in sir.walk(x.get("pat") or {}) if y.get("k") == "p_lit")
            return out
        ch_ahead = chars_near(lambda x: x.get("k") == "mcall" and x["m"] in ("try_parse", "peek_including_whitespace", "peek"))
        ch_behind = chars_near(lambda x: x.get("k") == "path" and x.get("s") == "prev_token")
        both = {"+", "-"} <= ch_ahead and {"+", "-"} <= ch_behind
        okw = {"+", "-"} <= chars and both and ahead and behind and calc
        dsw = "tests for `+`/`-`: next token %s, previous token %s; looks at the next token: %s; looks at the previous token: %s; whitespace tokens are read only in the math mode(s): %s" % (sorted(c_ for c_ in ch_ahead if c_ in "+-"), sorted(c_ for c_ in ch_behind if c_ in "+-"), ahead, behind, calc)
    obs.append(ob("%s.calc/whitespace-arm" % prefix, okw if not und else None, where, "whitespace is kept when the next or the previous token is `+` or `-`: %s" % dsw))
    return obs


def txn_rule(ctx, prefix):
    """no try_parse closure leaves output unbalanced when it fails"""
    ob = ctx.ob
    obs = []
    n_clo = 0
    for f in ctx.sc.fns:
        if not f.body:
            continue
        for n in sir.walk(f.body):
            if n.get("k") == "mcall" and n["m"] == "try_parse" and n["args"] and n["args"][0].get("k") == "closure":
                n_clo += 1
                clo = n["args"][0]
                errs = [x for x in sir.walk(clo["body"]) if x.get("k") == "return" and x.get("e") is not None and sir.expr_str(x["e"]).startswith("Err")]
                tail = clo["body"]["stmts"][-1] if clo["body"].get("k") == "block" and clo["body"]["stmts"] else None
                always_err = tail is not None and tail.get("k") == "expr" and sir.expr_str(tail["e"]).startswith("Err")
                opens = [x for x in sir.walk(clo["body"]) if x.get("k") == "mcall" and x["m"] == "append_nested_block" and sir.expr_str(x["recv"]) == "ss"]
                writes = [x for x in sir.walk(clo["body"]) if x.get("k") in ("mcall", "call") and (sir.call_name(x) or "").startswith(("append_", "convert_", "write_maybe", "wrap_at_rule", "write_in_low"))]
                key = "%s.txn/%s#%d" % (prefix, f.qual, n_clo)
                if not errs and not always_err:
                    obs.append(ob(key, True, ctx.where(f), "closure never fails after writing (%d output calls, no explicit Err return)" % len(writes)))
                    continue
                if not writes:
                    obs.append(ob(key, True, ctx.where(f), "closure fails only before any output is written"))
                    continue
                # Err returns after output: the wrappers opened so far must be closed first
                pm = sir.parent_map(clo["body"])
                bad = []
                for e in errs:
                    # preceding sibling statements in the same block contain a drain of the close stack?
                    par = pm.get(id(e))
                    blk = par
                    while blk is not None and blk.get("k") != "block":
                        blk = pm.get(id(blk))
                    drained = False
                    if blk is not None:
                        for st in blk["stmts"]:
                            if any(x is e for x in sir.walk(st)):
                                break
                            if any(x.get("k") == "mcall" and x["m"] == "append_nested_block_close" for x in sir.walk(st)) and any(x.get("k") == "mcall" and x["m"] in ("pop", "drain", "into_iter") and "stack" in sir.expr_str(x["recv"]) for x in sir.walk(st)):
                                drained = True
                            if any(x.get("k") == "call" and "close" in (sir.call_name(x) or "") and "stack" in sir.expr_str(x) for x in sir.walk(st)):
                                drained = True
                    # is there an open that can precede this return?  (an earlier one in source order, or any one inside a
                    # loop that also contains the return)
                    order = list(sir.walk(clo["body"]))
                    ei = [i for i, x in enumerate(order) if x is e][0]

                    def loops_of(x):
                        out = []
                        p = x
                        while id(p) in pm:
                            p = pm[id(p)]
                            if p.get("k") in ("loop", "while", "for"):
                                out.append(id(p))
                        return set(out)
                    el = loops_of(e)
                    may = [o for o in opens if [i for i, x in enumerate(order) if x is o][0] < ei or (loops_of(o) & el)]
                    if may and not drained:
                        bad.append(sir.line_of(e))
                obs.append(ob(key, not bad, ctx.where(f),
                              "closure opens wrapper blocks and can fail afterwards; %s" % ("every failing exit closes the opened wrappers first" if not bad else "%d failing exits leave them open (the input is rolled back by try_parse, the output is not)" % len(bad)),
                              witness=None if not bad else "@import 'a' layer(x) 5; with an import sign leaves `@layer x{` unclosed in the output"))
    if n_clo < 4:
        obs.append(ob("%s.floor/try_parse" % prefix, False, "lib.rs", "only %d try_parse closures found (floor 4)" % n_clo))
    return obs


def separator_condition_rule(ctx, prefix):
    """the blank between two tokens is written exactly when cssparser's separator rule asks for it"""
    import guards as gdm
    ob = ctx.ob
    fs = [f for f in ctx.sc.fns if f.name == "append_token" and f.base == "StyleSheetOutput" and f.body]
    if not fs:
        return []
    f = fs[0]
    G = gdm.guards_of(f.body)
    seps = []
    for n in sir.walk(f.body):
        w = sir.write_fmt_call(n)
        if w and w[1] == [("lit", " ")]:
            seps.append(n)
        elif n.get("k") == "mcall" and n["m"] in ("push", "push_str") and n["args"] and sir.strip_ref(n["args"][0]).get("v") == " ":
            if n not in seps:
                seps.append(n)
    if not seps:
        return [ob("%s.sep/condition" % prefix, None, ctx.where(f), "the separator write is not in a form this rule reads")]
    extra, asked, adjacency = [], False, []

    def adjacency_test(e, depth=0):
        """`e` (possibly through a local) is a conjunction one of whose members compares a position kept in the output (`self.x`) with
        the position of the token being written: the two tokens touched each other in the source"""
        e = sir.strip_ref(e)
        while e.get("k") == "paren":
            e = e["e"]
        if e.get("k") == "path" and len(e["segs"]) == 1 and depth < 3:
            inits = [l_["init"] for l_ in sir.walk(f.body) if l_.get("k") == "local" and l_["pat"].get("name") == e["segs"][0] and l_.get("init") is not None]
            return len(inits) == 1 and adjacency_test(inits[0], depth + 1)
        if e.get("k") == "binary" and e["op"] == "&&":
            return adjacency_test(e["l"], depth) or adjacency_test(e["r"], depth)
        if e.get("k") == "binary" and e["op"] == "==":
            l_, r_ = sir.expr_str(e["l"]).replace(" ", ""), sir.expr_str(e["r"]).replace(" ", "")
            # the whole position, not a component of it (same line is not adjacency)
            return any(re.fullmatch(r"self(\.\w+)+", a) and re.fullmatch(r"(Some\()?\w+\.position\)?", b) for a, b in ((l_, r_), (r_, l_)))
        return False
    for n in seps:
        for kind, subj, pol in G.get(id(n), []):
            t = sir.expr_str(subj) if kind == "cond" else subj[1]
            if kind == "cond" and pol and any(y.get("k") == "mcall" and y["m"] == "needs_separator_when_before" for y in sir.walk(subj)) and subj.get("k") == "mcall":
                asked = True
            elif kind == "cond" and subj.get("k") == "path":
                # a local holding the answer
                inits = [l_["init"] for l_ in sir.walk(f.body) if l_.get("k") == "local" and l_["pat"].get("name") == subj["segs"][0] and l_.get("init") is not None]
                if inits and inits[0].get("k") == "mcall" and inits[0]["m"] == "needs_separator_when_before" and pol:
                    asked = True
                elif not pol and adjacency_test(subj):
                    # the one legitimate exception: two source tokens that touched each other are written as they stood
                    adjacency.append(t[:50])
                else:
                    extra.append(t[:50])
            else:
                extra.append(t[:50])
    ok = asked and not extra
    out = [ob("%s.sep/condition" % prefix, ok, ctx.where(f), ("the separating blank is written exactly when needs_separator_when_before says so" + (", unless the two tokens touched each other in the source (`%s`)" % adjacency[0] if adjacency else "")) if ok else "the separating blank also depends on %s" % extra[:2] if extra else "the separator rule of cssparser is not consulted",
              witness=None if ok else "counter-increment: item -1 is emitted as `item-1`")]
    # The serialization types alone cannot decide the blank: (Ident, Number) is `a 1` where it is needed and `U+0` where it destroys a
    # unicode-range; (Dimension, Number) is `1px 2` and `2n+1`.  A decision procedure that reads nothing but the two types is wrong for
    # one of each pair, so the decision must also read whether the tokens were adjacent in the source.
    if prefix != "C08":
        return out
    # what the exception may cover: (1) only a token that is written with a leading sign - cssparser prints `.5` as `0.5`, so a glued
    # unsigned number could merge with an identifier in front of it (`a.5` -> `a0.5`); (2) only tokens read from the source - a generated
    # or rewritten token (class prefix, rpx -> vw, synthesised brackets) has no source end, so nothing is ever glued to or after it.
    def conjuncts(e, depth=0):
        e = sir.strip_ref(e)
        while e.get("k") == "paren":
            e = e["e"]
        if e.get("k") == "path" and len(e["segs"]) == 1 and depth < 3:
            inits = [l_["init"] for l_ in sir.walk(f.body) if l_.get("k") == "local" and l_["pat"].get("name") == e["segs"][0] and l_.get("init") is not None]
            if len(inits) == 1:
                return conjuncts(inits[0], depth + 1)
        if e.get("k") == "binary" and e["op"] == "&&":
            return conjuncts(e["l"], depth) + conjuncts(e["r"], depth)
        return [e]
    if adjacency:
        signed_ok = False
        for n in seps:
            for kind, subj, pol in G.get(id(n), []):
                if kind == "cond" and subj.get("k") == "path" and not pol and adjacency_test(subj):
                    for c in conjuncts(subj):
                        if c.get("k") == "match":
                            wild = [a for a in c["arms"] if a["pat"].get("k") == "p_wild"]
                            named = set(v for a in c["arms"] if a["pat"].get("k") != "p_wild" for v in re.findall(r"Token::(\w+)", sir.pat_str(a["pat"])))
                            if wild and sir.expr_str(wild[0]["body"]).lower() == "false" and named and named <= {"Number", "Dimension", "Percentage"} and \
                                    all("has_sign" in sir.expr_str(a["body"]) or "is_sign_negative" in sir.expr_str(a["body"]) for a in c["arms"] if a["pat"].get("k") != "p_wild"):
                                signed_ok = True
        out.append(ob("C08.sep/adjacency/signed-only", signed_ok, ctx.where(f),
                      "only a numeric token that is written with a leading sign is glued to its predecessor" if signed_ok else
                      "the glue condition is not restricted to tokens written with a leading sign",
                      witness=None if signed_ok else "`x:a.5` is emitted as `a0.5`: the identifier swallows the digit"))
        ends = []
        for g in ctx.sc.fns:
            if not g.body or (g.trait and g.trait.split("::")[-1] == "Clone"):     # a copy of a token is the same token
                continue
            for n in sir.walk(g.body):
                if n.get("k") == "struct" and n["path"].split("::")[-1] in ("StepToken", "Self") and any(x["name"] == "end" for x in n["fields"]):
                    v = [sir.expr_str(x["e"]).replace(" ", "") for x in n["fields"] if x["name"] == "end"][0]
                    ends.append((g.qual, g.base, v))
        gen_bad = [q for q, b, v in ends if b != "StepParser" and v != "None"]
        src_ok = [q for q, b, v in ends if b == "StepParser"]
        out.append(ob("C08.sep/adjacency/source-tokens-only", bool(ends) and not gen_bad and bool(src_ok), ctx.where(f),
                      "tokens built outside the reader carry no source end (%d constructors), the reader records it (%s)" % (len(ends) - len(src_ok), ", ".join(s_.split("::")[-1] for s_ in src_ok)) if ends and not gen_bad and src_ok else
                      "a generated token claims a source end: %s" % gen_bad[:2] if gen_bad else "no constructor of the token type sets the source end",
                      witness=None if not gen_bad else "`a+.5rpx`: the rewritten `+0.0667vw`.. tokens are glued to neighbours they did not touch"))
    if adjacency:
        # (3) the source end is sampled after the token has been read: an end taken before the read is the token's own start, and
        # nothing would ever be adjacent
        rd = [g for g in ctx.sc.fns if g.body and g.base == "StepParser" and any(
            n.get("k") == "struct" and n["path"].split("::")[-1] in ("StepToken", "Self") and any(x["name"] == "end" for x in n["fields"]) for n in sir.walk(g.body))]
        okr, dsc = None, "the reader does not build the token in a form this rule reads"
        for g in rd:
            order = []
            for n in sir.walk(g.body):
                if n.get("k") == "mcall" and n["m"].startswith("next") and "parser" in sir.expr_str(n["recv"]):
                    order.append(("read", n))
                def samples(e_):
                    return any(y_.get("k") == "mcall" and y_["m"] == "position" and not y_["args"] for y_ in sir.walk(e_))
                if n.get("k") == "local" and n["pat"].get("k") == "p_ident" and n["pat"].get("name") == "end" and n.get("init") is not None:
                    order.append(("end" if samples(n["init"]) else "stale", n))
                if n.get("k") == "struct" and n["path"].split("::")[-1] in ("StepToken", "Self"):
                    for x in n.get("fields", []):
                        if x["name"] == "end" and sir.expr_str(x["e"]).replace(" ", "") != "end":
                            order.append(("end" if samples(x["e"]) else "stale", n))
            kinds = [k_ for k_, _n in order]
            if "stale" in kinds:
                okr, dsc = False, "the source end is not sampled from the reader's position (it is copied from a value taken earlier)"
            elif "read" in kinds and "end" in kinds:
                okr = kinds.index("read") < kinds.index("end") and all(k_ != "read" for k_ in kinds[kinds.index("end"):])
                dsc = "the source end is the reader's position %s the token has been read" % ("after" if okr else "BEFORE")
        out.append(ob("C08.sep/adjacency/end-after-read", okr, ctx.where(rd[0]) if rd else ctx.where(f), dsc,
                      witness=None if okr is not False else "no token is ever adjacent to its predecessor: `U+0-7F` is `U +0 -7F` again"))
    out.append(ob("%s.sep/adjacency" % prefix, bool(adjacency) if (asked or extra or adjacency) else None, ctx.where(f),
                  "the blank is left out when the token touched its predecessor in the source (`%s`)" % adjacency[0] if adjacency else
                  "the blank between two tokens is decided from their serialization types alone: a space is inserted into `U+0-7F` and `2n+1`",
                  witness=None if adjacency else "`unicode-range:U+0-7F` is emitted as `U +0 -7F`; `:nth-child(2n+1)` as `2n +1`"))
    return out


def sep_rule(ctx, prefix):
    """all output goes through the serialising appenders"""
    ob = ctx.ob
    writers = {}
    for b in ctx.mir.bodies:
        if b["crate"] != "glass_easel_stylesheet_compiler":
            continue
        for w in b["writes"]:
            if w["adt"].endswith("StyleSheetOutput") and w["field"] in ("s", "prev_ser_type", "utf16_len", "source_map"):
                writers.setdefault(w["field"], set()).add(b["root"])
    allowed = {"output::StyleSheetOutput::new", "output::StyleSheetOutput::append_raw", "output::StyleSheetOutput::append_token",
               "output::StyleSheetOutput::append_token_space_preserved", "output::StyleSheetOutput::write_source_map", "output::StyleSheetOutput::extract_source_map"}
    # private methods of the output type can only be reached through its own (listed) entry points
    for g in ctx.sc.fns:
        if g.base == "StyleSheetOutput" and g.body and not g.node.get("vis"):
            allowed.add("output::StyleSheetOutput::" + g.name)
    obs = []
    for fld in ("s", "prev_ser_type", "utf16_len"):
        ws = writers.get(fld, set())
        foreign = sorted(w for w in ws if w not in allowed)
        obs.append(ob("%s.sep/owners/%s" % (prefix, fld), bool(ws) and not foreign, "glass-easel-stylesheet-compiler/src/output.rs",
                      "StyleSheetOutput.%s is written by %s" % (fld, sorted(ws)) + ("" if not foreign else " - foreign writers: %s" % foreign)))
    # append_token applies the separator rule before writing
    at = [f for f in ctx.sc.fns if f.name == "append_token" and f.base == "StyleSheetOutput" and f.body]
    if at:
        f = at[0]
        nodes = list(sir.walk(f.body))
        sep = [i for i, n in enumerate(nodes) if n.get("k") == "mcall" and n["m"] == "needs_separator_when_before"]
        tocss = [i for i, n in enumerate(nodes) if n.get("k") == "mcall" and n["m"] == "to_css"]
        upd = [i for i, n in enumerate(nodes) if n.get("k") == "assign" and sir.expr_str(n["l"]) == "self.prev_ser_type"]
        ok = bool(sep) and bool(tocss) and bool(upd) and sep[0] < tocss[0]
        recv = sir.expr_str(nodes[sep[0]]["recv"]).replace(" ", "") if sep else ""
        arg = sir.expr_str(nodes[sep[0]]["args"][0]) if sep else ""
        ok = ok and "prev_ser_type" in recv and arg == "next_ser_type"
        obs.append(ob("%s.sep/append_token" % prefix, ok, ctx.where(f), "append_token asks prev_ser_type.needs_separator_when_before(next) before serialising and then records the new type: %s" % ok))
    # what is appended never depends on the text already written: the appenders only add to the string (the last characters of an
    # escaped identifier or of a string look like separators without being any)
    INSPECT = re.compile(r"^(ends_with|starts_with|chars|char_indices|bytes|as_bytes|last|contains|find|rfind|strip_suffix|strip_prefix|trim_end|trim|pop|truncate|is_empty|is_char_boundary)$")
    insp = []
    napp = 0
    for g in ctx.sc.fns:
        if g.base != "StyleSheetOutput" or not g.body or not g.name.startswith("append"):
            continue
        napp += 1
        for n in sir.walk(g.body, into_closures=True):
            if n.get("k") == "mcall" and INSPECT.match(n["m"]) and re.fullmatch(r"(&|&mut|\*|\s)*self\.s", sir.expr_str(n["recv"]).strip()):
                insp.append("%s looks at the text already written (`self.s.%s(..)`)" % (g.name, n["m"]))
    obs.append(ob("%s.sep/output-not-inspected" % prefix, napp >= 3 and not insp, "glass-easel-stylesheet-compiler/src/output.rs",
                  "; ".join(sorted(set(insp))) if insp else "the %d appenders only add to the output string" % napp,
                  witness=None if not insp else "`.\\31  .b`: the blank that ends the escape is taken for the combinator and `.1 .b` becomes `.1.b`"))
    return obs


# ------------------------------------------------------------------ C09

def class_flag_rule(ctx, prefix):
    ob = ctx.ob
    obs = []
    roles = _roles(ctx)
    for role in ("qualified-prelude", "class-block"):
        d = roles[role]
        where = ctx.where(d.fn)
        # the other spelling of the same discipline: one assignment after the dispatch, `in_class = <the token just handled is `.`>`
        inside = set(id(x) for x in sir.walk(d.node))
        after = [n for n in sir.walk(d.loop) if n.get("k") == "assign" and sir.expr_str(n["l"]) == "in_class" and id(n) not in inside]
        uniform = None
        if after and not any(n.get("k") == "assign" and sir.expr_str(n["l"]) == "in_class" for n in sir.walk(d.node)):
            def is_dot_test(e, depth=0):
                e = sir.strip_ref(e)
                if e.get("k") == "path" and len(e["segs"]) == 1 and depth < 2:
                    for st_ in sir.walk(d.loop):
                        if st_.get("k") == "local" and st_["pat"].get("name") == e["segs"][0] and st_.get("init") is not None:
                            return is_dot_test(st_["init"], depth + 1)
                    return False
                pat = None
                if e.get("k") == "mac" and e.get("name") == "matches":
                    pat = e.get("pat")
                elif e.get("k") == "match" and len(e["arms"]) == 2 and e["arms"][0]["body"].get("v") is True and e["arms"][1]["pat"].get("k") == "p_wild" and e["arms"][1]["body"].get("v") is False:
                    pat = e["arms"][0]["pat"]
                if pat is None:
                    return False
                ps_ = sir.pat_str(pat).replace(" ", "")
                return ps_ in ("Token::Delim('.')", "&Token::Delim('.')")
            uniform = len(after) == 1 and is_dot_test(after[0]["r"])
        if uniform is not None:
            uses_ok = all(any(n.get("k") in ("call", "mcall") and (sir.call_name(n) or n.get("m")) == "write_maybe_class_name" and sir.expr_str(n["args"][-1]) == "in_class" for n in sir.walk(a.body)) for a in d.arms if "Ident" in a.variants)
            for a in d.arms:
                label = "+".join(a.variants) + (("(%s)" % a.delim) if a.delim else "")
                okk = uniform and (uses_ok or "Ident" not in a.variants)
                obs.append(ob("%s.flag/%s/%s" % (prefix, role, label), okk, where, "after every token the flag is set to `the token was a .` by one assignment behind the dispatch: %s" % uniform))
            continue
        for a in d.arms:
            label = "+".join(a.variants) + (("(%s)" % a.delim) if a.delim else "")
            sets = [n["r"].get("v") for n in sir.walk(a.body) if n.get("k") == "assign" and sir.expr_str(n["l"]) == "in_class" and n["r"].get("k") == "lit"]
            returns = any(n.get("k") == "return" for n in sir.walk(a.body))
            key = "%s.flag/%s/%s" % (prefix, role, label)
            if "Delim" in a.variants and a.delim == ".":
                ok = sets == [True]
                obs.append(ob(key, ok, where, "`.` sets in_class = %s" % sets))
            elif "Ident" in a.variants:
                uses = any(n.get("k") in ("call", "mcall") and (sir.call_name(n) or n.get("m")) == "write_maybe_class_name" and sir.expr_str(n["args"][-1]) == "in_class" for n in sir.walk(a.body))
                ok = uses and sets == [False]
                obs.append(ob(key, ok, where, "identifier consumes the flag (write_maybe_class_name(.., in_class)=%s) and resets it (%s)" % (uses, sets),
                              witness=None if ok else "x:not(.a/**/b) is emitted as x:not(.p--a p--b): a type selector gets prefixed"))
            else:
                ok = sets == [False] or (returns and not sets) or (returns and sets == [False])
                obs.append(ob(key, ok, where, "any other token resets in_class (%s)%s" % (sets, " / leaves the loop" if returns else "")))
    # value routine never looks at class state
    v = roles["value-block"]
    uses = any(n.get("k") == "path" and n["s"] == "in_class" for n in sir.walk(v.fn.body)) or any(n.get("k") in ("call", "mcall") and (sir.call_name(n) or n.get("m")) == "write_maybe_class_name" for n in sir.walk(v.fn.body))
    obs.append(ob("%s.flag/value-routine" % prefix, not uses, ctx.where(v.fn), "declaration values are never rewritten as classes: %s" % (not uses)))
    return obs


def class_name_table(ctx, f, with_names=False):
    """what write_maybe_class_name emits for every combination of (class position, prefix configured, sign configured):
    -> list of problems, or None when a combination cannot be followed"""
    import absint as ai
    pn = [x for x in f.param_names() if x]
    if "in_class" not in pn:
        return None
    NEXT = ("E", "NEXT-TOKEN", ())

    def hooks(it, e, st):
        if e.get("k") == "call" and (sir.call_path(e) or "").endswith("StepToken::wrap") and e["args"]:
            vs = [o.value for o in it.ev(e["args"][0], st) if o.kind == "val"]
            return [(vs[0] if len(vs) == 1 else ai.UNK, st)]
        if e.get("k") == "mcall" and e["m"] in ("append_token", "append_token_space_preserved") and len(e["args"]) == 3:
            vs = [o.value for o in it.ev(e["args"][0], st) if o.kind == "val"]
            v = vs[0] if len(vs) == 1 else ai.UNK
            kind = "other"
            if v == NEXT:
                kind = "plain"
            elif isinstance(v, tuple) and v[:2] == ("E", "Comment"):
                kind = "sign"
            elif isinstance(v, tuple) and v[:2] == ("E", "Ident") and v[2] and isinstance(v[2][0], tuple) and v[2][0][:1] == ("FMT",) and "--" in v[2][0][1]:
                kind = "prefixed"
            elif ai.is_unknown(v):
                kind = "?"
            if with_names:
                ns_ = [o for o in it.ev(e["args"][2], st) if o.kind == "val"]
                nv = ns_[0].value if len(ns_) == 1 else ai.UNK
                if len(ns_) == 1:
                    st = ns_[0].st
                if isinstance(nv, tuple) and nv[:1] == ("Some",):
                    kind += "+name"
                elif nv != ai.NONE:
                    kind += "+?"
            return [(ai.UNIT, st.event(("emit", kind)))]
        if e.get("k") == "call":
            # a predicate of the crate over the token text: both answers are possible inputs, not an unknown of the analysis
            nm = (sir.call_name(e) or "").split("::")[-1]
            cs = [g for g in ctx.sc.fns if g.body and g.name == nm and g is not f and (g.ret or "").strip() == "bool" and not any("&mut" in (q.get("ty") or "") for q in g.params)]
            if len(cs) == 1:
                return [(ai.FREE, st)]
        return None
    probs = []
    for in_class in (True, False):
        for pfx in (("Some", ai.FREE), ai.NONE):
            for sign in (("Some", ai.FREE), ai.NONE):
                it = ai.Interp(hooks=hooks, idx=ctx.sc)
                it.field_vars = {"class_prefix", "class_prefix_sign"}
                env = {x: ai.FREE for x in pn}
                env.update({"self": ai.FREE, "in_class": in_class, "$f:class_prefix": pfx, "$f:class_prefix_sign": sign})
                for x in pn:
                    if x == "next":
                        env[x] = NEXT
                try:
                    outs = it.run(f.body, env)
                except ai.TooManyPaths:
                    return None
                want = (["sign"] if in_class and sign != ai.NONE else []) + (["prefixed" + ("+name" if with_names else "")] if in_class and pfx != ai.NONE else ["plain"])
                for o in outs:
                    got = [ev[1] for ev in o.events if ev[0] == "emit"]
                    if got != want:
                        if o.tainted or any("?" in x for x in got):
                            return None
                        probs.append("in a %s position, prefix %s, sign %s: writes %s (expected %s)" % ("class" if in_class else "non-class", "configured" if pfx != ai.NONE else "absent", "configured" if sign != ai.NONE else "absent", got or "nothing", want))
    return sorted(set(probs))


def class_only_rule(ctx, prefix):
    ob = ctx.ob
    obs = []
    sel = selector_routines(ctx)
    callers = set()
    for b in ctx.mir.bodies:
        if b["crate"] != "glass_easel_stylesheet_compiler":
            continue
        for c in b["calls"]:
            if sir.norm_mir_name(c["callee"]).endswith("write_maybe_class_name"):
                callers.add(b["root"].split("::")[-1])
    foreign = callers - sel
    obs.append(ob("%s.only/callers" % prefix, bool(callers) and not foreign, "lib.rs", "write_maybe_class_name is called from %s (selector-context routines: %s)" % (sorted(callers), sorted(sel))))
    # ... and the value routine never hands a part of a declaration value to a selector-context routine (resolved call graph)
    val = value_routine(ctx)
    into_sel = set()
    nval = 0
    for b in ctx.mir.bodies:
        if b["crate"] != "glass_easel_stylesheet_compiler" or b["root"].split("::")[-1] != val:
            continue
        nval += 1
        for c in b["calls"]:
            nm = sir.norm_mir_name(c["callee"]).split("::")[-1]
            if nm in sel:
                into_sel.add(nm)
    obs.append(ob("%s.only/value-never-selector" % prefix, nval >= 1 and not into_sel, "lib.rs",
                  "%s (declaration values) calls no selector-context routine" % val if not into_sel else "%s hands nested blocks of a declaration value to %s" % (val, sorted(into_sel)),
                  witness=None if not into_sel else "`grid-area:[main.start]`: `.start` inside a declaration value is prefixed like a class"))
    wf = [f for f in ctx.sc.fns if f.name == "write_maybe_class_name" and f.body]
    if len(wf) != 1:
        obs.append(ob("%s.only/anchor" % prefix, False, "lib.rs", "write_maybe_class_name not found"))
        return obs
    f = wf[0]
    where = ctx.where(f)
    # what is written under which dominating conditions (lib/guards.py reads nested ifs, early returns, if-let, matches and
    # Option::map closures alike)
    import guards as gd
    G = gd.guards_of(f.body)
    pfx_names = gd.derived_names(f.body, "class_prefix")
    pfx_names -= gd.derived_names(f.body, "class_prefix_sign") - gd.derived_names(f.body, "class_prefix.")

    def m_prefix(e):
        t = sir.expr_str(e)
        if "class_prefix_sign" in t:
            return False
        return "class_prefix" in t or any(x.get("k") == "path" and len(x["segs"]) == 1 and x["segs"][0] in pfx_names for x in sir.walk(e))
    sign_names = gd.derived_names(f.body, "class_prefix_sign")

    def m_sign(e):
        return "class_prefix_sign" in sir.expr_str(e) or any(x.get("k") == "path" and len(x["segs"]) == 1 and x["segs"][0] in sign_names for x in sir.walk(e))
    writes = [n for n in sir.walk(f.body) if n.get("k") == "mcall" and n["m"] in ("append_token", "append_token_space_preserved") and len(n["args"]) == 3]
    probs = []
    n_rewrite = n_plain = n_sign = 0
    for w in writes:
        gs = G.get(id(w), [])
        inc = gd.truth_of_flag(gs, "in_class")
        pst = gd.option_state(gs, m_prefix)
        sst = gd.option_state(gs, m_sign)
        a0, a2 = sir.expr_str(w["args"][0]), sir.expr_str(w["args"][2])
        tok = w["args"][0]
        # resolve `st` to its StepToken::wrap(..) initialiser
        if tok.get("k") == "path":
            for st_ in sir.walk(f.body):
                if st_.get("k") == "local" and st_["pat"].get("name") == sir.expr_str(tok) and st_.get("init") is not None and G.get(id(st_)) is not None and all(x in gs for x in G.get(id(st_), [])):
                    a0 = sir.expr_str(st_["init"])
        if "Token::Comment" in a0:
            n_sign += 1
            if inc is not True or sst != "some":
                probs.append("the sign comment is written under in_class=%s, sign=%s (expected: in a class position, when a sign is configured)" % (inc, sst))
            if pst is not None:
                probs.append("the sign comment depends on the class prefix (%s)" % pst)
        elif "Ident(src" in a2.replace(" ", ""):
            n_rewrite += 1
            if inc is not True or pst != "some":
                probs.append("the prefixed name is written under in_class=%s, prefix=%s (expected: in a class position, when a prefix is configured)" % (inc, pst))
        elif a2 == "None" and "next" in sir.expr_str(w["args"][0]):
            n_plain += 1
            if inc is True and pst == "some":
                probs.append("the identifier is copied unchanged although it is a class name and a prefix is configured")
            if inc is None and pst is None:
                # `else` of `in_class && prefix.is_some()`: a negated conjunction of exactly those two tests
                neg_conj = False
                for kind, subj, pol in gs:
                    if kind == "cond" and pol is False:
                        atoms = gd._conj(subj, True)
                        has_in = any(k_ == "cond" and a_.get("k") == "path" and sir.expr_str(a_) == "in_class" and p_ for k_, a_, p_ in atoms)
                        has_px = any(gd.option_state([at], m_prefix) == "some" for at in atoms)
                        if has_in and has_px and len(atoms) == 2:
                            neg_conj = True
                    if kind == "pat" and pol is False:
                        # `if let (true, Some(p)) = (in_class, prefix) {..} else { <here> }`: the same two tests as one tuple pattern
                        atoms = None
                        for nd in sir.walk(f.body):
                            if nd.get("k") == "if" and nd["cond"].get("k") == "let" and nd["cond"]["e"] is subj[0]:
                                atoms = gd._pat_guards(nd["cond"]["e"], nd["cond"]["pat"], True)
                        if atoms and len(atoms) == 2:
                            has_in = any(k_ == "cond" and a_.get("k") == "path" and sir.expr_str(a_) == "in_class" and p_ for k_, a_, p_ in atoms)
                            has_px = any(gd.option_state([at], m_prefix) == "some" for at in atoms)
                            if has_in and has_px:
                                neg_conj = True
                if not neg_conj:
                    probs.append("the identifier is copied unchanged on a path that does not test in_class / the prefix")
        else:
            probs.append("unrecognised write `%s`" % sir.expr_str(w)[:80])
    if not (n_rewrite == 1 and n_plain >= 1 and n_sign == 1):
        probs.append("expected one sign write, one rewriting write and at least one plain copy; found %d/%d/%d" % (n_sign, n_rewrite, n_plain))
    ok_cond = not probs
    # the decision itself is read from abstract outcomes (lib/absint.py), whatever its spelling; the guard-based reading above
    # only supplies detail when the interpreter cannot follow the function
    tab = class_name_table(ctx, f)
    if tab is not None:
        probs = tab
        ok_cond = not probs
    obs.append(ob("%s.only/condition" % prefix, ok_cond, where, "; ".join(probs) if probs else "a name is rewritten iff it is in a class position and a prefix is configured; the sign is written iff it is in a class position and a sign is configured; otherwise the token is copied",
                  witness=None if ok_cond else ".p--b with prefix p is left as .p--b instead of .p--p--b while the sign comment is still written"))
    fmts = [sir.format_call(n) for n in sir.walk(f.body) if sir.format_call(n)]
    ok_fmt = False
    for p in fmts:
        text = "".join(x[1] if x[0] == "lit" else "{}" for x in p)
        holes = [x[1] for x in p if x[0] == "hole"]
        if text == "{}--{}" and len(holes) == 2 and isinstance(holes[0], dict) and m_prefix(holes[0]) and sir.expr_str(holes[1]) == "src":
            ok_fmt = True
    obs.append(ob("%s.only/format" % prefix, ok_fmt, where, "the rewritten name is `{prefix}--{name}`: %s" % ok_fmt))
    # sign: Comment token with the configured content, original token as `src` for the source map
    sign = n_sign == 1
    src_ok = any(n.get("k") == "mcall" and n["m"] == "append_token_space_preserved" and len(n["args"]) == 3 and "Ident(src" in sir.expr_str(n["args"][2]) for n in sir.walk(f.body))
    obs.append(ob("%s.only/sign-and-src" % prefix, sign and src_ok, where, "sign comment from class_prefix_sign: %s; rewritten ident carries the original as source name: %s" % (sign, src_ok)))
    return obs


# ------------------------------------------------------------------ C10

def rpx_rules(ctx, prefix):
    ob = ctx.ob
    obs = []
    roles = _roles(ctx)
    for role in ("class-block", "value-block"):
        d = roles[role]
        arm = d.arm("Dimension") if d.has("Dimension") else None
        ok = arm is not None and "write_maybe_rpx_dimension" in d.calls(arm)
        obs.append(ob("%s.route/%s" % (prefix, role), ok, ctx.where(d.fn), "Dimension tokens of %s are routed through write_maybe_rpx_dimension: %s" % (role, ok)))
        # .. every one of them: the arms a Dimension can reach, in order, all route it, until one without a guard is reached, and
        # inside such an arm the call is not under a further condition
        import guards as gd
        probs = []
        closed = False
        for a in d.arms:
            if closed or not ("Dimension" in a.variants or "_" in a.variants):
                continue
            g_ = a.node.get("guard")
            routed = "write_maybe_rpx_dimension" in d.calls(a)
            if not routed:
                probs.append("a Dimension can reach the arm `%s`, which copies it" % sir.pat_str(a.node["pat"])[:40])
            else:
                G_ = gd.guards_of(a.body)
                for c in sir.walk(a.body):
                    if c.get("k") in ("call", "mcall") and sir.call_name(c) == "write_maybe_rpx_dimension" and G_.get(id(c)):
                        probs.append("the conversion routine is called under a condition inside the arm")
            if g_ is None:
                closed = True
        obs.append(ob("%s.route/%s/every" % (prefix, role), not probs, ctx.where(d.fn), "; ".join(probs) if probs else "no guard stands between a Dimension token and the conversion routine",
                      witness=None if not probs else "[data-w=10rpx]{} keeps 10rpx"))
    for role, why in (("qualified-prelude", "selector preludes hold no lengths outside nested blocks (those go to the class routine)"),):
        d = roles[role]
        obs.append(ob("%s.route/%s" % (prefix, role), True, ctx.where(d.fn), "tabled: %s" % why))
    d = roles["at-prelude"]
    has = d.has("Dimension") and "write_maybe_rpx_dimension" in d.calls(d.arm("Dimension"))
    obs.append(ob("%s.route/at-prelude" % prefix, has, ctx.where(d.fn),
                  "a bare dimension in an at-rule prelude %s converted" % ("is" if has else "is NOT") + ("" if has else " (`@a 75rpx;` keeps its rpx - this output is pinned by the test transform_rpx_in_simple_at_rules)"),
                  witness=None if has else "@a 75rpx; is emitted unchanged"))
    wf = [f for f in ctx.sc.fns if f.name == "write_maybe_rpx_dimension" and f.body]
    if len(wf) != 1:
        obs.append(ob("%s.expr/anchor" % prefix, False, "lib.rs", "write_maybe_rpx_dimension not found"))
        return obs
    f = wf[0]
    where = ctx.where(f)
    # unit test
    import guards as gd
    G = gd.guards_of(f.body)
    unit_names = gd.derived_names(f.body, "unit") | {"unit"}

    def text_of(e):
        """the text of a string literal or of a named text constant, through `.into()` / `.to_string()` / `&*`"""
        e = sir.strip_ref(e)
        while True:
            if e.get("k") == "mcall" and e["m"] in ("into", "to_string", "to_owned", "as_str", "as_ref", "clone") and not e["args"]:
                e = sir.strip_ref(e["recv"])
            elif e.get("k") == "unary" and e.get("op") == "*":
                e = sir.strip_ref(e["e"])
            elif e.get("k") == "paren":
                e = sir.strip_ref(e["e"])
            else:
                break
        if e.get("k") == "lit" and e.get("t") == "str":
            return e["v"]
        return sir.const_text(e)

    def unit_is_rpx(gs):
        val = None
        extra = []
        for kind, subj, pol in gs:
            if kind == "cond" and subj.get("k") == "binary" and subj.get("op") in ("==", "!="):
                sides = [subj["l"], subj["r"]]
                lit = [x for x in sides if text_of(x) == "rpx"]
                oth = [x for x in sides if x not in lit]
                if lit and oth and (sir.root_expr_name(sir.strip_ref(oth[0])) in unit_names or "unit" in sir.expr_str(oth[0])):
                    val = (subj["op"] == "==") == pol
                    continue
            extra.append(sir.expr_str(subj)[:40] if kind == "cond" else str(subj[1])[:40])
        return val, extra
    conv = [n for n in sir.walk(f.body) if n.get("k") == "struct" and n["path"].endswith("Dimension") and any(x["name"] == "unit" and text_of(x["e"]) == "vw" for x in n["fields"])]
    plain = [n for n in sir.walk(f.body) if n.get("k") == "mcall" and n["m"] == "append_token" and len(n["args"]) == 3 and sir.expr_str(n["args"][2]) == "None"]
    probs = []
    if len(conv) != 1:
        probs.append("%d places build a `vw` dimension" % len(conv))
    for n in conv:
        v, extra = unit_is_rpx(G.get(id(n), []))
        if v is not True or extra:
            probs.append("the vw token is built under `unit is rpx` = %s%s" % (v, (" and further conditions %s" % extra) if extra else ""))
    if not plain:
        probs.append("no unconverted re-emission found")
    for n in plain:
        v, extra = unit_is_rpx(G.get(id(n), []))
        if v is not False or extra:
            probs.append("the unconverted copy is written under `unit is rpx` = %s%s" % (v, (" and further conditions %s" % extra) if extra else ""))
    ok = not probs
    obs.append(ob("%s.expr/unit-test" % prefix, ok, where, "; ".join(probs) if probs else "the vw token is built exactly when the unit is `rpx`; any other unit is copied",
                  witness=None if ok else "0rpx / other guarded values keep the unit rpx"))
    # new value expression: what the `value` field of the vw token holds, read through the locals it is built from
    locs = {}
    for n in sir.walk(f.body):
        if n.get("k") == "local" and n["pat"].get("k") == "p_ident" and n.get("init") is not None:
            locs.setdefault(n["pat"]["name"], []).append(n["init"])
    params = set(x for x in f.param_names() if x)

    def resolved(e, depth=0):
        """source text of e with single-assignment locals replaced by their initialisers"""
        e0 = sir.strip_ref(e)
        if e0.get("k") == "path" and len(e0["segs"]) == 1 and e0["segs"][0] not in params and len(locs.get(e0["segs"][0], [])) == 1 and depth < 4:
            return resolved(locs[e0["segs"][0]][0], depth + 1)
        if e0.get("k") == "binary":
            return "%s%s%s" % (resolved(e0["l"], depth), e0["op"], resolved(e0["r"], depth))
        if e0.get("k") == "paren":
            return "(%s)" % resolved(e0["e"], depth)
        return sir.expr_str(e0)
    tokf = None
    for n in conv:
        tokf = {x["name"]: x["e"] for x in n["fields"]}
    okx = False
    dsc = "no vw token"
    vname = None
    if tokf and "value" in tokf:
        sv = resolved(tokf["value"]).replace(" ", "")
        dsc = sv
        okx = sv in ("value*100./ss.options.rpx_ratio", "value*100.0/ss.options.rpx_ratio", "value/ss.options.rpx_ratio*100.", "value*(100./ss.options.rpx_ratio)", "(value*100.)/ss.options.rpx_ratio")
        v0 = sir.strip_ref(tokf["value"])
        vname = v0["segs"][0] if v0.get("k") == "path" and len(v0["segs"]) == 1 else None
    obs.append(ob("%s.expr/formula" % prefix, okx, where, "converted value is `%s` (must be value*100/ratio with no further rounding)" % dsc,
                  witness=None if okx else "0.5rpx becomes 0.066667vw instead of 0.0666667vw"))
    # emitted token fields: the sign is forwarded, the integer flag is derived from the converted value
    okt = False
    shown = None
    if tokf:
        shown = {k_: sir.expr_str(v_).replace(" ", "") for k_, v_ in tokf.items()}
        iv = resolved(tokf["int_value"]) if "int_value" in tokf else ""
        # the initialiser of the integer flag, with its own locals opened one level (`rounded` = `<value>.round()`)
        iv_full = iv
        for nm_, inits_ in locs.items():
            if len(inits_) == 1 and re.search(r"\b%s\b" % re.escape(nm_), iv_full) and nm_ != vname:
                iv_full = re.sub(r"\b%s\b" % re.escape(nm_), "(" + sir.expr_str(inits_[0]).replace(" ", "") + ")", iv_full)
        # the flag may be computed by a private one-parameter helper (`integral_value(vw_value)`): its body is read with the
        # argument in place of the parameter
        def _open_helpers(e_, depth=0):
            out_ = ""
            e0_ = sir.strip_ref(e_)
            if e0_.get("k") == "path" and len(e0_["segs"]) == 1 and len(locs.get(e0_["segs"][0], [])) == 1 and depth < 3:
                return _open_helpers(locs[e0_["segs"][0]][0], depth + 1)
            for c_ in sir.walk(e0_):
                if c_.get("k") == "call" and len(c_["args"]) == 1:
                    gs_ = [g_ for g_ in ctx.sc.fns if g_.name == sir.call_name(c_) and g_.body and not g_.base and len(g_.params) == 1]
                    if len(gs_) == 1 and gs_[0].param_names()[0]:
                        body_ = " ".join(sir.expr_str(x_).replace(" ", "") for x_ in sir.walk(gs_[0].body) if x_.get("k") in ("mcall", "binary", "path", "call"))
                        for st_ in sir.walk(gs_[0].body):
                            if st_.get("k") == "local" and st_["pat"].get("k") == "p_ident" and st_.get("init") is not None:
                                body_ += "(" + sir.expr_str(st_["init"]).replace(" ", "") + ")"
                        out_ += " " + re.sub(r"\b%s\b" % re.escape(gs_[0].param_names()[0]), "(" + sir.expr_str(sir.strip_ref(c_["args"][0])).replace(" ", "") + ")", body_)
            return out_
        if "int_value" in tokf:
            iv_full += _open_helpers(tokf["int_value"])
            if vname is None:
                pass
        okt = shown.get("has_sign") == "has_sign" and bool(vname) and re.search(r"\b%s\b" % re.escape(vname), iv_full) is not None and ".round()" in iv_full and "EPSILON" in iv_full
    obs.append(ob("%s.expr/token" % prefix, okt, where, "emitted token: %s (expected: the converted value, has_sign forwarded, integer flag from the converted value, unit vw)" % shown,
                  witness=None if okt else "tiny or huge converted values snap to an integer / -0rpx becomes +0vw"))
    # the other branch forwards everything unchanged
    oth = None
    for n in sir.walk(f.body):
        if n.get("k") == "struct" and n["path"].endswith("Dimension"):
            fl = {x["name"]: sir.expr_str(x["e"]).replace(" ", "") for x in n["fields"]}
            if fl.get("unit", "").startswith("unit.clone") and fl.get("value") == "value" and fl.get("int_value") == "int_value" and fl.get("has_sign") == "has_sign":
                oth = fl
    obs.append(ob("%s.expr/other-units" % prefix, oth is not None, where, "dimensions with other units are re-emitted with value, sign, int flag and unit unchanged: %s" % (oth is not None)))
    # ratio is never modified after the options were given
    wr = []
    for b in ctx.mir.bodies:
        if b["crate"] != "glass_easel_stylesheet_compiler":
            continue
        for w in b["writes"]:
            if w["field"] == "rpx_ratio" and w["how"] == "assign" and not b["root"].endswith("default") and "js_bindings" not in b["root"] and "main" not in b["root"]:
                wr.append((b["root"], w["span"]))
    obs.append(ob("%s.expr/ratio-untouched" % prefix, not wr, "lib.rs", "options.rpx_ratio is not rewritten by the transformer: %s" % (wr or "no writers"),
                  witness=None if not wr else "10rpx at ratio 0.5 becomes 1000vw instead of 2000vw"))
    return obs


def tokens_only_rule(ctx, prefix):
    """output is produced from tokens: source text is never copied (raw appends replay text the compiler itself has written
    into the low-priority stream)"""
    ob = ctx.ob
    sc = ctx.sc
    obs = []
    raws = []
    for g in sc.fns:
        if not g.body or g.base == "StyleSheetOutput":
            continue
        for x in sir.walk(g.body, into_closures=True):
            if x.get("k") == "mcall" and x["m"] == "append_raw" and "low_priority_output" not in sir.expr_str(x["recv"]):
                raws.append("%s appends raw text to `%s`" % (g.name, sir.expr_str(x["recv"])[:40]))
            if x.get("k") == "mcall" and x["m"] in ("slice_from", "slice", "current_line") and "input" in sir.expr_str(x["recv"]):
                raws.append("%s takes a slice of the source text (`%s`)" % (g.name, x["m"]))
    obs.append(ob("%s.tokens-only" % prefix, not raws, "lib.rs", "; ".join(sorted(set(raws))[:3]) if raws else "no source text is copied into the output: everything is re-serialised from tokens",
                  witness=None if not raws else "@import 'a' (min-width: 750rpx); keeps `750rpx` when no import sign is configured"))
    return obs


def at_prelude_terminators_rule(ctx, prefix):
    """an at-rule ends at its block or at its `;`: in the loop that copies the prelude, every arm one of these two tokens can
    reach - in order, up to the first arm without a guard - ends the loop"""
    ob = ctx.ob
    roles = _roles(ctx)
    d = roles.get("at-prelude")
    if d is None:
        return [ob("%s.ctx/at-prelude/terminators" % prefix, None, "lib.rs", "the prelude loop of at-rules was not found")]
    probs = []
    for tok in ("CurlyBracketBlock", "Semicolon"):
        closed = False
        seen = 0
        for a in d.arms:
            if closed or not (tok in a.variants or "_" in a.variants):
                continue
            seen += 1
            ends = any(x.get("k") == "break" for x in sir.walk(a.body)) or any(x.get("k") == "return" and x.get("e") is not None and re.search(r"Ok\((false|False)\)|Err\(", sir.expr_str(x["e"]).replace(" ", "")) for x in sir.walk(a.body))
            if not ends:
                probs.append("a `%s` can reach the arm `%s`, which goes on reading" % ("{" if tok == "CurlyBracketBlock" else ";", sir.pat_str(a.node["pat"])[:30]))
            if a.node.get("guard") is None:
                closed = True
        if not seen:
            probs.append("no arm for %s" % tok)
    return [ob("%s.ctx/at-prelude/terminators" % prefix, not probs, ctx.where(d.fn), "; ".join(probs) if probs else "`{` and `;` end the at-rule on every path",
               witness=None if not probs else "@layer a, b; .x{} : the selector `.x` is swallowed by the prelude of @layer and stays unprefixed")]


def state_counters_rule(ctx, prefix):
    """a counter kept on the transformer (a depth, a budget) that a function raises is lowered again by that function: the
    walkers are re-entered for every block of the sheet, a leak makes later blocks look deeper than they are"""
    ob = ctx.ob
    sc = ctx.sc
    nums = set()
    for _m, st in sc.structs.get("StyleSheetTransformer", []):
        for fl in st.get("fields", []):
            if re.fullmatch(r"(u|i)(8|16|32|64|128|size)", (fl.get("ty") or "").strip()):
                nums.add(fl["name"])
    if not nums:
        return [ob("%s.state/counters" % prefix, True, "lib.rs", "the transformer keeps no counter between rules")]
    leaks = []
    for g in sc.fns:
        if not g.body:
            continue
        for fld in sorted(nums):
            ups = [x for x in sir.walk(g.body, into_closures=True) if x.get("k") == "binary" and x.get("op") == "+=" and sir.expr_str(x["l"]).endswith("." + fld)]
            downs = [x for x in sir.walk(g.body, into_closures=True) if x.get("k") == "binary" and x.get("op") == "-=" and sir.expr_str(x["l"]).endswith("." + fld)]
            if ups and not downs:
                leaks.append("%s raises `%s` %d time(s) and lowers it %d time(s)" % (g.name, fld, len(ups), len(downs)))
    return [ob("%s.state/counters" % prefix, not leaks, "lib.rs", "; ".join(leaks[:2]) if leaks else "counters %s are lowered wherever they are raised" % sorted(nums),
               witness=None if not leaks else "a sheet with more than 64 bracketed selectors: later declaration blocks are copied with their rpx unconverted")]


def options_untouched_rule(ctx, prefix):
    """the options a sheet is compiled with are read-only while it is compiled: no field of the options structure, nor the
    transformer's `options` field as a whole, is assigned or mutably borrowed (take, replace, mem::take, ..) outside constructors"""
    ob = ctx.ob
    oty = None
    for _m, st in ctx.sc.structs.get("StyleSheetTransformer", []):
        for fl in st.get("fields", []):
            if fl.get("name") == "options" and oty is None:
                oty = re.sub(r"^.*::", "", (fl.get("ty") or "").strip())
    if not oty:
        return [ob("%s.options/anchor" % prefix, False, "lib.rs", "the transformer's `options` field was not found")]
    wr = []
    n = 0
    for b in ctx.mir.bodies:
        if b["crate"] != "glass_easel_stylesheet_compiler":
            continue
        n += 1
        root = b["root"]
        if root.endswith("::new") or root.endswith("default") or "js_bindings" in root:
            continue
        for w in b["writes"]:
            adt = re.sub(r"^.*::", "", w.get("adt") or "")
            if (adt == oty) or (adt == "StyleSheetTransformer" and w["field"] == "options"):
                wr.append("%s %s `%s.%s` (%s)" % (root.split("::")[-1], "assigns" if w["how"] == "assign" else "mutably borrows", adt, w["field"], os.path.basename(w["span"])))
    return [ob("%s.options/untouched" % prefix, not wr, "lib.rs", "the options are read-only while a sheet is compiled (%d bodies scanned)" % n if not wr else "; ".join(sorted(set(wr))[:3]),
               witness=None if not wr else ".a{} :host{} .b{} with a class prefix: after the first `:host` rule the prefix is gone")]


def _conj(c):
    if c.get("k") == "binary" and c.get("op") == "&&":
        return _conj(c["l"]) + _conj(c["r"])
    if c.get("k") == "paren":
        return _conj(c["e"])
    return [c]


def int_rule(ctx, prefix, writer_only=False):
    ob = ctx.ob
    at = [f for f in ctx.sc.fns if f.name == "append_token" and f.base == "StyleSheetOutput" and f.body]
    if not at:
        return [ob("%s.int/anchor" % prefix, False, "output.rs", "append_token not found")]
    f = at[0]
    obs = []
    # which numeric token kinds are serialised from their integer value
    handled = set()
    for n in sir.walk(f.body):
        pats = []
        if n.get("k") == "arm":
            pats = [n["pat"]]
        elif n.get("k") in ("if",) and n["cond"].get("k") == "let":
            pats = [n["cond"]["pat"]]
        for p in pats:
            for sub in sir.walk(p):
                if sub.get("k") == "p_struct" and sub["segs"][-1] in ("Number", "Dimension", "Percentage"):
                    for fl in sub["fields"]:
                        if fl["name"] == "int_value" and fl["pat"].get("k") == "p_ts" and fl["pat"]["segs"][-1] == "Some":
                            handled.add(sub["segs"][-1])
    # how the handled kinds are written: digits from the bound integer, `+` iff has_sign and the integer is not negative, `-0` kept
    for n in sir.walk(f.body):
        if n.get("k") != "arm":
            continue
        for sub in sir.walk(n["pat"]):
            if not (sub.get("k") == "p_struct" and sub["segs"][-1] in ("Number", "Dimension", "Percentage")):
                continue
            iv = [fl for fl in sub["fields"] if fl["name"] == "int_value" and fl["pat"].get("k") == "p_ts" and fl["pat"]["segs"][-1] == "Some"]
            if not iv:
                continue
            kind = sub["segs"][-1]
            inner = iv[0]["pat"]["elems"][0]
            vname = inner.get("name") if inner.get("k") == "p_ident" else None
            body = n["body"]
            hs_name, val_name = "has_sign", "value"
            # the arm may hand the three fields to a private helper: judge the helper, with its parameter names
            bcall = body
            while bcall.get("k") == "block" and len(bcall["stmts"]) == 1 and bcall["stmts"][0].get("k") == "expr":
                bcall = bcall["stmts"][0]["e"]
            if bcall.get("k") == "call" and vname:
                cands = [g for g in ctx.sc.fns if g.name == sir.call_name(bcall) and g.body]
                if len(cands) == 1:
                    pn = [x for x in cands[0].param_names()]
                    amap = {}
                    for pname, a in zip(pn, bcall["args"]):
                        t_ = sir.expr_str(sir.strip_ref(a)).lstrip("*")
                        amap[t_] = pname
                    if vname in amap and "has_sign" in amap and "value" in amap:
                        body, vname, hs_name, val_name = cands[0].body, amap[vname], amap["has_sign"], amap["value"]
            probs = []
            if not vname:
                probs.append("the integer value is matched but not bound, so it cannot be what is written")
            else:
                digit_writes = []
                for x in sir.walk(body):
                    wf = sir.write_fmt_call(x)
                    if wf:
                        holes = [p_[1] for p_ in wf[1] if p_[0] != "lit" and isinstance(p_[1], dict)]
                        for h in holes:
                            h = sir.strip_ref(h)
                            while h.get("k") == "mcall" and h["m"] in ("to_string", "clone") and not h["args"]:
                                h = sir.strip_ref(h["recv"])
                            digit_writes.append(sir.expr_str(h).lstrip("*"))
                # the other spelling: the sign is picked into a local by an if-chain over literals and written in front of the digits
                # (`let sign = if v == 0 && value.is_sign_negative() { "-" } else if has_sign && v >= 0 { "+" } else { "" }`)
                others = sorted(set(d for d in digit_writes if d != vname))
                if vname in digit_writes and len(others) == 1 and re.fullmatch(r"\w+", others[0]):
                    ini = [l_["init"] for l_ in sir.walk(body) if l_.get("k") == "local" and l_["pat"].get("name") == others[0] and l_.get("init") is not None]
                    chain = []
                    cur_ = ini[-1] if len(ini) == 1 else None
                    okc_ = cur_ is not None
                    while okc_ and cur_ is not None:
                        if cur_.get("k") == "block" and len(cur_["stmts"]) == 1 and cur_["stmts"][0].get("k") == "expr":
                            cur_ = cur_["stmts"][0]["e"]
                            continue
                        if cur_.get("k") == "if" and cur_["cond"].get("k") != "let":
                            t_ = cur_["then"]
                            while t_.get("k") == "block" and len(t_["stmts"]) == 1 and t_["stmts"][0].get("k") == "expr":
                                t_ = t_["stmts"][0]["e"]
                            if t_.get("k") != "lit":
                                okc_ = False
                                break
                            chain.append((sorted(sir.expr_str(c).replace(" ", "").replace("*", "") for c in _conj(cur_["cond"])), t_.get("v")))
                            cur_ = cur_.get("else")
                            continue
                        if cur_.get("k") == "lit":
                            chain.append((None, cur_.get("v")))
                            cur_ = None
                            continue
                        okc_ = False
                    if okc_ and chain:
                        nz_c = sorted(["%s==0" % vname, "%s.is_sign_negative()" % val_name])
                        plus_ok = [c for c, v_ in chain if v_ == "+" and c is not None and len(c) == 2 and hs_name in c and any(x_ in c for x_ in ("%s>=0" % vname, "%s>-1" % vname, "!%s.is_negative()" % vname))]
                        want = [(nz_c, "-")] if chain and chain[0][1] == "-" else None
                        shape_ok = (len(chain) == 3 and chain[0] == (nz_c, "-") and len(plus_ok) == 1 and chain[1][1] == "+" and chain[2] == (None, "")
                                    and digit_writes == [others[0], vname])
                        if shape_ok:
                            obs.append(ob("%s.int/%s/writer" % (prefix, kind), True, ctx.where(f), "the sign (`-` for negative zero, `+` iff has_sign and %s >= 0, else nothing) is picked into `%s` and written in front of the digits of `%s`" % (vname, others[0], vname)))
                            continue
                        obs.append(ob("%s.int/%s/writer" % (prefix, kind), False, ctx.where(f), "the sign picked into `%s` is %s" % (others[0], chain),
                                      witness="z-index:16777217 / :nth-child(2n +0) change their value"))
                        continue
                if vname not in digit_writes:
                    probs.append("digits are written from `%s`, not from the integer `%s`" % (digit_writes, vname))
                if any(d != vname for d in digit_writes):
                    probs.append("something other than the integer is formatted: %s" % [d for d in digit_writes if d != vname])
                plus = [x for x in sir.walk(body) if x.get("k") == "if" and any(y.get("k") == "mcall" and y["m"] in ("push", "push_str") and y["args"] and sir.strip_ref(y["args"][0]).get("v") == "+" for y in sir.walk(x["then"]))]
                if len(plus) != 1:
                    probs.append("%d places write an explicit `+`" % len(plus))
                else:
                    cj = [sir.expr_str(c).replace(" ", "") for c in _conj(plus[0]["cond"])]
                    cj = [c.replace("*", "") for c in cj]
                    okc = hs_name in cj and any(c in ("%s>=0" % vname, "%s>-1" % vname, "!%s.is_negative()" % vname, "!(%s).is_negative()" % vname) for c in cj) and len(cj) == 2
                    if not okc:
                        probs.append("`+` is written under `%s` (expected: has_sign and the integer is not negative, so that `+0` keeps its sign)" % "&&".join(cj))
                nz = [x for x in sir.walk(body) if x.get("k") == "if" and any(y.get("k") == "mcall" and y["m"] == "push_str" and y["args"] and sir.strip_ref(y["args"][0]).get("v") == "-0" for y in sir.walk(x["then"]))]
                if len(nz) != 1 or sorted(sir.expr_str(c).replace(" ", "").replace("*", "") for c in _conj(nz[0]["cond"])) != sorted(["%s==0" % vname, "%s.is_sign_negative()" % val_name]):
                    probs.append("negative zero is not written as `-0` under `%s == 0 && value.is_sign_negative()`" % vname)
            obs.append(ob("%s.int/%s/writer" % (prefix, kind), not probs, ctx.where(f), "; ".join(probs) if probs else "digits come from the integer `%s`; `+` iff has_sign and %s >= 0; `-0` kept" % (vname, vname),
                          witness=None if not probs else "z-index:16777217 / :nth-child(2n +0) change their value"))
    # every other token kind is serialised by cssparser itself
    for n in sir.walk(f.body):
        if n.get("k") == "match" and any(x.get("k") == "mcall" and x["m"] == "to_css" for x in sir.walk(n)):
            for a in n["arms"]:
                kinds = [sub["segs"][-1] for sub in sir.walk(a["pat"]) if sub.get("k") in ("p_struct", "p_ts", "p_path") and len(sub.get("segs", [])) >= 2 and sub["segs"][-2] == "Token"]
                uses_to_css = any(x.get("k") == "mcall" and x["m"] == "to_css" for x in sir.walk(a["body"]))
                for kd in kinds:
                    if kd in ("Number", "Dimension", "Percentage"):
                        # numbers may be written by hand only from their integer value: the arm binds `int_value: Some(..)`
                        if not uses_to_css:
                            from_int = any(sub.get("k") == "p_struct" and any(fl["name"] == "int_value" and "Some" in sir.pat_str(fl["pat"]) for fl in sub["fields"]) for sub in sir.walk(a["pat"]))
                            if not from_int:
                                obs.append(ob("%s.ser/%s/non-integer" % (prefix, kd), False, ctx.where(f), "%s tokens without an integer value are written by hand (arm `%s`) instead of by cssparser" % (kd, sir.pat_str(a["pat"])[:60]),
                                              witness="line-height:1e10 is emitted as 2147483647"))
                        continue
                    obs.append(ob("%s.ser/%s" % (prefix, kd), uses_to_css, ctx.where(f), "%s tokens are %s" % (kd, "serialised by cssparser (to_css)" if uses_to_css else "serialised by hand instead of by cssparser's to_css: escaping of quotes, backslashes, newlines and non-printables is no longer the tokenizer's inverse"),
                              witness=None if uses_to_css else "a string or identifier containing `\\` changes its value"))
            wild = [a for a in n["arms"] if a["pat"].get("k") == "p_wild"]
            okw = len(wild) == 1 and any(x.get("k") == "mcall" and x["m"] == "to_css" for x in sir.walk(wild[0]["body"]))
            obs.append(ob("%s.ser/default" % prefix, okw, ctx.where(f), "all remaining token kinds go through to_css: %s" % okw))
    if writer_only:
        return obs
    for kind, wit in (("Number", "z-index:2147483647 is emitted as 2147480000"), ("Dimension", "width:16777217px is emitted as 16777200px"), ("Percentage", "16777217% is emitted as 16777200%")):
        ok = kind in handled
        obs.append(ob("%s.int/%s" % (prefix, kind), ok, ctx.where(f),
                      "integer-valued %s tokens are %s" % (kind, "written from their integer value" if ok else "serialised by cssparser from the f32 value with 6 significant digits: integers above 999999 are rounded"),
                      witness=None if ok else wit))
    return obs


# ------------------------------------------------------------------ C17

def host_rules(ctx, prefix):
    ob = ctx.ob
    obs = []
    sc = ctx.sc
    wl = [f for f in sc.fns if f.name == "write_in_low_priority" and f.body]
    if len(wl) != 1:
        return [ob("%s.pair/anchor" % prefix, False, "lib.rs", "write_in_low_priority not found")]
    f = wl[0]
    nodes = list(sir.walk(f.body))
    sets = [(i, n["r"].get("v")) for i, n in enumerate(nodes) if n.get("k") == "assign" and sir.expr_str(n["l"]) == "self.using_low_priority"]
    call = [i for i, n in enumerate(nodes) if n.get("k") == "call" and sir.expr_str(n["f"]) in f.param_names()]
    early = [n for n in nodes if n.get("k") in ("return", "try")]
    # loops over the enclosing at-rules (iterating the stack, or counting to its length), and the text each iteration appends
    locs = {n["pat"]["name"]: n["init"] for n in nodes if n.get("k") == "local" and n["pat"].get("k") == "p_ident" and n.get("init") is not None}

    def over_stack(e, depth=0):
        t = sir.expr_str(e)
        if "cur_at_rule_stacks" in t:
            return True
        return depth < 2 and any(x.get("k") == "path" and len(x["segs"]) == 1 and x["segs"][0] in locs and over_stack(locs[x["segs"][0]], depth + 1) for x in sir.walk(e))

    def appended_text(body):
        """literal skeleton appended to the low-priority output by one iteration (holes as \0)"""
        out = ""
        inner = {n["pat"]["name"]: n["init"] for n in sir.walk(body) if n.get("k") == "local" and n["pat"].get("k") == "p_ident" and n.get("init") is not None}
        for x in sir.walk(body):
            if x.get("k") == "mcall" and x["m"] == "append_raw" and x["args"]:
                a = sir.strip_ref(x["args"][0])
                if a.get("k") == "path" and len(a["segs"]) == 1 and a["segs"][0] in inner:
                    a = inner[a["segs"][0]]
                fc = sir.format_call(a)
                if a.get("k") == "lit" and a.get("t") == "str":
                    out += a["v"]
                elif fc is not None:
                    out += "".join(p_[1] if p_[0] == "lit" else "\x00" for p_ in fc)
                else:
                    out += "\x00"
        return out
    loops = [(i, n["body"]) for i, n in enumerate(nodes) if n.get("k") == "for" and over_stack(n["e"])]
    # the same iteration written as `stack.iter().for_each(|x| ..)`
    loops += [(i, a_["body"]) for i, n in enumerate(nodes) if n.get("k") == "mcall" and n["m"] in ("for_each", "try_for_each") and over_stack(n["recv"])
              for a_ in n["args"] if a_.get("k") == "closure"]
    loops.sort(key=lambda t: t[0])
    pre = [(i, appended_text(b_)) for i, b_ in loops if call and i < call[0]]
    post = [(i, appended_text(b_)) for i, b_ in loops if call and i > call[0]]
    ok = (len(sets) == 2 and sets[0][1] is True and sets[1][1] is False and bool(call) and sets[0][0] < call[0] < sets[1][0]
          and len(pre) == 1 and pre[0][1] == "\x00{" and len(post) == 1 and post[0][1] == "}" and not early)
    if not ok and not pre and not post and len(sets) == 2 and sets[0][1] is True and sets[1][1] is False and bool(call) and sets[0][0] < call[0] < sets[1][0] and not early:
        # no loop over the stack, but the stack is consulted on both sides of the body in some other form (text assembled with
        # iterator adaptors / `repeat(len)`): a form this rule does not read - not decided; a replay that is simply missing is a violation
        sides = [("cur_at_rule_stacks" in sir.expr_str(n) and n.get("k") in ("mcall", "field")) and (i < call[0], i > call[0]) for i, n in enumerate(nodes)]
        before_ = any(s_ and s_[0] for s_ in sides)
        after_ = any(s_ and s_[1] for s_ in sides)
        n_raw = sum(1 for n in nodes if n.get("k") == "mcall" and n["m"] == "append_raw")
        if before_ and after_ and n_raw >= 2:
            ok = None
    obs.append(ob("%s.pair/low-priority" % prefix, None if ok is None else bool(ok), ctx.where(f), "flag set %s around the body; before it every enclosing at-rule is replayed as %r, after it closed by %r (one each per stack entry), no early exit: %s" % (
        [v for _i, v in sets], [t for _i, t in pre], [t for _i, t in post], bool(ok))))
    # item + "{" per stack entry and same number of "}"
    wr = [f2 for f2 in sc.fns if f2.name == "wrap_at_rule_output" and f2.body]
    if wr:
        g = wr[0]
        nodes = list(sir.walk(g.body))
        push = [i for i, n in enumerate(nodes) if n.get("k") == "mcall" and n["m"] == "push" and "cur_at_rule_stacks" in sir.expr_str(n["recv"])]
        pop = [i for i, n in enumerate(nodes) if n.get("k") == "mcall" and n["m"] == "pop" and "cur_at_rule_stacks" in sir.expr_str(n["recv"])]
        call = [i for i, n in enumerate(nodes) if n.get("k") == "call" and sir.expr_str(n["f"]) == "f"]
        early = [n for n in nodes if n.get("k") in ("return", "try")]
        top = [st.get("e") if st.get("k") == "expr" else st.get("init") for st in g.body["stmts"]]
        top_push = [e for e in top if e is not None and e.get("k") == "mcall" and e["m"] == "push" and "cur_at_rule_stacks" in sir.expr_str(e["recv"])]
        top_pop = [e for e in top if e is not None and e.get("k") == "mcall" and e["m"] == "pop" and "cur_at_rule_stacks" in sir.expr_str(e["recv"])]
        ok = len(push) == 1 and len(pop) == 1 and call and push[0] < call[0] < pop[0] and not early and len(top_push) == 1 and len(top_pop) == 1
        obs.append(ob("%s.pair/at-rule-stack" % prefix, bool(ok), ctx.where(g), "at-rule prelude pushed (unconditionally) before and popped (unconditionally) after the nested rule list: %s" % bool(ok)))
    # who touches the two outputs
    owners = {"normal_output": set(), "low_priority_output": set(), "using_low_priority": set(), "cur_at_rule_stacks": set()}
    for b in ctx.mir.bodies:
        if b["crate"] != "glass_easel_stylesheet_compiler":
            continue
        for w in b["writes"]:
            if w["field"] in owners and w["adt"].endswith("StyleSheetTransformer"):
                owners[w["field"]].add(b["root"].split("::")[-1])
    allowed = {"normal_output": {"from_css", "current_output_mut", "output", "output_and_low_priority_output"},
               "low_priority_output": {"from_css", "current_output_mut", "write_in_low_priority", "output_and_low_priority_output"},
               "using_low_priority": {"from_css", "write_in_low_priority"},
               "cur_at_rule_stacks": {"from_css", "wrap_at_rule_output"}}
    for fld, ws in owners.items():
        foreign = ws - allowed[fld]
        obs.append(ob("%s.only/%s" % (prefix, fld), not foreign, "lib.rs", "StyleSheetTransformer.%s is mutated only by %s" % (fld, sorted(ws)) + ("" if not foreign else " - foreign: %s" % sorted(foreign))))
    # the :host branch of the qualified-rule parser
    pq = [f2 for f2 in sc.fns if f2.name == "parse_qualified_rule" and f2.body]
    if pq:
        g = pq[0]
        host_if = [n for n in sir.walk(g.body) if n.get("k") == "if" and "convert_host" in sir.expr_str(n["cond"])]

        def conjuncts(c):
            if c.get("k") == "binary" and c.get("op") == "&&":
                return conjuncts(c["l"]) + conjuncts(c["r"])
            return [c]
        ok = len(host_if) == 1 and any(re.fullmatch(r"(\w+\.)*options\.convert_host", sir.expr_str(c).replace(" ", "")) for c in conjuncts(host_if[0]["cond"]))
        d = "everything :host-related is behind a condition that implies options.convert_host (`%s`): %s" % (sir.expr_str(host_if[0]["cond"]) if host_if else None, ok)
        # other mentions of the host options outside that branch
        if ok:
            inside = set(id(x) for x in sir.walk(host_if[0]))
            stray = [sir.expr_str(x) for x in sir.walk(g.body) if x.get("k") == "field" and x.get("name") in ("host_is", "convert_host") and id(x) not in inside]
            if stray:
                ok = False
                d = "host options are consulted outside the convert_host branch: %s" % stray
        if ok:
            blk = host_if[0]["then"]
            # invalid combination: warning and no output
            # read through dominating conditions (if/else, early return, match are the same thing): the warning is raised where
            # `invalid` is Some, the low-priority write happens where it is None, and nothing is written where it is Some
            import guards as gdm2
            GI = gdm2.guards_of(g.body)
            inv_names = gdm2.derived_names(blk, "invalid") | {"invalid"}

            def inv_state(n_):
                return gdm2.option_state(GI.get(id(n_), []), lambda e_: any(x.get("k") == "path" and len(x["segs"]) == 1 and x["segs"][0] in ("invalid",) for x in sir.walk(e_)))
            warns = [x for x in sir.walk(blk) if x.get("k") == "mcall" and x["m"] == "add_warning" and "HostSelectorCombination" in sir.expr_str(x)]
            lows = [x for x in sir.walk(blk) if x.get("k") == "mcall" and x["m"] == "write_in_low_priority"]
            outs_ = [x for x in sir.walk(blk, into_closures=False) if x.get("k") in ("mcall", "call") and (sir.call_name(x) or "").startswith(("append_", "convert_")) ]
            t_warn = bool(warns) and all(inv_state(x) == "some" for x in warns)
            e_low = bool(lows) and all(inv_state(x) == "none" for x in lows)
            t_out = any(inv_state(x) == "some" for x in outs_)
            ok2 = (not t_out) and t_warn and e_low
            obs.append(ob("%s.only/illegal-combination" % prefix, ok2, ctx.where(g), ":host combined with other selectors: warning, no output in either stream; plain :host: written through write_in_low_priority: %s" % ok2))
            # detection is exact: `:` followed by the identifier `host` (plain) or the function `host(` (illegal combination)
            det = None
            for m in sir.walk(blk):
                if m.get("k") == "match" and any("Token::Ident" in sir.pat_str(a["pat"]) for a in m["arms"]) and any("Token::Function" in sir.pat_str(a["pat"]) for a in m["arms"]) and len(m["arms"]) == 3:
                    det = m
                    break
            okd = False
            dd = "detection match not found"
            if det is not None:
                probs = []
                import guards as gdm
                GG = gdm.guards_of(g.body)

                def is_host_lit(x):
                    x = sir.strip_ref(x)
                    return x.get("k") == "lit" and x.get("t") in ("str", "bytestr") and x.get("v") == "host"

                def host_equality(kind, subj, pol):
                    """the guard says: the name equals `host`"""
                    if kind != "cond":
                        return False
                    c_ = subj
                    while c_.get("k") == "paren":
                        c_ = c_["e"]
                    if c_.get("k") == "binary" and c_.get("op") in ("==", "!=") and (is_host_lit(c_["l"]) or is_host_lit(c_["r"])):
                        return (c_["op"] == "==") == pol
                    if c_.get("k") == "mcall" and c_["m"] in ("eq", "eq_ignore_ascii_case") and c_["args"] and is_host_lit(c_["args"][0]):
                        return pol
                    return False
                for a in det["arms"][:2]:
                    # the value the arm yields (its tail) is reached only when the name equals `host`: as the arm's guard, or
                    # because every other case has returned before
                    tail = a["body"]
                    while tail.get("k") == "block" and tail["stmts"]:
                        last_ = tail["stmts"][-1]
                        tail = last_["e"] if last_.get("k") == "expr" else last_
                    exact = any(host_equality(*g_) for g_ in GG.get(id(tail), []))
                    if not exact:
                        probs.append("arm `%s` yields its value under %s, not under equality with `host`" % (sir.pat_str(a["pat"]), [sir.expr_str(g_[1])[:40] if g_[0] == "cond" else g_[1][1][:40] for g_ in GG.get(id(tail), [])][-2:]))
                last = det["arms"][2]
                if not (last["pat"].get("k") == "p_wild" and last["body"].get("k") == "return" and last["body"].get("e") is not None and sir.expr_str(last["body"]["e"]).startswith("Err(")):
                    probs.append("anything else must fail the look-ahead (`_ => return Err`)")
                okd = not probs
                dd = "; ".join(probs) if probs else "`:host` / `:host(` are recognised by exact comparison; any other token fails the look-ahead and the rule is parsed normally"
            obs.append(ob("%s.only/detection" % prefix, okd, ctx.where(g), dd, witness=None if okd else "`:host-context(.dark) .a{}` is swallowed as an illegal :host combination"))
            # the selector written: [wx-host="<prefix>"] (,[is="<host>"])
            lits = [x.get("v") for x in sir.walk(blk) if x.get("k") == "lit" and x.get("t") == "str"]
            ok3 = "wx-host" in lits and "is" in lits and b"host".decode() in [y for y in lits] or ("wx-host" in lits and "is" in lits)
            # .. and which parts are written depends on the options being present, not on their values: `[wx-host=..]` always,
            # `,[is=..]` exactly when a host name is configured (tabulated with lib/absint.py over host_is = None / Some)
            import absint as ai
            clos = [a_ for x in lows for a_ in x["args"] if a_.get("k") == "closure"]
            if len(clos) == 1:
                def hk(it, e, st):
                    if e.get("k") in ("call", "mcall"):
                        ls = [x.get("v") for x in e["args"] if x.get("k") == "lit" and x.get("t") == "str"]
                        if ls and ls[0] in ("wx-host", "is"):
                            return [(ai.UNIT, st.event(("sel", ls[0])))]
                        if e.get("k") == "mcall" and e["m"].startswith("append_"):
                            return [(ai.UNIT, st)]
                        if e.get("k") == "call" and (sir.call_path(e) or "").split("::")[-1] in ("wrap_at", "wrap"):
                            return [(ai.FREE, st)]
                        if e.get("k") == "call" and any(h.name == (sir.call_name(e) or "").split("::")[-1] and h.body for h in sc.fns):
                            return [(ai.FREE, st)]
                    return None
                wrong, und = [], False
                for label, hv in (("absent", ai.NONE), ("configured", ("Some", ai.FREE))):
                    it = ai.Interp(hooks=hk, idx=sc)
                    it.field_vars = {"host_is", "class_prefix"}
                    env = {"ss": ai.FREE, "input": ai.FREE, "next": ai.FREE, "$f:host_is": hv, "$f:class_prefix": ai.FREE}
                    for p_ in clos[0].get("params", []) or []:
                        if isinstance(p_, dict) and p_.get("name"):
                            env[p_["name"]] = ai.FREE
                    try:
                        outs = it.run(clos[0]["body"], env)
                    except ai.TooManyPaths:
                        outs = []
                    if not outs:
                        und = True
                    for o in outs:
                        got = [ev[1] for ev in o.events if ev[0] == "sel"]
                        want = ["wx-host"] + (["is"] if label == "configured" else [])
                        if got[:len(want)] != want or len([x for x in got if x == "is"]) != (1 if label == "configured" else 0):
                            if o.tainted:
                                und = True
                            else:
                                wrong.append("host name %s: writes %s" % (label, got or "nothing"))
                obs.append(ob("%s.only/host-selector/parts" % prefix, False if wrong else None if und else True, ctx.where(g),
                              "; ".join(sorted(set(wrong))) if wrong else "`[wx-host=..]` always, `,[is=..]` exactly when a host name is configured" if not und else "the selector emission was not followed: not decided",
                              witness=None if not wrong else "host_is = \"\" : `:host{}` becomes `[wx-host=\"p\"]{}` without `,[is=\"\"]`"))
            # .. and where they point: the tokens synthesised for the selector carry the position of the token that stands for the
            # rule in the source (`wrap_at(&next)` / `next.position`), not a cursor position sampled while the rule is being replayed
            if len(clos) == 1:
                cursor_pos = []
                n_w = 0
                for x in sir.walk(clos[0]["body"], into_closures=True):
                    if x.get("k") == "call" and (sir.call_path(x) or "").split("::")[-1] in ("wrap", "wrap_at") and "StepToken" in (sir.call_path(x) or "") and len(x["args"]) == 2:
                        n_w += 1
                        a2 = sir.strip_ref(x["args"][1])
                        if a2.get("k") == "path" and len(a2["segs"]) == 1:
                            inits = [l_["init"] for l_ in sir.walk(clos[0]["body"], into_closures=True) if l_.get("k") == "local" and l_["pat"].get("name") == a2["segs"][0] and l_.get("init") is not None]
                            a2 = sir.strip_ref(inits[-1]) if inits else a2
                        t2 = sir.expr_str(a2).replace(" ", "")
                        if re.search(r"\.position\(\)$", t2) or re.search(r"Default::default\(\)|Position::default\(\)", t2):
                            cursor_pos.append(t2[:40])
                obs.append(ob("%s.only/host-selector/position" % prefix, (not cursor_pos) if n_w else None, ctx.where(g),
                              "%d synthesised tokens, each placed at a source token" % n_w if not cursor_pos else "synthesised tokens are placed at `%s`" % cursor_pos[0],
                              witness=None if not cursor_pos else "the low-priority source map points the `[wx-host=..]` tokens into the rule body"))
            obs.append(ob("%s.only/host-selector" % prefix, bool(ok3), ctx.where(g), "low-priority selector is built from `wx-host` (class prefix) and `is` (host_is): %s" % [l for l in lits if l in ("wx-host", "is")]))
            # declarations of the :host rule are transformed by the value routine
            ok4 = any(x.get("k") == "call" and sir.call_name(x) == value_routine(ctx) for x in sir.walk(blk))
            obs.append(ob("%s.only/host-declarations" % prefix, ok4, ctx.where(g), "declarations of a :host rule go through %s like any other: %s" % (value_routine(ctx), ok4)))
            # ... and in the same mode as the declarations of an ordinary rule (sibling agreement of the two call sites)
            vr = value_routine(ctx)
            host_calls = [x for x in sir.walk(blk, into_closures=True) if x.get("k") == "call" and sir.call_name(x) == vr]
            host_ids = set(id(x) for x in host_calls)
            plain_calls = [x for x in sir.walk(g.body, into_closures=True) if x.get("k") == "call" and sir.call_name(x) == vr and id(x) not in host_ids]
            hm = set(sir.expr_str(a).replace(" ", "") for x in host_calls for a in x["args"][2:])
            pm_ = set(sir.expr_str(a).replace(" ", "") for x in plain_calls for a in x["args"][2:])
            if host_calls and plain_calls:
                opaque = any(re.fullmatch(r"\w+", t) and t != "None" for t in hm | pm_)
                obs.append(ob("%s.only/host-declarations/mode" % prefix, True if hm == pm_ else (None if opaque else False), ctx.where(g),
                              "the declarations of a :host rule and of an ordinary rule are transformed in the same mode: %s vs %s" % (sorted(hm), sorted(pm_)),
                              witness=None if hm == pm_ else "`:host{--gap:4px + 2rpx}` and `.a{--gap:4px + 2rpx}` come out with different spacing"))
        obs.append(ob("%s.only/guard" % prefix, ok, ctx.where(g), d))
    # nested rule lists inside at-rules are wrapped (so :host inside @media gets its wrappers)
    roles = _roles(ctx)
    d = roles["at-prelude"]
    curly = d.arm("CurlyBracketBlock")
    deep = d.calls_deep(curly, ctx.sc) if curly is not None else []
    ok = curly is not None and "wrap_at_rule_output" in deep and "get_output_segment" in deep
    obs.append(ob("%s.pair/at-rule-capture" % prefix, ok, ctx.where(d.fn), "the at-rule prelude text is captured from the output and kept on the stack while its block is parsed: %s" % ok))
    # the captured text ends where the output stands when the block opens: the end bound is read in the arm itself (a length kept
    # from an earlier token would cut the tail of the prelude off)
    if curly is not None:
        segs = [n for n in sir.walk(curly.body, into_closures=True) if n.get("k") == "mcall" and n["m"] == "get_output_segment" and n["args"]]
        bad = []
        for n in segs:
            r = sir.strip_ref(n["args"][0])
            if r.get("k") == "path" and len(r["segs"]) == 1:
                ins = [l_["init"] for l_ in sir.walk(curly.body, into_closures=True) if l_.get("k") == "local" and l_["pat"].get("name") == r["segs"][0] and l_.get("init") is not None]
                r = sir.strip_ref(ins[-1]) if ins else r
            if r.get("k") != "range" or r.get("to") is None:
                bad.append("the captured range `%s` is not built in the arm" % sir.expr_str(r))
                continue
            to = r["to"]
            if to.get("k") == "path" and len(to["segs"]) == 1:
                ins = [l_["init"] for l_ in sir.walk(curly.body, into_closures=True) if l_.get("k") == "local" and l_["pat"].get("name") == to["segs"][0] and l_.get("init") is not None]
                if not ins:
                    # read earlier in the same attempt (one token is read per attempt, and reading writes nothing): the closure that
                    # contains the arm declares it and nothing assigns it afterwards
                    pm_f = sir.parent_map(d.fn.body)
                    cl_ = curly.node
                    while id(cl_) in pm_f and cl_.get("k") != "closure":
                        cl_ = pm_f[id(cl_)]
                    if cl_.get("k") == "closure":
                        ins = [l_["init"] for l_ in sir.walk(cl_["body"], into_closures=False) if l_.get("k") == "local" and l_["pat"].get("name") == to["segs"][0] and l_.get("init") is not None]
                        if any(x.get("k") == "assign" and sir.expr_str(x["l"]) == to["segs"][0] for x in sir.walk(d.fn.body, into_closures=True)):
                            ins = []
                if not ins:
                    bad.append("the end of the captured range, `%s`, was taken before the block token was reached" % to["segs"][0])
                    continue
                to = ins[-1]
            if not (to.get("k") == "mcall" and to["m"] in ("cur_output_utf8_len", "cur_utf8_len")):
                bad.append("the end of the captured range is `%s`, not the current output length" % sir.expr_str(to))
        obs.append(ob("%s.pair/at-rule-capture/end" % prefix, (not bad) if segs else None, ctx.where(d.fn),
                      "; ".join(bad) if bad else "the captured prelude ends at the output length read when the block opens (%d site(s))" % len(segs),
                      witness=None if not bad else "`@layer base{:host{..}}`: the wrapper replayed in the low-priority output is `@layer{`"))
    obs += capture_offsets_rule(ctx, prefix)
    return obs


def capture_offsets_rule(ctx, prefix):
    """the offsets used to slice the prelude text out of the output are byte lengths of that same string"""
    ob = ctx.ob
    sc = ctx.sc
    obs = []
    cu = [f for f in sc.fns if f.name == "cur_utf8_len" and f.base == "StyleSheetOutput" and f.body]
    gs = [f for f in sc.fns if f.name == "get_output_segment" and f.base == "StyleSheetOutput" and f.body]
    ok1 = len(cu) == 1 and sir.expr_str(cu[0].body["stmts"][-1]["e"]).replace(" ", "") == "self.s.len()"
    ok2 = len(gs) == 1 and sir.expr_str(gs[0].body["stmts"][-1]["e"]).replace(" ", "") in ("&self.s[range]", "&self.s[range.start..range.end]")
    obs.append(ob("%s.pair/capture-offsets" % prefix, ok1 and ok2, "glass-easel-stylesheet-compiler/src/output.rs",
                  "cur_utf8_len() is the byte length of the output string (%s) and get_output_segment() slices that string by bytes (%s)" % (ok1, ok2),
                  witness=None if ok1 and ok2 else "any non-ASCII output before an at-rule shifts the replayed wrapper or panics on a char boundary"))
    # transformer-level wrappers delegate to the current output
    for nm, inner in (("cur_output_utf8_len", "cur_utf8_len"), ("get_output_segment", "get_output_segment")):
        # every read of the output's length / text made by the transformer goes to the stream currently written to - through a
        # delegating method of the transformer or directly
        sites = []
        for g in sc.fns:
            if not g.body or g.base == "StyleSheetOutput":
                continue
            for n in sir.walk(g.body):
                if n.get("k") == "mcall" and n["m"] == inner and sir.expr_str(n["recv"]) not in ("self", "ss") and "output" in sir.expr_str(n["recv"]):
                    sites.append((g.name, sir.expr_str(n["recv"])))
        okd = bool(sites) and all("current_output()" in r or "current_output_mut()" in r for _g, r in sites)
        obs.append(ob("%s.pair/capture-delegates/%s" % (prefix, nm), okd, "lib.rs", "%s of the output is read from the stream currently written to at %s" % (inner, sites)))
    return obs


# ------------------------------------------------------------------ C18

def warning_sink_rule(ctx, prefix):
    """a flagged defect is reported: the warning sink of the transformer never drops a warning"""
    import guards as gdm
    ob = ctx.ob
    aw = [g for g in ctx.sc.fns if g.name == "add_warning" and g.base == "StyleSheetTransformer" and g.body]
    if not aw:
        return []
    GA = gdm.guards_of(aw[0].body)
    pushes = [n for n in sir.walk(aw[0].body) if n.get("k") == "mcall" and n["m"] == "push" and "warnings" in sir.expr_str(n["recv"])]
    cond_push = [p_ for p_ in pushes if GA.get(id(p_))]
    okw = len(pushes) >= 1 and not cond_push and not any(n.get("k") == "return" for n in sir.walk(aw[0].body))
    return [ob("%s.position/warning-sink" % prefix if prefix == "C18" else "%s.warn/sink" % prefix, okw, ctx.where(aw[0]), "add_warning records every warning it is given: %s" % okw,
               witness=None if okw else "several flagged rules on one line (minified CSS): only the first is reported")]


def host_extra_rules(ctx, prefix):
    """obligations added after the eighth wave of seeded changes (C17)"""
    ob = ctx.ob
    sc = ctx.sc
    obs = []
    pq = [g for g in sc.fns if g.name == "parse_qualified_rule" and g.body]
    if not pq:
        return obs
    g = pq[0]
    where = ctx.where(g)
    # the look-ahead that recognises `:host` is one transaction: the colon is consumed inside the try_parse that is rolled back
    # when the rule turns out not to be a :host rule
    det = None
    for n in sir.walk(g.body):
        if n.get("k") == "mcall" and n["m"] == "try_parse":
            for a_ in n["args"]:
                if a_.get("k") == "closure" and any(x.get("k") == "lit" and x.get("v") == "host" for x in sir.walk(a_["body"])):
                    det = a_
    colons = [n for n in sir.walk(g.body) if n.get("k") == "mcall" and n["m"] == "expect_colon"]
    if det is None or not colons:
        obs.append(ob("%s.only/one-transaction" % prefix, None, where, "the :host look-ahead is not in a form this rule reads"))
    else:
        inside = set(id(x) for x in sir.walk(det["body"]))
        outside = [c for c in colons if id(c) not in inside]
        obs.append(ob("%s.only/one-transaction" % prefix, not outside, where, "the leading colon is consumed inside the look-ahead that is rolled back for ordinary rules" if not outside else "a leading colon is consumed outside the :host look-ahead: it is not given back when the rule is an ordinary one",
                      witness=None if not outside else ":root{} is emitted as root{}"))
        # once `:host` has been recognised the rule is committed: nothing after the detection fails the look-ahead again
        detm = None
        for m in sir.walk(det["body"]):
            if m.get("k") == "match" and any("Token::Ident" in sir.pat_str(a["pat"]) for a in m["arms"]) and any("Token::Function" in sir.pat_str(a["pat"]) for a in m["arms"]):
                detm = m
                break
        if detm is not None:
            order = list(sir.walk(det["body"]))
            pos = {id(x): i for i, x in enumerate(order)}
            end_det = max(pos[id(x)] for x in sir.walk(detm))
            late = [x for x in order[end_det + 1:] if x.get("k") == "return" and x.get("e") is not None and sir.expr_str(x["e"]).startswith("Err(")]
            late += [x for x in order[end_det + 1:] if x.get("k") == "try" and x["e"].get("k") != "mcall"]
            obs.append(ob("%s.only/committed" % prefix, not late, where, "after `:host` has been recognised the look-ahead no longer fails" if not late else "after `:host` has been recognised the look-ahead can still fail (%d exit(s)): the rule falls back to the normal stream although it is a :host rule" % len(late),
                          witness=None if not late else "`:host, .a {}` stays in the normal output, without a warning"))
    return obs


def source_token_rules(ctx, prefix):
    """obligations added after the eighth wave of seeded changes (C19)"""
    ob = ctx.ob
    sc = ctx.sc
    obs = []
    # wave 10 (a) every token that is appended is mapped: the registration in `append_token` stands under no condition
    import guards as gdm3
    at_ = [f for f in sc.fns if f.name == "append_token" and f.base == "StyleSheetOutput" and f.body]
    if at_:
        Gm = gdm3.guards_of(at_[0].body)
        adds = [n for n in sir.walk(at_[0].body) if n.get("k") == "mcall" and n["m"] in ("add_raw", "add") and "source_map" in sir.expr_str(n["recv"])]
        conds = [sir.expr_str(sj)[:50] if kd == "cond" else sir.expr_str(sj[0])[:50] for n in adds for kd, sj, pl in Gm.get(id(n), [])]
        obs.append(ob("%s.map/unconditional" % prefix, bool(adds) and not conds, ctx.where(at_[0]), "every appended token is registered in the map" if adds and not conds else "the registration depends on %s" % conds[:2],
                      witness=None if adds and not conds else "a sheet that starts with a token at 0:0 (no leading blank): its first token has no mapping"))
    # wave 10 (b) a synthesised token is placed at a token of the source: no token is built at the default position (0:0 is the
    #     position of the sheet's first character)
    dflt = []
    cursor = []
    n_wraps = 0
    for g in sc.fns:
        if not g.body or g.base == "StepToken":
            continue
        for x in sir.walk(g.body, into_closures=True):
            if x.get("k") == "call" and (sir.call_path(x) or "").endswith("StepToken::wrap") and len(x["args"]) == 2:
                n_wraps += 1
                if re.search(r"default\(\)", sir.expr_str(x["args"][1])):
                    dflt.append("%s builds a token at `%s`" % (g.name, sir.expr_str(x["args"][1])[:30]))
                # ... nor at the reader's current position: after a look-ahead that is the *next* token, not the one that caused
                # the synthesised token (every existing site takes `.position` of a token it holds)
                a1_ = sir.strip_ref(x["args"][1])
                # (a position sampled into a local *before* the statement is read - the start of an `@import` - is a source token's)
                if a1_.get("k") == "mcall" and a1_["m"] == "position" and not a1_["args"]:
                    cursor.append("%s builds a token at the reader's position `%s`" % (g.name, sir.expr_str(a1_)[:30]))
    obs.append(ob("%s.src/no-default-position" % prefix, False if dflt else True if n_wraps >= 10 else None, "lib.rs", "; ".join(sorted(set(dflt))[:2]) if dflt else "%d synthesised tokens, none at the default position" % n_wraps,
                  witness=None if not dflt else "the braces of a replayed `@media` wrapper are mapped to 0:0, the `@` of the first rule"))
    obs.append(ob("%s.src/token-position" % prefix, False if cursor else True if n_wraps >= 10 else None, "lib.rs", "; ".join(sorted(set(cursor))[:2]) if cursor else "%d synthesised tokens, each placed at a token it was built for" % n_wraps,
                  witness=None if not cursor else "`@import 'a' supports(display:grid);`: the synthesised `(` is mapped to `display`, not to `supports(`"))
    # wave 11: what is written out is the mapped string and nothing else: a prologue written by `write` shifts every column of the map
    wr_bad, n_wr = [], 0
    for g in sc.fns:
        if g.base != "StyleSheetOutput" or not g.body or g.name not in ("write", "write_str"):
            continue
        n_wr += 1
        outs_ = []
        for x in sir.walk(g.body, into_closures=True):
            wf_ = sir.write_fmt_call(x)
            if wf_:
                outs_.append("".join(p_[1] if p_[0] == "lit" else "{%s}" % sir.expr_str(sir.strip_ref(p_[1])) for p_ in wf_[1]).replace(" ", ""))
            elif x.get("k") == "mcall" and x["m"] in ("write_all", "write", "write_str", "push_str") and x["args"]:
                outs_.append("{%s}" % sir.expr_str(sir.strip_ref(x["args"][0])).replace(" ", "").replace(".as_bytes()", ""))
        if outs_ != ["{self.s}"]:
            wr_bad.append("%s writes %s" % (g.name, outs_))
    obs.append(ob("%s.map/output-is-mapped-text" % prefix, False if wr_bad else True if n_wr == 2 else None, "glass-easel-stylesheet-compiler/src/output.rs",
                  "; ".join(wr_bad) if wr_bad else "write and write_str put out the mapped string and nothing else",
                  witness=None if not wr_bad else "a sheet with a non-ASCII character: every token sits 17 columns to the right of its map entry"))
    # wave 9 (a) of the tokens written for a class name only the rewritten identifier carries the original spelling as its name
    wf = [f for f in sc.fns if f.name == "write_maybe_class_name" and f.body]
    if len(wf) == 1:
        tab = class_name_table(ctx, wf[0], with_names=True)
        obs.append(ob("%s.names/class" % prefix, None if tab is None else not tab, ctx.where(wf[0]),
                      "not followed: not decided" if tab is None else "; ".join(tab) if tab else "the sign comment and a copied identifier carry no name; the prefixed identifier carries the source spelling",
                      witness=None if not tab else "with a prefix sign, the comment gets the class name and the rewritten class has none"))
    # wave 9 (b) brackets opened for wrappers are closed innermost first: each closer carries the position of its own opener, so
    #     the stack of closers is consumed from its end (pop / reversed iteration), never front to back
    fifo, n_cl = [], 0
    for g in sc.fns:
        if not g.body:
            continue
        for lp in sir.walk(g.body, into_closures=True):
            if lp.get("k") == "for":
                t = sir.expr_str(lp["e"]).replace(" ", "")
                vs_ = set(x["name"] for x in sir.walk(lp["pat"]) if x.get("k") == "p_ident")
                if any(x.get("k") == "mcall" and x["m"] == "append_nested_block_close" and x["args"] and sir.expr_str(sir.strip_ref(x["args"][0])) in vs_ for x in sir.walk(lp["body"])):
                    n_cl += 1
                    if not re.search(r"\.rev\(\)", t):
                        fifo.append("%s closes `%s` front to back" % (g.name, t[:40]))
            def closes_bound(lp_, pat_):
                vs = set(x["name"] for x in sir.walk(pat_) if x.get("k") == "p_ident")
                return any(x.get("k") == "mcall" and x["m"] == "append_nested_block_close" and x["args"] and sir.expr_str(sir.strip_ref(x["args"][0])) in vs for x in sir.walk(lp_["body"]))
            if lp.get("k") == "while" and lp["cond"].get("k") == "let" and closes_bound(lp, lp["cond"]["pat"]):
                n_cl += 1
                t = sir.expr_str(lp["cond"]["e"]).replace(" ", "")
                if not t.endswith(".pop()"):
                    fifo.append("%s closes by `%s`" % (g.name, t[:40]))
    obs.append(ob("%s.pair/close-order" % prefix, (not fifo) if n_cl >= 3 else None, "lib.rs", "; ".join(fifo[:2]) if fifo else "%d closing loops, each innermost first" % n_cl,
                  witness=None if not fifo else "@import 'a' layer(l) screen; : the `}` of `@media` carries the position of `layer(`"))
    # wave 9 (c) the text that is tokenised is the text the map is built for: the parser input and both outputs get the same string
    for g in sc.fns:
        if not g.body or g.base != "StyleSheetTransformer":
            continue
        pin = [x for x in sir.walk(g.body) if x.get("k") == "call" and (sir.call_path(x) or "").endswith("ParserInput::new") and x["args"]]
        outs_ = [x for x in sir.walk(g.body) if x.get("k") == "call" and (sir.call_path(x) or "").endswith("StyleSheetOutput::new") and len(x["args"]) == 2]
        if pin and outs_:
            texts = set(sir.expr_str(sir.strip_ref(x["args"][0])).replace(" ", "") for x in pin) | set(sir.expr_str(sir.strip_ref(x["args"][1])).replace(" ", "") for x in outs_)
            same = len(texts) == 1
            obs.append(ob("%s.source/same-text" % prefix, same, ctx.where(g), "tokeniser and source map are given `%s`" % sorted(texts)[0] if same else "the tokeniser and the source map are given different texts: %s" % sorted(texts),
                          witness=None if same else "a sheet starting with U+FEFF: every source column of line 0 is one unit short"))
    # (1) the name registered for a rewritten token is the token's source spelling (to_css_string), whatever its kind
    fs = [f for f in sc.fns if f.name == "append_token" and f.base == "StyleSheetOutput" and f.body]
    if fs:
        f = fs[0]
        bad, n_ = [], 0
        for n in sir.walk(f.body):
            if n.get("k") == "mcall" and n["m"] == "add_name" and n["args"]:
                n_ += 1
                a = sir.strip_ref(n["args"][0])
                src = a
                if a.get("k") == "path" and len(a["segs"]) == 1:
                    from rules.c02 import FnScope
                    r_ = FnScope(f.node, []).resolve(a["segs"][0], n)   # the innermost binding visible at the call
                    src = r_[1] if r_ is not None and r_[0] == "let" and r_[1] is not None else a
                if not any(x.get("k") == "mcall" and x["m"] == "to_css_string" for x in sir.walk(src)):
                    bad.append(sir.expr_str(a)[:40])
        obs.append(ob("%s.src/name-spelling" % prefix, (not bad) if n_ else None, ctx.where(f), "%d name registration(s), each from the token's to_css_string()" % n_ if not bad else "a name is registered from `%s`, not from the token's source spelling" % bad[0],
                      witness=None if not bad else ".md\\:flex with a class prefix is named `md:flex`"))
    # (2) a token copied from the input keeps the position of the token it was copied from
    bad, n_ = [], 0
    for g in sc.fns:
        if not g.body or g.base == "StyleSheetOutput":
            continue
        for n in sir.walk(g.body):
            if not (n.get("k") == "call" and (sir.call_path(n) or "").endswith("StepToken::wrap") and len(n["args"]) == 2):
                continue
            tok = sir.strip_ref(n["args"][0])
            if not (tok.get("k") == "call" and tok["args"]):
                continue
            payload = [x["segs"][0] for a_ in tok["args"] for x in sir.walk(a_) if x.get("k") == "path" and len(x["segs"]) == 1]
            # which StepToken variable was the payload taken from?  `if let Token::K(x) = &*peek` / `match &*next { Token::K(x) => ..`
            origin = None
            for m in sir.walk(g.body):
                pat, scrut = None, None
                if m.get("k") == "if" and m["cond"].get("k") == "let":
                    pat, scrut = m["cond"]["pat"], m["cond"]["e"]
                    region = m["then"]
                elif m.get("k") == "match":
                    for a_ in m["arms"]:
                        if any(x is n for x in sir.walk(a_["body"])) and any(b in payload for b, _ in sir.pat_bindings(a_["pat"])):
                            pat, scrut, region = a_["pat"], m["e"], a_["body"]
                if pat is None or not any(x is n for x in sir.walk(region)):
                    continue
                if any(b in payload for b, _ in sir.pat_bindings(pat)) and "Token::" in sir.pat_str(pat):
                    s_ = sir.strip_ref(scrut)
                    while s_.get("k") == "unary" and s_.get("op") == "*":
                        s_ = sir.strip_ref(s_["e"])
                    if s_.get("k") == "path" and len(s_["segs"]) == 1:
                        origin = s_["segs"][0]
                    elif s_.get("k") == "field" and s_["name"] == "token":
                        origin = sir.expr_str(s_["base"])
            if origin is None:
                continue
            n_ += 1
            pos = sir.expr_str(sir.strip_ref(n["args"][1])).replace(" ", "")
            if pos not in ("%s.position" % origin, "%s.position.clone()" % origin):
                bad.append("%s: payload of `%s` is re-emitted at `%s`" % (g.name, origin, pos))
    obs.append(ob("%s.src/copied-token-position" % prefix, (not bad) if (bad or n_ >= 2) else None, "lib.rs", "%d tokens rebuilt from an input token keep that token's position" % n_ if not bad else "; ".join(bad[:2]),
                  witness=None if not bad else "@media is mapped to the position just after the keyword instead of to the `@`"))
    # (3) closing brackets are appended as they were produced (their position is that of the opening token's close, not re-derived)
    cl = [g for g in sc.fns if g.name == "append_nested_block_close" and g.body]
    if cl:
        g = cl[0]
        rebinding = [l_ for l_ in sir.walk(g.body) if l_.get("k") == "local" and any(b == "close" for b, _ in sir.pat_bindings(l_["pat"]))]
        wraps = [x for x in sir.walk(g.body) if x.get("k") == "call" and (sir.call_path(x) or "").endswith("StepToken::wrap")]
        ok = not rebinding and not wraps
        obs.append(ob("%s.src/close-token-verbatim" % prefix, ok, ctx.where(g), "the closing token is appended as it was produced" if ok else "the closing token is rebuilt with a position derived from the cursor",
                      witness=None if ok else "a block left open at the end of input: the supplied `}` is mapped to the last character of the input"))
    return obs


def import_extra_rules(ctx, prefix, f, where):
    """obligations added after the seventh wave of seeded changes"""
    import guards as gdm
    ob = ctx.ob
    obs = []
    sc = ctx.sc
    G = gdm.guards_of(f.body)
    # (1) every import that parsed gets its placeholder: inside the rewriter the comment is written unconditionally
    comments = [n for n in sir.walk(f.body) if n.get("k") == "call" and (sir.call_path(n) or "").endswith("Token::Comment")]
    conds = []
    for c in comments:
        for kind, subj, pol in G.get(id(c), []):
            t = sir.expr_str(subj) if kind == "cond" else sir.expr_str(subj[0]) + "~" + subj[1]
            if kind == "cond" and re.search(r"import_sign|at_keyword|\"import\"", t):
                continue
            if kind == "pat" and re.search(r"import_sign|AtKeyword|peek", t):
                continue
            conds.append(t[:60])
    obs.append(ob("%s.placeholder/unconditional" % prefix, bool(comments) and not conds, where,
                  "the placeholder comment is written for every import that parses" if not conds else "the placeholder comment is written only under %s" % conds[:3],
                  witness=None if not conds else "`@import 'a' screen; @import 'a' print;` leaves the second import without a placeholder"))
    # (2) a malformed import is skipped up to the end of the at-rule: its `;` or its block
    rec = None
    for n in sir.walk(f.body):
        if n.get("k") == "if" and "is_err" in sir.expr_str(n["cond"]):
            for lp in sir.walk(n["then"]):
                if lp.get("k") in ("while", "loop", "for") and any(x.get("k") == "mcall" and x["m"] == "next" for x in sir.walk(lp)):
                    rec = lp
    if rec is None:
        obs.append(ob("%s.recover/stops" % prefix, None, where, "the recovery loop after a malformed @import is not written in a form this rule reads"))
    else:
        GR = gdm.guards_of(rec)
        stops = set()
        for b in sir.walk(rec["body"]):
            if b.get("k") in ("break", "return"):
                for kind, subj, pol in GR.get(id(b), []):
                    t = (sir.expr_str(subj) if kind == "cond" else subj[1])
                    if pol:
                        stops |= set(re.findall(r"Token::(\w+)", t))
                        if kind == "cond":   # `matches!(..)` / a match with boolean arms used as the condition
                            stops |= set(c_["segs"][-1] for c_ in sir.walk(subj) if c_.get("k") in ("p_path", "p_ts", "p_struct") and len(c_.get("segs", [])) >= 2 and c_["segs"][-2] == "Token")
        okr = {"Semicolon", "CurlyBracketBlock"} <= stops
        obs.append(ob("%s.recover/stops" % prefix, okr, where, "after a malformed @import the input is skipped up to %s (an at-rule ends at its `;` or at its block)" % sorted(stops),
                      witness=None if okr else "`@import 'a' screen { } .x{} @import 'b';` swallows `.x{}` and the next import"))
    # (3) the media list is copied with its nested blocks: every block-opening token recurses
    roles = _roles(ctx)
    dm = roles.get("import-media")
    if dm is not None:
        missing = []
        for tok in ("SquareBracketBlock", "ParenthesisBlock", "Function"):
            a = dm.arm(tok)
            calls = dm.calls_deep(a, sc) if a is not None else []
            if a is None or "_" in a.variants or not ("append_nested_block" in calls and "append_nested_block_close" in calls):
                missing.append(tok)
        obs.append(ob("%s.wrap/media-blocks" % prefix, not missing, ctx.where(dm.fn), "nested blocks of the media list are copied with their content and closed" if not missing else "%s in the media list is copied as a bare token: its content and closing bracket are lost" % missing,
                      witness=None if not missing else "`@import 'a' screen and env(foo);` emits `@media screen and env({...` unbalanced"))
    # (4) a flagged position is reported: the warning sink never drops a warning
    obs += warning_sink_rule(ctx, prefix)
    # wave 9 -----------------------------------------------------------------------------------------------------------
    roles = _roles(ctx)
    dc = roles.get("import-conditions")
    copiers = set(roles[r].fn.name for r in ("class-block", "value-block") if roles.get(r) is not None)
    # (5) the content of `layer(..)` / `supports(..)` is copied by one of the block routines (every token of it, blocks nested):
    #     the arm for each recognised function hands the block to such a routine
    n5 = 0
    for m_ in sir.walk(f.body):
        if m_.get("k") != "match":
            continue
        lits = [(a, a["pat"]["e"].get("v")) for a in m_["arms"] if a["pat"].get("k") == "p_lit" and a["pat"]["e"].get("t") == "str"]
        if not lits or not set(v for _a, v in lits) <= {"layer", "supports"}:
            continue
        if not any(x.get("k") in ("call", "mcall") for a, _v in lits for x in sir.walk(a["body"], into_closures=True)):
            continue   # a pure classification of the name: the copying is decided below
        for a, v in lits:
            n5 += 1
            cs = [(sir.call_name(x) or "").split("::")[-1] for x in sir.walk(a["body"], into_closures=True) if x.get("k") in ("call", "mcall")]
            okc = bool(set(cs) & copiers)
            adhoc = [c for c in cs if c.startswith("expect_") or c == "parse_nested_block"]
            obs.append(ob("%s.wrap/condition-copied/%s" % (prefix, v), okc and not adhoc, where, "the content of `%s(..)` is copied by %s" % (v, sorted(set(cs) & copiers)) if okc and not adhoc else "the content of `%s(..)` is read by %s: what does not fit is dropped" % (v, adhoc or cs[:3]),
                          witness=None if okc and not adhoc else "@import 'a' layer(framework.base); is wrapped in `@layer framework{..}`"))
    if n5 < 2 and dc is not None and dc.arm("Function") is not None and "_" not in dc.arm("Function").variants:
        # no arm per function name: the arm for functions as a whole hands the block to a block routine and reads nothing itself
        a = dc.arm("Function")
        cs = [(sir.call_name(x) or "").split("::")[-1] for x in sir.walk(a.body, into_closures=True) if x.get("k") in ("call", "mcall")]
        adhoc = [c for c in cs if c.startswith("expect_") or c == "parse_nested_block"]
        okc = bool(set(cs) & copiers)
        obs.append(ob("%s.wrap/condition-copied" % prefix, False if adhoc else True if okc else None, where,
                      "the content of a condition function is read by %s: what does not fit is dropped" % adhoc if adhoc else "the content of the condition functions is copied by %s" % sorted(set(cs) & copiers),
                      witness=None if not adhoc else "@import 'a' layer(framework.base); is wrapped in `@layer framework{..}`"))
    elif n5 < 2:
        obs.append(ob("%s.wrap/condition-copied" % prefix, None, where, "the arms for `layer` / `supports` are not in a form this rule reads: not decided"))
    # (6) the media list starts at the first identifier or parenthesis after the functions: the scanning loop consumes neither
    if dc is not None:
        bad = []
        n6 = 0
        for a in dc.arms:
            if not ({"Ident", "ParenthesisBlock"} & set(a.variants)):
                continue
            n6 += 1
            consumed = [x["m"] for x in sir.walk(a.body) if x.get("k") == "mcall" and sir.expr_str(x["recv"]) == "input" and (x["m"] in ("next", "next_including_whitespace") or x["m"].startswith("expect_"))]
            sets = any(x.get("k") == "assign" and sir.expr_str(x["l"]) == "has_media" and x["r"].get("v") is True for x in sir.walk(a.body))
            if consumed:
                bad.append("the arm `%s` consumes the token (%s) instead of leaving it to the media list" % (sir.pat_str(a.node["pat"])[:40], consumed[0]))
            elif not sets and any(x.get("k") == "assign" and sir.expr_str(x["l"]) == "has_media" for x in sir.walk(dc.loop)):
                bad.append("the arm `%s` does not start the media list" % sir.pat_str(a.node["pat"])[:40])
        obs.append(ob("%s.wrap/media-start" % prefix, (not bad) if n6 else None, where, "; ".join(bad) if bad else "an identifier or `(` ends the scan and starts the media list, untouched" if n6 else "no arm for identifiers in the scanning loop: not decided",
                      witness=None if not bad else "@import 'a' all and (min-width:1px); is wrapped in `@media and (min-width:1px){..}`"))
    obs += tokens_only_rule(ctx, prefix)
    return obs


def import_rules(ctx, prefix):
    ob = ctx.ob
    obs = []
    roles = _roles(ctx)
    d = roles["import-conditions"]
    f = d.fn
    where = ctx.where(f)
    # comment payload
    fm = None
    for n in sir.walk(f.body):
        if n.get("k") == "local" and n["pat"].get("name") == "comment" and n.get("init") is not None:
            p = sir.format_call(n["init"])
            if p:
                fm = p
    ok = False
    dsc = "comment construction not found"
    if fm:
        text = "".join(x[1] if x[0] == "lit" else "{}" for x in fm)
        holes = [sir.expr_str(x[1]).replace(" ", "") for x in fm if x[0] == "hole"]
        ok = text == "{} {}" and holes[0] == "import_sign" and holes[1].startswith("urlencoding::encode(&rel_path)")
        dsc = "comment is `%s` with %s" % (text, holes)
    obs.append(ob("%s.encode/payload" % prefix, ok, where, dsc + " (sign, one space, percent-encoded path: `*/` cannot occur in the payload)"))
    rp = [n for n in sir.walk(f.body) if n.get("k") == "local" and n["pat"].get("name") == "rel_path"]
    reassigned = [n for n in sir.walk(f.body) if n.get("k") in ("assign", "binary") and n.get("op", "=").endswith("=") and n.get("op") not in ("==", "!=", "<=", ">=") and sir.expr_str(n["l"]) == "rel_path"]
    ok = len(rp) == 1 and not reassigned and rp[0].get("init") is not None and sir.expr_str(rp[0]["init"]).replace(" ", "") == "input.expect_string_cloned()?"
    obs.append(ob("%s.encode/source" % prefix, ok, where, "the encoded path is bound exactly once, to the decoded string token itself (`%s`); %d bindings, %d re-assignments" % (sir.expr_str(rp[0]["init"]) if rp and rp[0].get("init") is not None else None, len(rp), len(reassigned)),
                  witness=None if ok else "a path with leading/trailing blanks (or whatever the extra binding normalises) is not recoverable from the placeholder"))
    uses_comment = any(n.get("k") == "call" and "Token::Comment" in (sir.call_path(n) or "") and "comment" in sir.expr_str(n) for n in sir.walk(f.body))
    obs.append(ob("%s.encode/comment-token" % prefix, uses_comment, where, "payload is written as a Comment token: %s" % uses_comment))
    # condition wrappers: layer/supports -> at-keyword of the same name; anything else is rejected
    arm = d.arm("Function")
    names = set()
    if arm:
        nodes_ = list(sir.walk(arm.body))
        # the names may be classified by a private helper the arm calls (`ImportCondition::from_function_name(xs)`)
        for n in list(nodes_):
            if n.get("k") in ("call", "mcall") and sir.call_name(n):
                for g in ctx.sc.fns:
                    if g.name == sir.call_name(n) and g.body and g.crate == f.crate and g is not f and not cm._has_dispatch(g) and len(g.body.get("stmts", [])) <= 12:
                        nodes_ += list(sir.walk(g.body))
        for n in nodes_:
            if n.get("k") == "p_lit" and n["e"].get("t") == "str":
                names.add(n["e"]["v"])
            if n.get("k") == "lit" and n.get("t") == "str":
                names.add(n["v"])
    obs.append(ob("%s.wrap/functions" % prefix, {"layer", "supports"} <= names, where, "import conditions recognised: %s" % sorted(names)))
    same = arm is not None and any(n.get("k") == "call" and "AtKeyword" in (sir.call_path(n) or "") and "x.clone()" in sir.expr_str(n) for n in sir.walk(arm.body))
    obs.append(ob("%s.wrap/same-name" % prefix, same, where, "`layer(..)` / `supports(..)` become the at-rule of the same name: %s" % same))
    media = any(n.get("k") == "call" and "AtKeyword" in (sir.call_path(n) or "") and '"media"' in sir.expr_str(n) for n in sir.walk(f.body))
    obs.append(ob("%s.wrap/media" % prefix, media, where, "media conditions are wrapped in @media: %s" % media))
    # pairing: every wrapper opened is pushed, the stack is drained after the comment
    nodes = list(sir.walk(f.body))
    def drains(e, stack_name, depth=0):
        """does statement/expression `e` close every block on `stack_name`, innermost first?"""
        if e is None:
            return False
        closes = lambda b: any(x.get("k") == "mcall" and x["m"] == "append_nested_block_close" for x in sir.walk(b))
        if e.get("k") == "while" and e["cond"].get("k") == "let" and sir.expr_str(e["cond"]["e"]).replace(" ", "") == "%s.pop()" % stack_name and "Some" in sir.pat_str(e["cond"]["pat"]):
            return closes(e["body"])
        if e.get("k") == "for":
            it = sir.expr_str(e["e"]).replace(" ", "")
            if it in ("%s.drain(..).rev()" % stack_name, "%s.into_iter().rev()" % stack_name, "%s.iter().rev()" % stack_name) and closes(e["body"]):
                return True
        if e.get("k") == "try":
            return drains(e["e"], stack_name, depth)
        if e.get("k") == "call" and depth < 2:
            cands = [g for g in ctx.sc.fns if g.name == sir.call_name(e) and g.body]
            if len(cands) == 1:
                pn = cands[0].param_names()
                for pname, a in zip(pn, e["args"]):
                    if pname and sir.expr_str(sir.strip_ref(a)) == stack_name:
                        body = cands[0].body["stmts"]
                        return any(drains(st_.get("e") if st_.get("k") == "expr" else st_, pname, depth + 1) for st_ in body)
        return False

    pushes = [i for i, n in enumerate(nodes) if n.get("k") == "mcall" and n["m"] == "push" and sir.expr_str(n["recv"]) == "close_stack"]
    opens = [i for i, n in enumerate(nodes) if n.get("k") == "local" and n.get("init") is not None and n["init"].get("k") == "mcall" and n["init"]["m"] == "append_nested_block" and "CurlyBracketBlock" in sir.expr_str(nodes[i - 1] if i else n) + sir.expr_str(n)]
    curly_opens = []
    for i, n in enumerate(nodes):
        if n.get("k") == "local" and n["pat"].get("name") == "st" and n.get("init") is not None and "CurlyBracketBlock" in sir.expr_str(n["init"]):
            curly_opens.append(i)
    comment_i = [i for i, n in enumerate(nodes) if n.get("k") == "call" and "Token::Comment" in (sir.call_path(n) or "")]
    drain = [i for i, n in enumerate(nodes) if n.get("k") in ("while", "for", "call") and drains(n, "close_stack")]
    ok = len(pushes) == len(curly_opens) and len(pushes) >= 2 and comment_i and drain and any(dd > comment_i[0] for dd in drain)
    # every exit after the first push is directly preceded by a full drain (`while let Some(close) = close_stack.pop() { ..close(close).. }`)
    pm = sir.parent_map(f.body)

    def is_drain(st):
        e = st.get("e") if st.get("k") == "expr" else st
        return drains(e, "close_stack")

    def prev_stmt(n):
        cur = n
        while id(cur) in pm:
            par = pm[id(cur)]
            if par.get("k") == "block":
                for i, st in enumerate(par["stmts"]):
                    if st is cur or st.get("e") is cur:
                        return par["stmts"][i - 1] if i > 0 else None
                return None
            cur = par
        return None
    first_push = pushes[0] if pushes else None
    exits = []
    closure = None
    for n in nodes:
        if n.get("k") == "closure" and any(x is nodes[first_push] for x in sir.walk(n)) if first_push is not None else False:
            closure = n
    undrained = []
    n_exits = 0
    if closure is not None:
        cn = list(sir.walk(closure["body"], into_closures=False))
        pos = {id(x): i for i, x in enumerate(cn)}
        fp = pos.get(id(nodes[first_push]), 0)
        for x in cn:
            if x.get("k") == "return" and pos[id(x)] > fp:
                n_exits += 1
                ps_ = prev_stmt(x)
                if ps_ is None or not is_drain(ps_):
                    undrained.append("return at expanded line %d" % sir.line_of(x))
            if x.get("k") == "try" and pos[id(x)] > fp:
                n_exits += 1
                undrained.append("`?` at expanded line %d can leave with wrappers open" % sir.line_of(x))
        tail = closure["body"]["stmts"][-1] if closure["body"].get("k") == "block" else None
        if tail is not None:
            n_exits += 1
            ps_ = closure["body"]["stmts"][-2] if len(closure["body"]["stmts"]) > 1 else None
            if ps_ is None or not is_drain(ps_):
                undrained.append("normal exit")
    obs.append(ob("%s.pair/every-exit-drains" % prefix, closure is not None and not undrained and n_exits >= 3, where,
                  "%d exits of the import rewriter lie after a wrapper may have been opened; each is directly preceded by a loop that closes every open wrapper" % n_exits if not undrained else "wrappers can stay open: %s" % undrained,
                  witness=None if not undrained else "`@import 'a' layer(x) supports(y) ,;` leaves a `}` missing and swallows the rest of the sheet"))
    obs.append(ob("%s.pair/close-stack" % prefix, bool(ok), where, "%d wrapper blocks opened, %d pushed on close_stack; the stack is drained after the placeholder comment: %s" % (len(curly_opens), len(pushes), bool(ok))))
    # position warning
    warn = any(n.get("k") == "mcall" and n["m"] == "add_warning" and "IllegalImportPosition" in sir.expr_str(n) for n in nodes)
    guard = [n for n in nodes if n.get("k") == "if" and sir.expr_str(n["cond"]).replace(" ", "") == "!at_file_start"]
    obs.append(ob("%s.position" % prefix, warn and bool(guard), where, "imports after other rules are flagged (IllegalImportPosition under `!at_file_start`): %s" % (warn and bool(guard))))
    pr = [g for g in ctx.sc.fns if g.name == "parse_rules" and g.body]
    if pr:
        g = pr[0]
        s = [sir.expr_str(n) for n in sir.walk(g.body) if n.get("k") == "assign" and "at_file_start" in sir.expr_str(n["l"])]
        init = [sir.expr_str(n["init"]) for n in sir.walk(g.body) if n.get("k") == "local" and n["pat"].get("name") == "at_file_start"]
        uncond = False
        for lp in sir.walk(g.body):
            if lp.get("k") in ("while", "loop"):
                body = lp["body"]
                uncond = any(st.get("k") == "expr" and st["e"].get("k") == "assign" and sir.expr_str(st["e"]["l"]) == "at_file_start" and st["e"]["r"].get("v") is False for st in body["stmts"])
        obs.append(ob("%s.position/flag-unconditional" % prefix, uncond, ctx.where(g), "at_file_start is cleared by a top-level statement of the rule loop, whatever kind of rule was parsed: %s" % uncond,
                      witness=None if uncond else "`@media screen{.a{}} @import './a';` is rewritten without IllegalImportPosition"))
        obs.append(ob("%s.position/flag" % prefix, init == ["True"] and len(s) == 1, ctx.where(g), "at_file_start starts true and is cleared after the first rule: %s %s" % (init, s)))
    # without a sign the rule passes through the generic at-rule path
    obs += import_extra_rules(ctx, prefix, f, where)
    # decided on abstract paths (lib/absint.py): with a sign configured the rewriter is reached, and only for the keyword `import`;
    # without a sign no path reaches it
    import absint as ai

    def reach_rewriter(sign_value):
        def hooks(it, e, st):
            if e.get("k") == "mcall" and e["m"] == "try_parse" and any(x.get("k") == "mcall" and x["m"] == "expect_string_cloned" for a_ in e["args"] for x in sir.walk(a_)):
                kw = [v for k_, v in st.env.items() if not k_.startswith("$") and v == "import"]
                return [(ai.FREE, st.event(("rewriter", bool(kw))))]
            if e.get("k") == "mcall" and sir.root_expr_name(e["recv"]) in ("input", "peek", "next") and e["m"] not in ("is_some", "is_none", "clone", "unwrap", "as_ref"):
                return [(ai.FREE, st)]
            return None
        it = ai.Interp(hooks=hooks, idx=ctx.sc)
        it.field_vars = {"import_sign"}
        it.max_paths = 3000
        env = {n_: ai.FREE for n_ in f.param_names() if n_}
        env["$f:import_sign"] = sign_value
        try:
            return it.run(f.body, env)
        except ai.TooManyPaths:
            return None
    with_sign = reach_rewriter(("Some", ai.FREE))
    without = reach_rewriter(ai.NONE)
    if with_sign is None or without is None:
        obs.append(ob("%s.passthrough" % prefix, None, where, "too many paths through parse_at_rule to follow: not decided for this tree"))
        return obs
    ev_with = [ev for o in with_sign for ev in o.events if ev[0] == "rewriter"]
    ev_without = [ev for o in without for ev in o.events if ev[0] == "rewriter"]
    if not ev_with:
        verdict = None if any(o.tainted for o in with_sign) else False
        d = "with a sign configured no path reaches the import rewriter"
    elif ev_without:
        verdict, d = False, "the import rewriter is reached although no import sign is configured"
    elif not all(ev[1] for ev in ev_with):
        verdict, d = False, "the import rewriter is reached for at-rules other than `@import`"
    else:
        verdict, d = True, "with a sign the rewriter is reached on %d path(s), each with the keyword equal to `import`; without a sign on none" % len(ev_with)
    obs.append(ob("%s.passthrough" % prefix, verdict, where, "@import is rewritten only when an import sign is configured: " + d,
                  witness=None if verdict is not False else "without --import-sign an `@import` (or with it another at-rule) is replaced by a placeholder comment"))
    return obs


def step_rules(ctx, prefix):
    """StepParser::next_including_whitespace returns every token except comments, and skipping a comment consumes nothing else"""
    ob = ctx.ob
    sc = ctx.sc
    g = [f for f in sc.fns if f.base == "StepParser" and f.name == "next_including_whitespace" and f.body]
    if not g:
        return [ob("%s.step/anchor" % prefix, False, "step.rs", "StepParser::next_including_whitespace not found")]
    f = g[0]
    cm = []
    for x in sir.walk(f.body):
        if x.get("k") == "if" and x["cond"].get("k") == "let" and "Token::Comment" in sir.pat_str(x["cond"]["pat"]):
            cm.append(x["then"])
        if x.get("k") == "match":
            for a in x["arms"]:
                if "Token::Comment" in sir.pat_str(a["pat"]):
                    cm.append(a["body"])
    probs = []
    # the loop form: `while let Token::Comment(_) = token { position = self.position(); token = <one raw read>; }`
    wl = [x for x in sir.walk(f.body) if x.get("k") == "while" and x["cond"].get("k") == "let" and "Token::Comment" in sir.pat_str(x["cond"]["pat"])]
    if not cm and len(wl) == 1:
        reads = [y for y in sir.walk(wl[0]["body"]) if y.get("k") == "mcall" and y["m"].startswith("next")]
        other = [sir.expr_str(y)[:60] for y in sir.walk(wl[0]["body"]) if y.get("k") in ("mcall", "call") and not (
            y.get("k") == "mcall" and (y["m"].startswith("next") or y["m"] in ("position", "cloned", "clone", "map")))]
        if len(reads) != 1 or reads[0]["m"] != "next_including_whitespace_and_comments" or other:
            probs.append("the comment loop does more than read the next raw token: %s" % ([sir.expr_str(r_)[:50] for r_ in reads] + other))
    elif len(cm) != 1:
        probs.append("%d comment branches found" % len(cm))
    else:
        calls = [sir.expr_str(y)[:60] for y in sir.walk(cm[0]) if y.get("k") in ("mcall", "call")]
        if calls:
            probs.append("the comment branch does more than skip the comment: %s" % calls)
    obs = [ob("%s.step/comment-only" % prefix, not probs, ctx.where(f), "; ".join(probs) if probs else "a comment is dropped on its own: the whitespace after it is still delivered to the caller",
              witness=None if not probs else "`.a/* c */ .b` loses its descendant combinator")]
    # the tokens handed out are cssparser's own: the step parser builds no token of its own and changes no text
    built = []
    for h in sir.reach(sc, f):
        if not h.body or (h is not f and "step" not in h.module):
            continue
        for x in sir.walk(h.body):
            if x.get("k") == "struct" and len(x.get("segs", [])) >= 2 and x["segs"][-2] == "Token":
                built.append("%s builds `Token::%s {..}`" % (h.name, x["segs"][-1]))
            if x.get("k") == "call" and x["f"].get("k") == "path" and len(x["f"]["segs"]) >= 2 and x["f"]["segs"][-2] == "Token" and x["args"]:
                built.append("%s builds `Token::%s(..)`" % (h.name, x["f"]["segs"][-1]))
            if x.get("k") == "mcall" and re.search(r"to_(ascii_)?(lower|upper)case|make_ascii_(lower|upper)case|trim|replace", x["m"]):
                built.append("%s calls `.%s()`" % (h.name, x["m"]))
    obs.append(ob("%s.step/verbatim" % prefix, not built, ctx.where(f), "; ".join(sorted(set(built))[:3]) if built else "every token is handed out as cssparser produced it",
                  witness=None if not built else "`1RPX` (a unit that is not rpx) is converted like `1rpx`"))
    # layering (resolved callees): cssparser's raw token readers are reachable from the dispatch loops through DerefMut; only the step
    # parser may call them - everybody else gets tokens with comments filtered out and the position sampled at the token
    raw = []
    readers = 0
    for b in ctx.mir.by_crate.get("glass_easel_stylesheet_compiler", []):
        for c in b["calls"]:
            nm = sir.norm_mir_name(c["callee"])
            if nm in ("cssparser::Parser::next", "cssparser::Parser::next_including_whitespace", "cssparser::Parser::next_including_whitespace_and_comments", "cssparser::Parser::next_byte"):
                if b["root"].startswith("step::StepParser::"):
                    readers += 1
                else:
                    raw.append("%s calls `%s` directly" % (b["root"], nm.split("::")[-1]))
    obs.append(ob("%s.step/raw-reads" % prefix, readers >= 1 and not raw, "step.rs", "; ".join(sorted(set(raw))) if raw else "cssparser's raw token readers are called from the step parser only (%d site(s))" % readers,
                  witness=None if not raw else "`calc(1px /*c*/+ 2px)`: a look-ahead that sees the comment instead of the `+` drops the blank in front of the operator"))
    return obs


# ------------------------------------------------------------------ C19

def column_bookkeeping(ctx, f):
    """Abstract interpretation (lib/absint.py) of one appender of StyleSheetOutput with a symbolic model of its two fields:
    `s` is the sequence of pieces appended since entry (literal text or an opaque piece), `utf16_len` is the entry value plus
    a constant plus the UTF-16 length of a set of pieces (`self.s[start..].encode_utf16().count()` with `start` taken from
    `self.s.len()` measures the pieces appended since then).  Private/public helper methods of the type are entered.
    -> (problems, undecided: bool); problems are per path:
       every appended piece is counted exactly once by the time the method returns, and a source-map entry is registered
       with a column that covers exactly the separator written before the token's own text"""
    import absint as ai
    sc = ctx.sc
    helpers = {g.name: g for g in sc.fns if g.base == "StyleSheetOutput" and g.body and g is not f}
    pn = [x for x in f.param_names() if x and x != "self"]

    def is_s(e):
        e = sir.strip_ref(e)
        while e.get("k") == "paren":
            e = sir.strip_ref(e["e"])
        return e.get("k") == "field" and e["name"] == "s" and sir.expr_str(e["base"]) == "self"

    def append(st, piece):
        cur = st.env.get("$f:s", ())
        return st.set("$f:s", cur + (piece,))

    def piece_of(it, a, st):
        a1 = sir.strip_ref(a)
        if a1.get("k") == "lit" and a1.get("t") in ("str", "char"):
            return ("lit", a1["v"])
        if sir.const_text(a1) is not None:
            return ("lit", sir.const_text(a1))
        if a1.get("k") == "path" and len(a1["segs"]) == 1 and a1["segs"][0] in pn:
            return ("arg", a1["segs"][0])
        return ("sym", id(a))

    def hooks(it, e, st):
        k = e.get("k")
        wf = sir.write_fmt_call(e) if k in ("mcall", "mac") else None
        if wf is not None and is_s(wf[0]):
            s2 = st
            for p_ in wf[1]:
                s2 = append(s2, ("lit", p_[1]) if p_[0] == "lit" else piece_of(it, p_[1], st) if p_[1] is not None else ("sym", id(e)))
            return [(("Ok", ai.UNIT), s2)]
        if k == "mcall" and e["m"] in ("push", "push_str") and is_s(e["recv"]) and len(e["args"]) == 1:
            return [(ai.UNIT, append(st, piece_of(it, e["args"][0], st)))]
        if k == "binary" and e["op"] == "+=" and is_s(e["l"]):
            return [(ai.UNIT, append(st, piece_of(it, e["r"], st)))]
        if k in ("mcall", "call") and any(is_s(a) for a in e["args"]) and not (k == "mcall" and e["m"] in ("push", "push_str")):
            # something serialises itself into the buffer (`token.to_css(&mut self.s)`)
            return [(("Ok", ai.UNIT), append(st, ("sym", id(e))))]
        if k == "mcall" and e["m"] == "len" and not e["args"] and is_s(e["recv"]):
            return [(("IDX", len(st.env.get("$f:s", ()))), st)]
        if k == "index" and is_s(e["base"]) and e["idx"].get("k") == "range" and e["idx"].get("from") is not None and e["idx"].get("to") is None:
            vs = [o.value for o in it.ev(e["idx"]["from"], st) if o.kind == "val"]
            if len(vs) == 1 and isinstance(vs[0], tuple) and vs[0][:1] == ("IDX",):
                return [(("SLICE", vs[0][1], len(st.env.get("$f:s", ()))), st)]
            return [(ai.UNK, st)]
        if (k == "mcall" and e["m"] == "count" and not e["args"]) or (k == "mcall" and e["m"] in ("sum",) and not e["args"]):
            inner = e["recv"]
            src = None
            if inner.get("k") == "mcall" and inner["m"] == "encode_utf16":
                src = inner["recv"]
            elif inner.get("k") == "call" and (sir.call_path(inner) or "").endswith("encode_utf16") and inner["args"]:
                src = inner["args"][0]
            elif inner.get("k") == "mcall" and inner["m"] == "map" and "len_utf16" in sir.expr_str(inner) and inner["recv"].get("k") == "mcall" and inner["recv"]["m"] == "chars":
                src = inner["recv"]["recv"]
            if src is not None:
                vs = [o.value for o in it.ev(src, st) if o.kind == "val"]
                v = vs[0] if len(vs) == 1 else ai.UNK
                if isinstance(v, tuple) and v[:1] == ("SLICE",):
                    return [(("U16", frozenset(range(v[1], v[2])), frozenset()), st)]
                s1 = sir.strip_ref(src)
                if s1.get("k") == "path" and len(s1["segs"]) == 1 and s1["segs"][0] in pn:
                    return [(("U16", frozenset(), frozenset([s1["segs"][0]])), st)]
                return [(ai.UNK, st)]
        if k == "mcall" and e["m"] == "add_raw" and len(e["args"]) >= 4:
            return [(ai.UNIT, st.event(("entry", st.env.get("$f:utf16_len"), len(st.env.get("$f:s", ())), tuple(sir.expr_str(a).replace(" ", "") for a in e["args"][:4]))))]
        if k == "mcall" and e["m"] in ("needs_separator_when_before", "is_sign_negative", "serialization_type"):
            return [(ai.FREE, st)]
        return None

    def compound(place, op, cur, b):
        if place == "$f:utf16_len" and op == "+=" and isinstance(cur, tuple) and cur[:1] == ("COL",):
            if b == 1:
                return ("COL", cur[1] + 1, cur[2], cur[3], cur[4])
            if isinstance(b, tuple) and b[:1] == ("U16",):
                dup = bool(cur[2] & b[1]) or bool(cur[3] & b[2])
                return ("COL", cur[1], cur[2] | b[1], cur[3] | b[2], cur[4] or dup)
            return ai.UNK
        return ai.UNK
    it = ai.Interp(hooks=hooks, idx=sc, inline=helpers)
    it.field_vars = {"s", "utf16_len"}
    it.compound = compound
    it.max_paths = 2000
    env = {x: ai.FREE for x in pn}
    env.update({"self": ai.FREE, "$f:s": (), "$f:utf16_len": ("COL", 0, frozenset(), frozenset(), False)})
    try:
        outs = [o for o in it.run(f.body, env) if ("$error-exit",) not in o.events]
    except ai.TooManyPaths:
        return [], True
    problems, undecided = [], False

    def covers(col, pieces, upto=None):
        """None if `col` accounts for exactly pieces[:upto] (all when upto is None), else a description"""
        if not (isinstance(col, tuple) and col[:1] == ("COL",)):
            return "?"
        want = range(len(pieces) if upto is None else upto)
        if col[4]:
            return "a piece is counted twice"
        const_need = 0
        for i in want:
            p_ = pieces[i]
            if i in col[2] or (p_[0] == "arg" and p_[1] in col[3]):
                continue
            if p_[0] == "lit" and p_[1].isascii():
                const_need += len(p_[1])
                continue
            return "piece %d (%s) is appended but not counted" % (i, p_[1] if p_[0] != "sym" else "serialised text")
        extra = [i for i in col[2] if i not in want]
        if extra:
            return "pieces %s are counted although they belong to the token text" % sorted(extra)
        if const_need != col[1]:
            return "constant part of the column is %d, the uncounted ASCII literals need %d" % (col[1], const_need)
        return None
    for o in outs:
        pieces = o.st.env.get("$f:s", ())
        col = o.st.env.get("$f:utf16_len")
        r = covers(col, pieces)
        if r is not None:
            if r == "?" or o.tainted and "?" in r:
                undecided = True
            else:
                problems.append("at return: " + r)
        for ev in o.events:
            if ev[0] != "entry":
                continue
            # the column of the entry covers the pieces in front of the token text: the leading separator blanks
            lead = 0
            while lead < ev[2] and pieces[lead] == ("lit", " "):
                lead += 1
            r = covers(ev[1], pieces, lead)
            if r is not None:
                if r == "?":
                    undecided = True
                else:
                    problems.append("at the source-map entry: " + r)
            if ev[2] <= lead and len(pieces) > lead and False:
                pass
    return sorted(set(problems)), undecided or not outs


def sourcemap_rules(ctx, prefix):
    ob = ctx.ob
    obs = []
    sc = ctx.sc
    for name in ("append_raw", "append_token", "append_token_space_preserved"):
        fs = [f for f in sc.fns if f.name == name and f.base == "StyleSheetOutput" and f.body]
        if len(fs) != 1:
            obs.append(ob("%s.col/%s" % (prefix, name), False, "output.rs", "%s not found" % name))
            continue
        f = fs[0]
        where = ctx.where(f)
        nodes = list(sir.walk(f.body))
        incs = [n for n in nodes if n.get("k") == "binary" and n["op"] == "+=" and sir.expr_str(n["l"]) == "self.utf16_len"]
        # the column may also be advanced by a private method of the output type that is handed the start offset
        # (`self.advance_from(start)` with body `self.utf16_len += self.s[start..].encode_utf16().count()`): such a call counts as
        # the increment it performs, with the argument substituted for the parameter
        for n in nodes:
            if n.get("k") == "mcall" and sir.expr_str(n["recv"]) == "self" and len(n["args"]) == 1:
                hs = [g for g in sc.fns if g.name == n["m"] and g.base == "StyleSheetOutput" and g.body and not g.node.get("vis")]
                if len(hs) != 1:
                    continue
                hn = list(sir.walk(hs[0].body))
                hincs = [x for x in hn if x.get("k") == "binary" and x["op"] == "+=" and sir.expr_str(x["l"]) == "self.utf16_len"]
                pn = [x for x in hs[0].param_names() if x and x != "self"]
                if len(hincs) != 1 or len(pn) != 1:
                    continue
                rtxt = sir.expr_str(hincs[0]["r"])
                for x in hn:   # locals of the helper that only name a sub-expression
                    if x.get("k") == "local" and x["pat"].get("k") == "p_ident" and x.get("init") is not None:
                        rtxt = re.sub(r"\b%s\b" % re.escape(x["pat"]["name"]), "(" + sir.expr_str(sir.strip_ref(x["init"])) + ")", rtxt)
                rtxt = re.sub(r"\b%s\b" % re.escape(pn[0]), sir.expr_str(sir.strip_ref(n["args"][0])), rtxt)
                n["_inc_text"] = rtxt
                incs.append(n)
        problems = []
        def utf16_measured(e, depth=0):
            """the string expression whose UTF-16 length `e` computes (directly, or through a private one-line helper), else None"""
            while e.get("k") in ("cast", "paren"):
                e = e["e"]
            if e.get("k") == "mcall" and e["m"] == "count" and not e["args"]:
                r_ = e["recv"]
                if r_.get("k") == "mcall" and r_["m"] == "encode_utf16":
                    return sir.strip_ref(r_["recv"])
                if r_.get("k") == "call" and (sir.call_path(r_) or "").endswith("encode_utf16") and r_["args"]:
                    return sir.strip_ref(r_["args"][0])
            if e.get("k") in ("call", "mcall") and depth < 2 and len(e["args"]) == 1:
                hname = sir.call_name(e) if e.get("k") == "call" else e["m"]
                cands = [g for g in sc.fns if g.name == hname and g.body]
                if len(cands) == 1 and cands[0].body["stmts"] and cands[0].body["stmts"][-1].get("k") == "expr":
                    inner = utf16_measured(cands[0].body["stmts"][-1]["e"], depth + 1)
                    pn = [x for x in cands[0].param_names() if x and x != "self"]
                    if inner is not None and pn:
                        if sir.expr_str(inner) == pn[0]:
                            return sir.strip_ref(e["args"][0])
                        # the helper measures an expression over its parameter (`self.s[start..]`): substitute the argument
                        txt = re.sub(r"\b%s\b" % re.escape(pn[0]), sir.expr_str(sir.strip_ref(e["args"][0])), sir.expr_str(inner))
                        return {"k": "path", "s": txt, "segs": [txt], "sp": e.get("sp", [0, 0, 0, 0])}
            return None
        appended = set()
        for n in nodes:
            if n.get("k") == "mcall" and n["m"] == "push_str" and sir.expr_str(n["recv"]).replace(" ", "") in ("self.s", "(&mutself.s)") and n["args"]:
                appended.add(sir.expr_str(sir.strip_ref(n["args"][0])))
            if n.get("k") == "binary" and n["op"] == "+=" and sir.expr_str(n["l"]) == "self.s":
                appended.add(sir.expr_str(sir.strip_ref(n["r"])))
        for inc in incs:
            if inc.get("_inc_text") is not None:
                r = inc["_inc_text"].replace(" ", "")
                mm0 = re.fullmatch(r"\(?\(?&?(self\.s\[\w+\.\.\])\)?\.encode_utf16\(\)\.count\(\)\)?(asu32)?", r)
                m_ = {"k": "path", "s": mm0.group(1), "segs": [mm0.group(1)], "sp": [0, 0, 0, 0]} if mm0 else None
            else:
                r = sir.expr_str(inc["r"]).replace(" ", "")
                if r == "1":
                    continue
                m_ = utf16_measured(inc["r"])
            ms = sir.expr_str(m_).replace(" ", "") if m_ is not None else None
            if ms is not None:
                mm_ = re.fullmatch(r"self\.s\[(\w+)\.\.\]", ms)
                start_ok = False
                if mm_:
                    # the slice starts at a position taken from the output's own length before the append
                    start_ok = any(n.get("k") == "local" and n["pat"].get("name") == mm_.group(1) and n.get("init") is not None and sir.expr_str(n["init"]).replace(" ", "") in ("self.s.len()", "self.cur_utf8_len()") for n in nodes)
                if start_ok or (name == "append_raw" and sir.expr_str(m_) in appended):
                    continue
            problems.append("column advanced by `%s` (must be the UTF-16 length of exactly the appended slice, or 1 for one ASCII character)" % r)
        if not incs:
            problems.append("column is never advanced")
        if name == "append_token":
            start = [i for i, n in enumerate(nodes) if n.get("k") == "local" and n.get("init") is not None and sir.expr_str(n["init"]).replace(" ", "") in ("self.s.len()", "self.cur_utf8_len()")]
            tocss = [i for i, n in enumerate(nodes) if n.get("k") == "mcall" and n["m"] == "to_css"]
            add = [i for i, n in enumerate(nodes) if n.get("k") == "mcall" and n["m"] == "add_raw"]
            sepw = [i for i, n in enumerate(nodes) if sir.write_fmt_call(n) and sir.write_fmt_call(n)[1] == [("lit", " ")]]
            inc_i = [i for i, n in enumerate(nodes) if n in incs]
            if not (start and tocss and add and start[0] < tocss[0]):
                problems.append("start position not taken before serialising")
            if sepw and start and not sepw[0] < start[0]:
                problems.append("separator written after the start position was taken")
            if add:
                a = nodes[add[0]]["args"]
                cols = [sir.expr_str(x).replace(" ", "") for x in a]
                if len(cols) < 6 or cols[1] != "self.utf16_len" or cols[2] != "token.position.line" or cols[3] != "token.position.utf16_col":
                    problems.append("source-map entry is (%s)" % cols[:4])
                # the entry is added before the column moves past the token
                last_inc = max(inc_i) if inc_i else -1
                if not add[0] < last_inc:
                    problems.append("source-map entry is registered after the column was advanced past the token")
                # and after the separator increment
                if sepw:
                    sep_inc = [i for i in inc_i if nodes[i].get("k") == "binary" and sir.expr_str(nodes[i]["r"]) == "1"]
                    if sep_inc and not sep_inc[0] < add[0]:
                        problems.append("separator column counted after the entry")
            name_ok = any(n.get("k") == "mcall" and n["m"] == "add_name" for n in nodes) and any(n.get("k") == "mcall" and n["m"] == "to_css_string" for n in nodes)
            if not name_ok:
                problems.append("rewritten tokens do not register their original spelling as name")
        # the counting itself is decided on abstract paths; the syntactic reading above is kept for what the model does not
        # cover (argument order of the entry, the registered name) and as the verdict when the model cannot follow the code
        sym_problems, sym_und = column_bookkeeping(ctx, f)
        if not sym_und:
            keep = [p_ for p_ in problems if p_.startswith(("source-map entry is (", "rewritten tokens"))]
            problems = keep + sym_problems
        obs.append(ob("%s.col/%s" % (prefix, name), not problems, where, "; ".join(problems) if problems else "column bookkeeping of %s follows the bytes it appends" % name,
                      witness=None if not problems else "a non-ASCII character before a token shifts every later generated column"))
    # C19.src: rewrites pass the original token as src
    wf = [f for f in sc.fns if f.name == "write_maybe_rpx_dimension" and f.body]
    if wf:
        f = wf[0]
        calls = [n for n in sir.walk(f.body) if n.get("k") == "mcall" and n["m"] == "append_token" and len(n["args"]) == 3]

        def src_struct(c):
            """the Token::Dimension literal passed as source name: written in place or bound to a local first"""
            a = c["args"][2]
            if not (a.get("k") == "call" and sir.call_name(a) == "Some" and a["args"]):
                return None
            x = sir.strip_ref(a["args"][0])
            if x.get("k") == "mcall" and x["m"] == "clone" and not x["args"]:
                x = sir.strip_ref(x["recv"])
            if x.get("k") == "path" and len(x["segs"]) == 1:
                for st_ in sir.walk(f.body):
                    if st_.get("k") == "local" and st_["pat"].get("name") == x["segs"][0] and st_.get("init") is not None:
                        x = st_["init"]
                        break
            return x if x.get("k") == "struct" and x["path"].endswith("Dimension") else None
        with_src = [c for c in calls if src_struct(c) is not None]
        pos = all("next.position" in sir.expr_str(x) for x in sir.walk(f.body) if x.get("k") == "call" and (sir.call_path(x) or "").endswith("StepToken::wrap"))
        obs.append(ob("%s.src/rpx" % prefix, len(with_src) == 1 and pos, ctx.where(f), "the converted dimension carries the original token as name and the original position: %s" % (len(with_src) == 1 and pos)))
        # the name token is the original token, field by field
        def plain(e):
            e = sir.strip_ref(e)
            while e.get("k") == "unary" and e.get("op") == "*":
                e = e["e"]
            if e.get("k") == "mcall" and e["m"] == "clone" and not e["args"]:
                e = e["recv"]
            return sir.expr_str(e)
        probs = []
        if len(with_src) == 1:
            lit = src_struct(with_src[0])
            flds = {x["name"]: plain(x["e"]) for x in lit.get("fields", [])}
            params = set(f.param_names())
            for nm in ("has_sign", "value", "int_value", "unit"):
                if flds.get(nm) != nm or nm not in params:
                    probs.append("field `%s` of the name token is `%s`, not the original token's `%s`" % (nm, flds.get(nm), nm))
            muts = [sir.expr_str(x["l"]) for x in sir.walk(f.body) if x.get("k") in ("assign", "binary") and str(x.get("op", "=")).endswith("=") and x.get("op") not in ("==", "!=", "<=", ">=") and sir.expr_str(x["l"]) in ("has_sign", "value", "int_value", "unit")]
            shadows = [x["pat"].get("name") for x in sir.walk(f.body) if x.get("k") == "local" and x["pat"].get("name") in ("has_sign", "value", "int_value", "unit")]
            if muts or shadows:
                probs.append("the original fields are modified before use: %s" % (muts + shadows))
        callers = 0
        for g in sc.fns:
            if not g.body:
                continue
            for c in sir.walk(g.body):
                if c.get("k") == "call" and sir.call_name(c) == "write_maybe_rpx_dimension" and len(c["args"]) == 7:
                    callers += 1
                    got = [plain(a) for a in c["args"][3:]]
                    if got != ["has_sign", "value", "int_value", "unit"]:
                        probs.append("%s passes %s" % (g.name, got))
        obs.append(ob("%s.src/rpx-name" % prefix, len(with_src) == 1 and not probs and callers >= 2, ctx.where(f),
                      "; ".join(probs) if probs else "the name of a rewritten rpx value is rebuilt from the matched token's own has_sign/value/int_value/unit (%d call sites)" % callers,
                      witness=None if not probs else "`+15rpx` is named `15rpx`"))
    wc = [f for f in sc.fns if f.name == "write_maybe_class_name" and f.body]
    if wc:
        f = wc[0]
        pos = all("next.position" in sir.expr_str(x) for x in sir.walk(f.body) if x.get("k") == "call" and (sir.call_path(x) or "").endswith("StepToken::wrap"))
        obs.append(ob("%s.src/class" % prefix, pos, ctx.where(f), "prefixed class and sign comment take the position of the original identifier: %s" % pos))
    # closing brackets take the opening bracket's position
    an = [f for f in sc.fns if f.name == "append_nested_block" and f.body]
    if an:
        f = an[0]
        ok = any(n.get("k") == "call" and (sir.call_path(n) or "").endswith("StepToken::wrap") and sir.expr_str(n["args"][1]) == "position" for n in sir.walk(f.body)) and \
            any(n.get("k") == "local" and n["pat"].get("name") == "position" and sir.expr_str(n["init"]) == "token.position" for n in sir.walk(f.body))
        obs.append(ob("%s.src/close-bracket" % prefix, ok, ctx.where(f), "the synthesised closing bracket points at its opening bracket: %s" % ok))
        # mapping open -> close
        table = {}
        for n in sir.walk_reach(sc, f, 1):      # the table may live in a one-line helper (`closing_token_of(&token)`)
            if n.get("k") == "arm":
                vs = [c["segs"][-1] for c in ([n["pat"]] if n["pat"].get("k") != "p_or" else n["pat"]["cases"]) if c.get("k") in ("p_path", "p_ts", "p_struct")]
                b = n["body"]
                if b.get("k") == "path":
                    for v in vs:
                        table[v] = b["segs"][-1]
        want = {"CurlyBracketBlock": "CloseCurlyBracket", "SquareBracketBlock": "CloseSquareBracket", "ParenthesisBlock": "CloseParenthesis", "Function": "CloseParenthesis"}
        obs.append(ob("%s.src/bracket-pairs" % prefix, table == want, ctx.where(f), "block openers are closed by %s" % table))
    # StepParser::position: column is 0-based UTF-16 from cssparser's 1-based column
    sp = [f for f in sc.fns if f.name == "position" and f.base == "StepParser" and f.body]
    if sp:
        f = sp[0]
        flds = {}
        locs = {n["pat"]["name"]: n["init"] for n in sir.walk(f.body) if n.get("k") == "local" and n["pat"].get("k") == "p_ident" and n.get("init") is not None}
        # names bound by destructuring the source location
        destr = set()
        for n in sir.walk(f.body):
            if n.get("k") == "local" and n.get("init") is not None and "current_source_location" in sir.expr_str(n["init"]):
                if n["pat"].get("k") == "p_ident":
                    destr.add(n["pat"]["name"] + ".")
                else:
                    destr |= set(b for b, _p in sir.pat_bindings(n["pat"]))

        def res(e, depth=0):
            t = sir.expr_str(e).replace(" ", "")
            if e.get("k") == "path" and len(e["segs"]) == 1 and e["segs"][0] in locs and depth < 2 and "current_source_location" not in sir.expr_str(locs[e["segs"][0]]):
                return res(locs[e["segs"][0]], depth + 1)
            return t
        for n in sir.walk(f.body):
            if n.get("k") == "struct":
                flds = {x["name"]: res(x["e"]) for x in n["fields"]}
        col, line = flds.get("utf16_col", ""), flds.get("line", "")
        ok = bool(destr) and (col in ("loc.column-1", "column-1") or re.fullmatch(r"\w+\.column-1", col) is not None) and (line == "line" or line.endswith(".line")) \
            and (col.split(".")[0] + "." in destr or "column" in destr) and (line in destr or line.split(".")[0] + "." in destr)
        obs.append(ob("%s.src/position" % prefix, ok, ctx.where(f), "positions are (line, column-1) of cssparser's current_source_location: %s" % ok))
    # the position of a StepToken is sampled immediately before a cssparser call that consumes exactly one token
    sps = [f for f in sc.fns if f.base == "StepParser" and f.body and not getattr(f, "inlined", False)]
    raw = []
    for f in sps:
        pm = sir.parent_map(f.body)
        for n in sir.walk(f.body):
            if n.get("k") == "mcall" and n["m"].startswith("next") and sir.expr_str(n["recv"]).replace(" ", "") == "self.parser":
                raw.append((f, n, pm))
    probs = []
    for f, n, pm in raw:
        if n["m"] != "next_including_whitespace_and_comments":
            probs.append("%s reads a token with cssparser's `%s`, which silently skips comments after the position was sampled" % (f.name, n["m"]))
            continue
        # enclosing statement and its predecessor
        cur = n
        prev = None
        while id(cur) in pm:
            par = pm[id(cur)]
            if par.get("k") == "block":
                idx = [i for i, st in enumerate(par["stmts"]) if st is cur]
                if idx:
                    prev = par["stmts"][idx[0] - 1] if idx[0] > 0 else None
                    blk = par
                    break
            cur = par
        pe_ = prev.get("e") if prev is not None and prev.get("k") == "expr" else None
        resampled = pe_ is not None and pe_.get("k") in ("assign", "binary") and pe_.get("op", "=") == "=" and sir.expr_str(pe_["l"]) == "position" and sir.expr_str(pe_["r"]).replace(" ", "") == "self.position()"
        if not resampled and not (prev is not None and prev.get("k") == "local" and prev["pat"].get("name") == "position" and prev.get("init") is not None and sir.expr_str(prev["init"]).replace(" ", "") == "self.position()"):
            probs.append("%s: the statement before the token read is not `let position = self.position()`" % f.name)
            continue
        lits = [x for x in sir.walk(blk) if x.get("k") == "struct" and sir.expr_str(x).startswith("StepToken")]
        wraps = [x for x in sir.walk(blk) if x.get("k") == "call" and (sir.call_path(x) or "").endswith("StepToken::wrap") and len(x["args"]) == 2]
        if not (lits or wraps):
            # the read sits in a comment-skipping loop: the token is built after the loop, from the variables the loop re-assigns
            lits = [x for x in sir.walk(f.body) if x.get("k") == "struct" and sir.expr_str(x).startswith("StepToken")]
            wraps = [x for x in sir.walk(f.body) if x.get("k") == "call" and (sir.call_path(x) or "").endswith("StepToken::wrap") and len(x["args"]) == 2]
            blk = f.body
        ok_lits = all(any(fl["name"] == "position" and sir.expr_str(fl["e"]) == "position" for fl in x["fields"]) for x in lits)
        ok_wraps = all(sir.expr_str(sir.strip_ref(x["args"][1])) in ("position", "position.clone()") for x in wraps)
        if not (lits or wraps) or not ok_lits or not ok_wraps:
            probs.append("%s: the StepToken built from that read does not carry that position" % f.name)
        cm = [x for x in sir.walk(f.body) if x.get("k") == "while" and x["cond"].get("k") == "let" and "Token::Comment" in sir.pat_str(x["cond"]["pat"])] or \
             [x for x in sir.walk(blk) if x.get("k") in ("if", "match") and "Token::Comment" in sir.expr_str(x.get("cond") or x.get("e")) + " ".join(sir.pat_str(a["pat"]) for a in x.get("arms", [])) + (sir.pat_str(x["cond"]["pat"]) if x.get("k") == "if" and x["cond"].get("k") == "let" else "")]
        if not cm:
            probs.append("%s: comments are not filtered out of the raw token stream" % f.name)
    obs.append(ob("%s.src/sampled-at-token" % prefix, bool(raw) and not probs, "glass-easel-stylesheet-compiler/src/step.rs",
                  "; ".join(probs) if probs else "%d raw token read(s), each `next_including_whitespace_and_comments` directly after `let position = self.position()`, comments skipped by re-sampling" % len(raw),
                  witness=None if not probs else "`.a/*c*/.b{}`: the second `.` is mapped to the comment's column"))
    for nm, inner in (("next", "next_including_whitespace"), ("peek", "peek_including_whitespace")):
        g = [f for f in sps if f.name == nm]
        if g:
            st = g[0].body["stmts"]
            okw = len(st) == 2 and sir.expr_str(st[0].get("e")).replace(" ", "") == "self.parser.skip_whitespace()" and sir.expr_str(st[1].get("e")).replace(" ", "") == "self.%s()" % inner
            obs.append(ob("%s.src/%s" % (prefix, nm), okw, ctx.where(g[0]), "%s() = skip blanks and comments, then %s(): %s" % (nm, inner, okw)))
    g = [f for f in sps if f.name == "peek_including_whitespace"]
    if g:
        nodes = [n for n in sir.walk(g[0].body) if n.get("k") == "mcall"]
        names = [n["m"] for n in nodes]
        okp = "state" in names and "reset" in names and "next_including_whitespace" in names and names.index("state") < names.index("next_including_whitespace") < names.index("reset") and "position" not in names
        obs.append(ob("%s.src/peek_including_whitespace" % prefix, okp, ctx.where(g[0]), "peeking is reading (with the same position rule) between state() and reset(): %s" % okp))
    return obs
