"""C06 - incremental update is sound: marked changes are never missed (generator half)."""
import re
import os
import sir
import emitseq as es
import prectables as pt
from exprmodel import ExprModel, arm_table, bound_fields

RULE = ("C06.guard: every use of a dynamic value (p.value_expr) in a tree-update statement is either unconditional by design "
        "(if conditions, list value and slot arguments of E/J/S/F calls, template key: re-evaluated on every pass) or guarded by the "
        "update-path state of the *same* prepared expression behind one of the guard forms `C||K||<state>?`, `if(C||K||<state>)`, "
        "`U?<state>:undefined`, `K||(U?<state>:Object.create(null))`. C06.paths: in the expression generator every child of every "
        "variant is generated through a form that keeps its dependency information (the caller's accumulator, or a returned state that "
        "flows into the arm's result); scope references are in-path whenever the scope has an update-path tree. C06.scopes: wx:for "
        "item/index and slot-value scopes carry update_path_tree: Some(the parameter spliced into the callback signature); script "
        "scopes carry None.")
EXPLANATION = ("Guard discipline of every setter statement and dependency propagation through all 44 expression variants are decided "
               "on the syntax tree of the generator; the runtime half (Z, Q.a/Q.b, list diff) is not analysed and nothing is rendered.")
ASSUMPTIONS = ["the runtime re-runs the generated update function with U marking at least the changed paths", "helper Z descends update-path trees as defined in RUNTIME_ITEMS"]

GUARD_FORMS = [
    (r"(^|[(,=])C\|\|K\|\|$", r"^\?", "C||K||<state>?"),
    (r"(^|;)if\(C\|\|K\|\|$", r"^\)", "if(C||K||<state>)"),
    (r",U\?$", r"^:undefined,", "U?<state>:undefined"),
    (r",K\|\|\(U\?$", r"^:Object\.create\(null\)\)", "K||(U?<state>:Object.create(null))"),
]


def top_tokens(tokens):
    """flatten conditionals of one statement but do not enter nested closures (they are other statements)"""
    out = []
    for t in tokens:
        if t[0] in ("lit", "hole", "call"):
            out.append(t)
        elif t[0] == "if":
            out.extend(top_tokens(t[2]))
            out.extend(top_tokens(t[3]))
        elif t[0] == "match":
            for _p, b in t[2]:
                out.extend(top_tokens(b))
        elif t[0] == "for":
            out.extend(top_tokens(t[2]))
        elif t[0] == "closure-call":
            if t[1] in ("paren",):
                for c in t[3]:
                    out.extend(top_tokens(c))
            else:
                out.append(("hole", "<closure>"))
    return es.merge(out)


def statements(tokens, inside_map=False, acc=None):
    acc = acc if acc is not None else []
    for t in tokens:
        if t[0] == "closure-call":
            if t[1] == "expr_stmt":
                acc.append((t[3][0] if t[3] else [], inside_map))
                for c in t[3]:
                    statements(c, inside_map, acc)
            elif t[1] == "to_proc_gen_write_map":
                for c in t[3]:
                    statements(c, True, acc)
            else:
                for c in t[3]:
                    statements(c, inside_map, acc)
        elif t[0] == "if":
            statements(t[2], inside_map, acc)
            statements(t[3], inside_map, acc)
        elif t[0] == "match":
            for _p, b in t[2]:
                statements(b, inside_map, acc)
        elif t[0] == "for":
            statements(t[2], inside_map, acc)
    return acc


def guard_rule(ctx):
    ob = ctx.ob
    tc = ctx.tc
    obs = []
    n_val = 0
    for f in tc.fns:
        if not f.body or "proc_gen" not in f.module or "tag" not in f.module:
            continue
        toks = es.linearize(f.body, top=True)
        k = 0
        for stmt, in_map in statements(toks):
            tt = top_tokens(stmt)
            vals = [i for i, t in enumerate(tt) if t[0] == "call" and t[1] == "value_expr"]
            if not vals:
                continue
            head = "".join(t[1] if t[0] == "lit" else "\x00" for t in tt[:4])
            for i in vals:
                n_val += 1
                k += 1
                recv = tt[i][2]
                key = "C06.guard/%s/%s#%d" % (f.qual, re.sub(r"[^A-Za-z.(|?=]", "", head)[:24], k)
                if in_map:
                    obs.append(ob(key, True, ctx.where(f), "inside a binding-map updater (runs only when its field changed)"))
                    continue
                # nearest preceding state expression
                st = [j for j in range(i) if tt[j][0] == "call" and tt[j][1] == "lvalue_state_expr"]
                st_after = [j for j in range(i + 1, len(tt)) if tt[j][0] == "call" and tt[j][1] == "lvalue_state_expr"]
                if st or st_after:
                    j = st[-1] if st else st_after[0]
                    before = tt[j - 1][1] if j > 0 and tt[j - 1][0] == "lit" else ""
                    after = tt[j + 1][1] if j + 1 < len(tt) and tt[j + 1][0] == "lit" else ""
                    form = None
                    for b_rx, a_rx, name in GUARD_FORMS:
                        if re.search(b_rx, before) and re.search(a_rx, after):
                            form = name
                    same = tt[j][2] == recv
                    ok = form is not None and same
                    d = "value of `%s` guarded by %s of `%s` (context %r ... %r)" % (recv, form or "an unrecognised guard", tt[j][2], before[-14:], after[:10])
                    if not same:
                        d += ": the state of ANOTHER expression guards this value - a change of its own dependencies is missed"
                    obs.append(ob(key, ok, ctx.where(f), d, sample={"statement": es.show(tt)[:160]}))
                    continue
                # unguarded: must be a structural position
                text = "".join(t[1] if t[0] == "lit" else "\x00" for t in tt)
                structural = None
                if re.match(r"^\x00=", text):
                    structural = "assignment of a branch index / template key (evaluated on every pass)"
                elif re.match(r"^(E|J|S)\(", text):
                    structural = "slot argument of %s(): evaluated on every pass" % text[0]
                elif re.match(r"^F\(", text):
                    structural = "list value of F(): evaluated on every pass"
                ok = structural is not None
                obs.append(ob(key, ok, ctx.where(f), ("unguarded by design: " + structural) if ok else
                              "dynamic value `%s` is used in the statement %r without the update-path guard of its own expression: it is set only on creation (or always), so a later change is missed" % (recv, text.replace("\x00", "{}")[:60]),
                              witness=None if ok else '<a x="{{v}}"/> : after setData({v: 2}) the attribute keeps its old value'))
    if n_val < 15:
        obs.append(ob("C06.floor/values", False, "proc_gen/tag.rs", "only %d dynamic value uses found (floor 15)" % n_val))
    # F(...) passes the list's update path tree
    ef = [f for f in tc.fns if f.base == "Element" and f.name == "to_proc_gen" and f.body]
    if ef:
        toks = es.linearize(ef[0].body, top=True)
        raw = [s for s, m in statements(toks) if top_tokens(s) and top_tokens(s)[0][0] == "lit" and top_tokens(s)[0][1].startswith("F(")]
        # the tree argument is written unconditionally: the call token stands at the top level of the statement, not inside an if/match
        def uncond(ts):
            if any(t[0] == "call" and t[1] == "lvalue_state_expr" for t in ts):
                return True
            # the static-list arm has no state at all; in the dynamic arm the call is at the arm's top level
            for t in ts:
                if t[0] == "match":
                    dyn = [b for p_, b in t[2] if "Dynamic" in p_]
                    if dyn and all(any(x[0] == "call" and x[1] == "lvalue_state_expr" for x in b) for b in dyn):
                        return True
            return False
        ok = bool(raw) and all(uncond(s) for s in raw)
        obs.append(ob("C06.guard/for-list-tree", ok, ctx.where(ef[0]), "F(...) receives `U?<state of the list>:undefined` as its update-path tree for every kind of list expression (written unconditionally): %s" % ok,
                      witness=None if ok else "wx:for=\"{{ list || [] }}\": surviving items get no item tree, `{{item.x}}` stays stale"))
    return obs


def paths_rule(ctx):
    ob = ctx.ob
    tc = ctx.tc
    obs = []
    model = ExprModel(tc)
    g = pt.main_expression_fn(tc, model, "proc_gen")
    if g is None:
        return [ob("C06.paths/anchor", False, "proc_gen/expr.rs", "expression generator not found")]
    genf, gm, _n = g
    where = ctx.where(genf)
    table = arm_table(gm, model)
    acc_param = None
    for p in genf.params:
        if "Vec<PathSliceList>" in (p.get("ty") or "").replace(" ", ""):
            acc_param = p["pat"].get("name")
    for v in model.variants:
        kids = model.child_fields(v)
        if not kids:
            continue
        if v not in table:
            obs.append(ob("C06.paths/%s" % v, False, where, "no arm"))
            continue
        arm, case = table[v][0]
        bf = bound_fields(case)
        pm = sir.parent_map(arm["body"])
        for (fname, kind, target) in kids:
            b = bf.get(fname)
            key = "C06.paths/%s/%s" % (v, fname)
            if b is None:
                obs.append(ob(key, False, where, "child `%s` is not bound by the arm: its dependencies are ignored" % fname))
                continue
            calls = []
            for n in sir.walk(arm["body"]):
                GEN = ("to_proc_gen_rec", "to_proc_gen_rec_and_end_path", "to_proc_gen_rec_and_combine_paths")
                if n.get("k") == "mcall" and n["m"] not in GEN and sir.root_expr_name(n["recv"]) == b:
                    # a private helper that generates `self` through one of the generator methods: judge the inner call with the
                    # helper's parameters replaced by the arguments of this call
                    hs = [g for g in tc.fns if g.name == n["m"] and g.base == "Expression" and g.body]
                    if len(hs) == 1:
                        inner = [x for x in sir.walk(hs[0].body) if x.get("k") == "mcall" and x["m"] in GEN and sir.expr_str(sir.strip_ref(x["recv"])) == "self"]
                        pn = [p_ for p_ in hs[0].param_names() if p_ != "self"]
                        if len(inner) == 1 and len(pn) == len(n["args"]):
                            amap = {p_: a for p_, a in zip(pn, n["args"])}
                            virt = {"k": "mcall", "m": inner[0]["m"], "recv": n["recv"], "args": [amap.get(sir.expr_str(sir.strip_ref(a)), a) for a in inner[0]["args"]], "sp": n["sp"], "_helper": n}
                            calls.append(virt)
                            continue
                if n.get("k") == "mcall" and n["m"] in GEN:
                    r = sir.root_expr_name(n["recv"])
                    if r == b:
                        calls.append(n)
                    elif kind == "list":
                        # element of the list: receiver bound by a loop/match over b
                        calls.append(n) if list_elem_of(arm["body"], r, b) else None
            if not calls:
                obs.append(ob(key, False, where, "child `%s` is never generated" % fname))
                continue
            problems = []
            for c in calls:
                m = c["m"]
                args = [sir.expr_str(a) for a in c["args"]]
                if m == "to_proc_gen_rec_and_end_path":
                    if acc_param not in args:
                        problems.append("generated with a private accumulator instead of the caller's `%s`" % acc_param)
                elif m in ("to_proc_gen_rec", "to_proc_gen_rec_and_combine_paths"):
                    # result must be bound and used
                    p = pm.get(id(c.get("_helper", c)))
                    while p is not None and p.get("k") in ("try", "ref"):
                        p = pm.get(id(p))
                    if p is None or p.get("k") != "local":
                        problems.append("the dependency state returned by %s() is discarded" % m)
                    else:
                        names = [nm for nm, _ in sir.pat_bindings(p["pat"])]
                        used = any(x.get("k") == "path" and x["s"] in names for x in sir.walk(arm["body"]) if x is not p and not inside(x, p, pm))
                        if not used:
                            problems.append("the dependency state returned by %s() is bound to %s but never used" % (m, names))
                    if m == "to_proc_gen_rec" and acc_param not in args:
                        problems.append("generated without the caller's accumulator")
                else:
                    problems.append("generated through unknown form %s" % m)
            obs.append(ob(key, not problems, where, "; ".join(problems) if problems else "child `%s` keeps its dependency information (%s)" % (fname, sorted(set(c["m"] for c in calls))),
                          witness=None if not problems else "a binding using this operand form is not re-evaluated when only that operand's data changes"))
    # ScopeRef: in path when the scope has a tree
    if "ScopeRef" in table:
        arm, _c = table["ScopeRef"][0]
        s = " ".join(sir.expr_str(n) for n in sir.walk(arm["body"]) if n.get("k") == "if")
        ok = "update_path_tree.is_some()" in s
        obs.append(ob("C06.paths/ScopeRef", ok, where, "a scope reference is in-path whenever its scope has an update-path tree: %s" % ok))
        # the same as a decision table: the arm is interpreted for every kind of scope variable x (tree present / absent); the
        # reference must be in-path for every script scope and for every variable with a tree, whatever its l-value path is
        try:
            import absint as ai
            F = ai.FREE
            kinds = {"Invalid": ("E", "Invalid", ()), "Var/data": ("E", "Var", (("var_name", F), ("from_data_scope", True))),
                     "Var/local": ("E", "Var", (("var_name", F), ("from_data_scope", False))), "Script": ("E", "Script", (("abs_path", F),)),
                     "InlineScript": ("E", "InlineScript", (("path", F), ("mod_name", F)))}
            wrong, und = [], []
            for kn, kv in kinds.items():
                for tree in (True, False):
                    def hooks(it, e, st, kv=kv, tree=tree):
                        if e.get("k") == "field" and e["name"] == "lvalue_path":
                            return [(kv, st)]
                        if e.get("k") == "mcall" and e["m"] in ("is_some", "is_none") and "update_path_tree" in sir.expr_str(e["recv"]):
                            return [(tree if e["m"] == "is_some" else (not tree), st)]
                        if e.get("k") == "field" and e["name"] == "update_path_tree":
                            return [((("Some", F) if tree else "None"), st)]
                        return None
                    it = ai.Interp(hooks=hooks, idx=ctx.tc)
                    env = {nm: F for nm in genf.param_names()}
                    for nm, _p in sir.pat_bindings(_c):
                        env[nm] = F
                    try:
                        outs = [o for o in it.run(arm["body"], env) if ("$error-exit",) not in o.events]
                    except ai.TooManyPaths:
                        outs = None
                    vals = set()
                    for o in (outs or []):
                        v = o.value
                        if o.kind != "val" or o.tainted or not (isinstance(v, tuple) and len(v) >= 2 and v[0] == "E" and v[1] in ("InPath", "NotInPath")):
                            vals.add("?")
                        else:
                            vals.add(v[1])
                    if not outs or "?" in vals:
                        und.append(kn)
                        continue
                    want = "InPath" if (tree or kn in ("Script", "InlineScript")) else None
                    if want and vals != {want}:
                        wrong.append("%s scope variable %s a tree: %s" % (kn, "with" if tree else "without", sorted(vals)))
            obs.append(ob("C06.paths/ScopeRef/table", None if (und and not wrong) else not wrong, where,
                          "; ".join(wrong) if wrong else ("not decided for %s" % sorted(set(und)) if und else "in-path for the 5 kinds of scope variable whenever the scope has an update tree, and for script modules always"),
                          witness=None if not wrong else "{{index}} in a keyed wx:for is not updated when items are inserted in front; {{item}} over a computed list goes stale"))
        except Exception as ex:   # the table is an addition to the textual rule above: a form it cannot read is not an alarm
            obs.append(ob("C06.paths/ScopeRef/table", None, where, "not decided (%s)" % type(ex).__name__))
    if "DataField" in table:
        arm, _c = table["DataField"][0]
        ok = any(n.get("k") == "call" and (sir.call_path(n) or "").endswith("PathSlice::Ident") for n in sir.walk(arm["body"]))
        obs.append(ob("C06.paths/DataField", ok, where, "a data field yields the path [Ident(name)]: %s" % ok))
    # the *_and_end_path helper pushes the returned state
    h = [f for f in tc.fns if f.name == "to_proc_gen_rec_and_end_path" and f.body]
    ok = len(h) == 1 and any(n.get("k") == "mcall" and n["m"] == "push" for n in sir.walk(h[0].body))
    obs.append(ob("C06.paths/end-path-helper", ok, "proc_gen/expr.rs", "to_proc_gen_rec_and_end_path pushes the child's path into the accumulator: %s" % ok))
    # prepare(): keeps pas and sub_p; lvalue_state_expr uses both
    lse = [f for f in tc.fns if f.name == "lvalue_state_expr" and f.body]
    ok = len(lse) == 1 and "self.sub_p" in " ".join(sir.expr_str(n) for n in sir.walk(lse[0].body) if n.get("k") == "mcall")
    obs.append(ob("C06.paths/state-uses-accumulator", ok, "proc_gen/expr.rs", "the guard expression is built from the result state and the accumulated sub-paths: %s" % ok))
    return obs


def inside(x, anc, pm):
    p = x
    while id(p) in pm:
        p = pm[id(p)]
        if p is anc:
            return True
    return False


def list_elem_of(body, name, listname):
    """is `name` bound (transitively) from iterating / matching `listname` ?"""
    if name is None:
        return False
    names = {listname}
    for _ in range(4):
        for n in sir.walk(body):
            if n.get("k") == "for" and sir.root_expr_name(n["e"]) in names:
                names.update(nm for nm, _p in sir.pat_bindings(n["pat"]))
            if n.get("k") == "match" and sir.root_expr_name(n["e"]) in names:
                for a in n["arms"]:
                    names.update(nm for nm, _p in sir.pat_bindings(a["pat"]))
            # `let (k, v) = <expression built from an element>` / `let v = elem.value`
            if n.get("k") == "local" and n.get("init") is not None and any(x.get("k") == "path" and len(x["segs"]) == 1 and x["segs"][0] in names and x["segs"][0] != listname for x in sir.walk(n["init"])):
                names.update(nm for nm, _p in sir.pat_bindings(n["pat"]))
            if n.get("k") == "if" and n["cond"].get("k") == "let" and sir.root_expr_name(n["cond"]["e"]) in names:
                names.update(nm for nm, _p in sir.pat_bindings(n["cond"]["pat"]))
    return name in names


def scopes_rule(ctx):
    ob = ctx.ob
    tc = ctx.tc
    obs = []
    for f in tc.fns:
        if not f.body or "proc_gen" not in f.module or "tag" not in f.module:
            continue
        binds = {}
        for n in sir.walk(f.body):
            if n.get("k") == "local" and n["pat"].get("k") == "p_ident" and n.get("init") is not None:
                binds[n["pat"]["name"]] = sir.expr_str(n["init"]).replace(" ", "")
        for n in sir.walk(f.body):
            if n.get("k") == "struct" and n["path"].endswith("ScopeVar"):
                fl = {y["name"]: y["e"] for y in n["fields"]}
                var = sir.expr_str(fl.get("var"))
                upt = fl.get("update_path_tree")
                us = sir.expr_str(upt)
                key = "C06.scopes/%s/%s" % (f.qual, var.split(".")[0])
                if "arg_scope_item" in var or "arg_scope_index" in var:
                    which = "item" if "item" in var else "index"
                    ok = us.startswith("Some(") and ("arg_scope_%s_update_path_tree" % which) in us
                    src = binds.get("arg_scope_%s_update_path_tree" % which, "")
                    want = "&args[3]" if which == "item" else "&args[4]"
                    ok = ok and src == want
                    obs.append(ob(key, ok, ctx.where(f), "wx:for %s scope: update_path_tree=%s bound to %s (expected Some(..) of %s)" % (which, us, src, want)))
                elif "var_scope" in var:
                    ok = us.startswith("Some(") and "var_update_path_tree" in us
                    obs.append(ob(key, ok, ctx.where(f), "slot-value scope: update_path_tree=%s" % us))
                elif var == "ident":
                    ok = us == "None"
                    obs.append(ob(key, ok, ctx.where(f), "script module scope: update_path_tree=%s (modules are constants)" % us))
                else:
                    obs.append(ob(key, us.startswith("Some("), ctx.where(f), "scope %s: update_path_tree=%s" % (var, us)))
    # the slot update-path variable is `C?!0:W[name]` (everything changed on creation)
    inner = [f for f in tc.fns if f.name == "to_proc_gen_define_children_content" and f.body]
    if inner:
        lits = ["".join(p[1] if p[0] == "lit" else "{}" for p in sir.write_fmt_call(n)[1]) for n in sir.walk(inner[0].body) if sir.write_fmt_call(n)]
        ok = any(l.startswith("C?!0:W") for l in lits) and any(l.startswith("X(V)") for l in lits)
        obs.append(ob("C06.scopes/slot-values-source", ok, ctx.where(inner[0]), "slot values are read from V and their trees from W (`C?!0:W[..]`): %s" % lits))
    return obs


def runtime_rule(ctx):
    """C06.runtime: the path-descent and combination helpers have the documented one-line semantics, and a computed (not-in-path)
    operand still contributes the sub-paths it read."""
    ob = ctx.ob
    tc = ctx.tc
    obs = []
    want = {
        ("RUNTIME_ITEMS", "Z"): (r"^function\(a,b\)\{if\(a===true\)returntrue;if\(a\)returna\[b\]\}$", "Z(tree,key): true stays true, otherwise descend by key whenever the tree is truthy (keys 0 and '' included)"),
        ("EXTRA_RUNTIME_ITEMS", "a"): (r"^function\(a\)\{for\(vari=0;i<a\.length;i\+\+\)if\(a\[i\]\)returna\}$", "Q.a(list): truthy iff any entry is truthy"),
        ("EXTRA_RUNTIME_ITEMS", "b"): (r"^function\(b\)\{vara=Object\.values\(b\);for\(vari=0;i<a\.length;i\+\+\)if\(a\[i\]\)returna\}$", "Q.b(obj): truthy iff any value is truthy"),
    }
    for (tname, h), (rx, what) in want.items():
        c = tc.const(tname)
        body = None
        if c is not None:
            for el in sir.walk(c["e"]):
                if el.get("k") == "tuple" and len(el["elems"]) == 2 and el["elems"][0].get("v") == h:
                    body = el["elems"][1].get("v")
        ok = body is not None and re.match(rx, re.sub(r"\s+", "", body)) is not None
        obs.append(ob("C06.runtime/%s.%s" % (tname, h), ok, "group.rs", "%s - defined as %s" % (what, body)))
    pa = [f for f in tc.fns if f.name == "to_path_analysis_str" and f.base == "PathAnalysisState" and f.body]
    if len(pa) != 1:
        obs.append(ob("C06.runtime/notinpath", False, "proc_gen/expr.rs", "PathAnalysisState::to_path_analysis_str not found"))
    else:
        f = pa[0]
        import guards as gd
        G = gd.guards_of(f.body)

        def ctx_of(n):
            """(is in the NotInPath case, sub_p known non-empty?) from the dominating conditions of node n"""
            nip = False
            ne = None
            for kind, subj, pol in G.get(id(n), []):
                if kind == "pat" and pol and "NotInPath" in subj[1]:
                    nip = True
                if kind == "cond":
                    et = sir.emptiness_test(subj)
                    if et and et[0].endswith("sub_p"):
                        ne = (et[1] == pol)
                    elif et is None and "sub_p.len()" in sir.expr_str(subj).replace(" ", ""):
                        ne = "other"  # a length test that is not `non-empty` (e.g. `len() > 1`)
            return nip, ne
        writes = [n for n in sir.walk(f.body) if (sir.write_fmt_call(n) or (None, []))[1] == [("lit", "undefined")]]
        nones = [n for n in sir.walk(f.body) if n.get("k") == "path" and n.get("s") == "None" and ctx_of(n)[0]]
        okc = None
        d = "a form this rule does not read"
        if writes:
            st = [ctx_of(n) for n in writes]
            d = "`undefined` is reported %s; nothing is reported %s" % (["in the computed case, sub-paths non-empty=%s" % ne for _nip, ne in st], ["sub-paths non-empty=%s" % ctx_of(n)[1] for n in nones])
            if all(nip and ne is True for nip, ne in st) and nones and all(ctx_of(n)[1] is False for n in nones):
                okc = True
            elif any(ne in (False, "other") for _nip, ne in st) or any(ctx_of(n)[1] in (True, "other") for n in nones):
                okc = False
        elif not any("undefined" in sir.expr_str(n) for n in sir.walk(f.body)):
            okc = False
            d = "a computed operand never reports a state"
        obs.append(ob("C06.runtime/notinpath", okc, ctx.where(f), "a computed operand that read at least one path still reports a (truthy-testable) state: %s" % d,
                      witness=None if okc is not False else "<t is=\"x\" data=\"{{ bb: a + 1 }}\"/> : marking only `a` does not reach the sub-template"))
        # the prefix is recognised by what is written (`!!` .. `||` around a loop over the sub-paths), in this function or in a
        # private helper it calls
        lits = [p_[1] for n in sir.walk_reach(tc, f) for p_ in ((sir.write_fmt_call(n) or (None, []))[1]) if p_[0] == "lit"]
        loops_subp = any(n.get("k") == "for" and any(x.get("k") == "mcall" and x["m"] == "to_path_analysis_str" for x in sir.walk(n["body"])) for n in sir.walk_reach(tc, f))
        lits += [n["v"] for n in sir.walk_reach(tc, f) if n.get("k") == "lit" and n.get("t") == "str"]   # literals chosen by an `if` expression
        pre = any(l.startswith("!!") for l in lits) and any(l.endswith("||") for l in lits) and loops_subp
        obs.append(ob("C06.runtime/group-prefix", pre, ctx.where(f), "the accumulated sub-paths are emitted as a `!!(..||..)||` prefix: %s" % pre))
    return obs


def dropped_text_rule(ctx):
    """every piece of update-guard text assembled in a local buffer reaches the output on every path (lib/dyck.py tracks the buffers)"""
    import dyck
    ob = ctx.ob
    tc = ctx.tc
    fns = [f for f in tc.fns if f.body and f.module[:1] == ["proc_gen"]]
    A = dyck.Analyzer(tc, fns)
    for f in fns:
        A.summary(f)
    obs = []
    k = 0
    for f in fns:
        bufs = [n["pat"]["name"] for n in sir.walk(f.body) if n.get("k") == "local" and n["pat"].get("k") == "p_ident" and dyck._is_string_new(n.get("init"))]
        if not bufs:
            continue
        k += 1
        dr = sorted(A.dropped.get(f.qual, []))
        obs.append(ob("C06.paths/no-dropped-text/%s" % f.qual, not dr, ctx.where(f), "text written into %s is discarded on some path" % dr if dr else "local buffers %s: whatever is written into them is pasted into the output (or returned) on every path" % sorted(set(bufs)),
                      witness=None if not dr else "<template is=\"t\" data=\"{{ ...obj, b }}\"/>: the `(U.obj)===true||` part of the guard is lost, spread-in fields go stale"))
    if k < 3:
        obs.append(ob("C06.floor/buffers", False, "proc_gen/expr.rs", "only %d emitters with local text buffers (floor 3)" % k))
    return obs


def tuple_partner_rule(ctx):
    """`(state, sub_paths)` pairs travel together: a call on the state of one branch takes the sub-paths bound with it"""
    ob = ctx.ob
    tc = ctx.tc
    obs = []
    k = 0
    for f in tc.fns:
        if not f.body or f.module[:2] != ["proc_gen", "expr"]:
            continue
        for a in sir.walk(f.body):
            if a.get("k") != "arm":
                continue
            pairs = []
            for t in sir.walk(a["pat"]):
                if t.get("k") == "p_tuple" and len(t["elems"]) == 2 and all(e.get("k") == "p_ident" for e in t["elems"]):
                    pairs.append((t["elems"][0]["name"], t["elems"][1]["name"]))
            if len(pairs) < 2:
                continue
            firsts = {x: y for x, y in pairs}
            seconds = {y for _x, y in pairs}
            for c in sir.walk(a["body"]):
                if c.get("k") == "mcall" and sir.strip_ref(c["recv"]).get("k") == "path" and sir.expr_str(sir.strip_ref(c["recv"])) in firsts:
                    r = sir.expr_str(sir.strip_ref(c["recv"]))
                    used = [sir.expr_str(sir.strip_ref(x)) for x in c["args"] if sir.expr_str(sir.strip_ref(x)) in seconds]
                    if not used:
                        continue
                    k += 1
                    okp = used == [firsts[r]]
                    obs.append(ob("C06.paths/partner/%s/%s.%s" % (f.qual, r, c["m"]), okp, ctx.where(f), "`%s.%s(..)` is given `%s` (bound together with it: `%s`)" % (r, c["m"], used[0], firsts[r]),
                                  witness=None if okp else "{{ c ? a : b + 1 }}: the guard of the false branch lists the true branch's sub-paths, a change of `b` is missed"))
    if k < 2:
        obs.append(ob("C06.floor/partners", False, "proc_gen/expr.rs", "only %d paired calls found (floor 2)" % k))
    return obs


def wave8_rules(ctx):
    """obligations added after the eighth wave of seeded changes"""
    import json as _json
    import guards as G
    from exprmodel import ExprModel, arm_table
    ob = ctx.ob
    tc = ctx.tc
    obs = []
    # (1) the group prefix lists every accumulated sub-path: the loop runs over the list it was given and writes every element
    for f in tc.fns:
        if not f.body or f.module[:2] != ["proc_gen", "expr"]:
            continue
        lits = [p_[1] for n in sir.walk(f.body) for p_ in ((sir.write_fmt_call(n) or (None, []))[1]) if p_[0] == "lit"]
        lits += [n["v"] for n in sir.walk(f.body) if n.get("k") == "lit" and n.get("t") == "str"]
        if not any(l.startswith("!!") for l in lits):
            continue
        pn = [x for x in f.param_names() if x]
        gs = G.guards_of(f.body)
        loops = [n for n in sir.walk(f.body) if n.get("k") == "for" and any(x.get("k") == "mcall" and x["m"] == "to_path_analysis_str" for x in sir.walk(n["body"]))]
        if not loops:
            obs.append(ob("C06.runtime/group-prefix/complete", None, ctx.where(f), "no loop over the sub-paths in a form this rule reads"))
            continue
        probs = []
        if len(loops) > 1:
            probs.append("the sub-paths are rendered in %d loops (one of them filters what the other writes)" % len(loops))
        for lp in loops:
            root = sir.root_expr_name(lp["e"])
            if root not in pn:
                probs.append("the loop runs over `%s`, not over the list handed in" % sir.expr_str(lp["e"])[:40])
            if any(x.get("k") in ("continue", "break") for x in sir.walk(lp["body"], into_closures=False)):
                probs.append("an element can be skipped (`continue`/`break` in the loop)")
            inner = G.guards_of(lp["body"])
            for x in sir.walk(lp["body"]):
                if x.get("k") == "mcall" and x["m"] == "to_path_analysis_str":
                    cs = [sir.expr_str(subj)[:40] for kind, subj, pol in inner.get(id(x), []) if kind == "cond" and not re.fullmatch(r"\w+\s*(>|!=)\s*0", sir.expr_str(subj))]
                    if cs:
                        probs.append("an element is rendered only under %s" % cs[:2])
        obs.append(ob("C06.runtime/group-prefix/complete", not probs, ctx.where(f), "every accumulated sub-path is rendered into the prefix" if not probs else "; ".join(sorted(set(probs))),
                      witness=None if not probs else "fmt(user.name, user): marking user.age does not re-evaluate the binding"))
    # (2) per kind of path slice, the operator tokens of the update-tree expression are the reviewed ones
    pf = [f for f in tc.fns if f.name == "to_path_analysis_str" and f.base == "PathSliceList" and f.body]
    try:
        ref = _json.load(open(os.path.join(os.path.dirname(os.path.dirname(os.path.abspath(__file__))), "refs", "path_tree_tokens.json")))["arms"]
    except (OSError, ValueError, KeyError):
        ref = None
    if pf and ref:
        TOK = re.compile(r"[!=]==\w+\|\||!!|Q\.\w\(|Object\.assign|[A-Z]\(|undefined|\btrue\b|\?|:|\|\|")
        f = pf[0]
        seen = set()
        for a in sir.walk(f.body):
            if a.get("k") != "arm":
                continue
            vs = [v for v in sir.pat_variants(a["pat"]) if v in ref]
            if not vs:
                continue
            lits = []
            for n in sir.walk_reach(tc, f) if False else sir.walk(a["body"]):
                w = sir.write_fmt_call(n)
                pcs = w[1] if w else (sir.format_call(n) or [])
                lits += [p_[1] for p_ in pcs if p_[0] == "lit"]
                if n.get("k") == "lit" and n.get("t") == "str" and not w:
                    lits.append(n["v"])
            toks = sorted(set(t for l in lits for t in TOK.findall(l)))
            for v in vs:
                seen.add(v)
                okv = toks == ref[v]
                obs.append(ob("C06.runtime/tree-tokens/%s" % v, okv, ctx.where(f), "operator tokens %s" % toks if okv else "operator tokens %s; reviewed: %s" % (toks, ref[v]),
                              witness=None if okv else "wx:for=\"{{ [...a, b] }}\": a partial change below the spread operand is no longer seen"))
        for v in sorted(set(ref) - seen):
            obs.append(ob("C06.runtime/tree-tokens/%s" % v, None, ctx.where(f), "no arm for %s found in a form this rule reads" % v))
    # (3) the end-of-path helper records every path it is handed
    h = [f for f in tc.fns if f.name == "to_proc_gen_rec_and_end_path" and f.body]
    if h:
        f = h[0]
        gs = G.guards_of(f.body)
        pushes = [n for n in sir.walk(f.body) if n.get("k") == "mcall" and n["m"] == "push"]
        extra = []
        for p_ in pushes:
            for kind, subj, pol in gs.get(id(p_), []):
                t = sir.expr_str(subj) if kind == "cond" else subj[1]
                if kind == "pat" and "InPath" in t and pol:
                    continue
                extra.append(t[:50])
        ok = bool(pushes) and not extra
        obs.append(ob("C06.paths/end-path-helper/unconditional", ok, ctx.where(f), "every InPath state is pushed to the accumulator" if ok else "a path is recorded only under %s" % extra[:2],
                      witness=None if ok else "f([a, b]) is guarded by the callee alone: marking `a` does not re-evaluate it"))
    # (4) a conditional always yields a Condition slice that carries both branches (their sub-paths live there)
    model = ExprModel(tc)
    import prectables as pt
    g = pt.main_expression_fn(tc, model, "proc_gen")
    if g is not None:
        genf, gm, _n = g
        table = arm_table(gm, model)
        if "Cond" in table:
            arm, _c = table["Cond"][0]
            tail = arm["body"]
            while tail.get("k") == "block" and tail["stmts"]:
                last = tail["stmts"][-1]
                tail = last["e"] if last.get("k") == "expr" else last
            leaves = []

            def collect(e_):
                if e_.get("k") == "match":
                    for a_ in e_["arms"]:
                        b_ = a_["body"]
                        while b_.get("k") == "block" and b_["stmts"]:
                            l_ = b_["stmts"][-1]
                            b_ = l_["e"] if l_.get("k") == "expr" else l_
                        collect(b_)
                elif e_.get("k") == "if" and e_.get("else") is not None:
                    for br in (e_["then"], e_["else"]):
                        b_ = br
                        while b_.get("k") == "block" and b_["stmts"]:
                            l_ = b_["stmts"][-1]
                            b_ = l_["e"] if l_.get("k") == "expr" else l_
                        collect(b_)
                else:
                    leaves.append(e_)
            collect(tail)
            def has_condition(e_):
                return any((x.get("k") == "path" and x["segs"][-1] == "Condition") or (x.get("k") == "mac" and "Condition" in (x.get("raw") or "")) for x in sir.walk(e_))
            bad = [sir.expr_str(l_)[:50] for l_ in leaves if not has_condition(l_)]
            obs.append(ob("C06.paths/Cond/result", not bad and bool(leaves), ctx.where(genf), "a conditional always yields a Condition slice holding both branches" if not bad else "on some path the conditional yields %s: the sub-paths of its branches are discarded" % bad[:2],
                          witness=None if not bad else "a ? b + 1 : c + 1 is guarded by `a` alone"))
    return obs


def wave9_rules(ctx):
    """obligations added after the ninth wave of seeded changes"""
    from share import relabel
    ob = ctx.ob
    tc = ctx.tc
    obs = []
    # (1) sub-paths collected below an operand are never dropped: the result of a function that returns `(state, sub_paths)` keeps
    #     its second component, and a callee that appends to a sub-path list is given the caller's list (or a list used afterwards)
    pair_fns = set(f.name for f in tc.fns if f.body and f.module[:2] == ["proc_gen", "expr"] and f.ret and "PathAnalysisState" in f.ret and "Vec<PathSliceList>" in f.ret.replace(" ", ""))
    acc_fns = {}
    for f in tc.fns:
        if not f.body or f.module[:2] != ["proc_gen", "expr"]:
            continue
        for i, p_ in enumerate([q for q in f.params if not q.get("self")]):
            if "Vec<PathSliceList>" in (p_.get("ty") or "").replace(" ", "") and "&mut" in (p_.get("ty") or ""):
                acc_fns[f.name] = i
    k = 0
    for f in tc.fns:
        if not f.body or f.module[:2] != ["proc_gen", "expr"]:
            continue
        mentions = {}
        for n in sir.walk(f.body):
            if n.get("k") == "path" and len(n["segs"]) == 1:
                mentions[n["segs"][0]] = mentions.get(n["segs"][0], 0) + 1
        own_acc = [q.get("pat", {}).get("name") for q in f.params if not q.get("self") and "Vec<PathSliceList>" in (q.get("ty") or "").replace(" ", "")]
        passed = {}
        kept_n = [0]
        for n in sir.walk(f.body):
            if n.get("k") == "local" and n.get("init") is not None:
                c = n["init"]
                while c.get("k") in ("try", "paren"):
                    c = c["e"]
                nm = (sir.call_name(c) or "").split("::")[-1] if c.get("k") in ("call", "mcall") else None
                if nm in pair_fns and n["pat"].get("k") == "p_tuple" and len(n["pat"]["elems"]) == 2:
                    k += 1
                    e2 = n["pat"]["elems"][1]
                    kept = e2.get("k") == "p_ident" and mentions.get(e2["name"], 0) > 0
                    kept_n[0] += 1
                    obs.append(ob("C06.paths/sub-paths-kept/%s/#%d" % (f.qual, kept_n[0]), kept, ctx.where(f),
                                  "the sub-paths returned by `%s` are bound to `%s` and %s" % (nm, sir.pat_str(e2), "used" if kept else "dropped"),
                                  witness=None if kept else "{{ (a ? b : c) + 1 }}: the paths read by the condition are not part of the guard, a change of `a` is missed"))
            if n.get("k") in ("call", "mcall"):
                nm = (sir.call_name(n) or "").split("::")[-1]
                if nm in acc_fns and len(n["args"]) > acc_fns[nm]:
                    a = sir.strip_ref(n["args"][acc_fns[nm]])
                    k += 1
                    if a.get("k") == "path" and len(a["segs"]) == 1:
                        v = a["segs"][0]
                        good = v in own_acc or mentions.get(v, 0) >= 2
                        d = "`%s` is given the list `%s` (%s)" % (nm, v, "the caller's own list" if v in own_acc else "a local list with %d uses" % mentions.get(v, 0))
                    else:
                        good = False
                        d = "`%s` is given the temporary `%s`: what it collects is dropped" % (nm, sir.expr_str(a)[:40])
                    passed.setdefault(nm, []).append((good, d))
        for nm, rs in sorted(passed.items()):
            bad = [d for g_, d in rs if not g_]
            obs.append(ob("C06.paths/sub-paths-passed/%s/%s" % (f.qual, nm), not bad, ctx.where(f), "%d calls: %s" % (len(rs), (bad or [rs[0][1]])[0]),
                          witness=None if not bad else "{{ (a ? b : c) + 1 }}: the paths read by the condition are not part of the guard"))
    if k < 20:
        obs.append(ob("C06.floor/sub-path-sites", False, "proc_gen/expr.rs", "only %d sub-path hand-overs found (floor 20)" % k))
    # (1b) a list of collected sub-paths only grows: nothing empties or shortens it between collection and the guard
    shrunk = []
    for f in tc.fns:
        if not f.body or f.module[:2] != ["proc_gen", "expr"]:
            continue
        lists = set(q.get("pat", {}).get("name") for q in f.params if not q.get("self") and "Vec<PathSliceList>" in (q.get("ty") or "").replace(" ", ""))
        for n in sir.walk(f.body):
            if n.get("k") == "local" and n["pat"].get("k") == "p_ident" and n.get("init") is not None and (n["init"].get("k") == "mac" and n["init"].get("name") == "vec" or sir.expr_str(n["init"]).replace(" ", "").endswith(("Vec::new()", "vec![]"))) \
                    and any(x.get("k") in ("call", "mcall") and (sir.call_name(x) or "").split("::")[-1] in acc_fns and any(sir.expr_str(sir.strip_ref(a)) == n["pat"]["name"] for a in x["args"]) for x in sir.walk(f.body)):
                lists.add(n["pat"]["name"])
        for n in sir.walk(f.body, into_closures=True):
            if n.get("k") == "mcall" and n["m"] in ("clear", "truncate", "pop", "drain", "retain", "remove", "swap_remove", "split_off", "dedup") and sir.expr_str(sir.strip_ref(n["recv"])) in lists:
                shrunk.append("%s calls `%s.%s()`" % (f.name, sir.expr_str(sir.strip_ref(n["recv"])), n["m"]))
            if n.get("k") == "assign" and sir.expr_str(n["l"]).lstrip("*") in lists:
                shrunk.append("%s re-assigns `%s`" % (f.name, sir.expr_str(n["l"])))
    obs.append(ob("C06.paths/sub-paths-grow-only", not shrunk, "proc_gen/expr.rs", "; ".join(shrunk[:2]) if shrunk else "the sub-path lists are only appended to",
                  witness=None if not shrunk else "{{ list[idx] }}: the guard loses `U.idx`, a change of the index alone updates nothing"))
    # (2) an array literal's path entry is positional: every kind of element, holes included, contributes one entry
    k = 0
    for f in tc.fns:
        if not f.body or f.module[:2] != ["proc_gen", "expr"]:
            continue
        for lp in sir.walk(f.body):
            if lp.get("k") != "for":
                continue
            for m in sir.walk(lp["body"]):
                if m.get("k") != "match":
                    continue
                vs = [sir.pat_str(a["pat"]) for a in m["arms"]]
                if not vs or not all(v.startswith("ArrayFieldKind::") for v in vs):
                    continue
                helpers = set(x["pat"]["name"] for x in sir.walk(f.body) if x.get("k") == "local" and x.get("init") is not None and x["init"].get("k") == "closure" and x["pat"].get("k") == "p_ident"
                              and any(y.get("k") == "mcall" and y["m"] == "push" for y in sir.walk(x["init"])))
                if not any(y.get("k") == "mcall" and y["m"] == "push" for y in sir.walk(lp["body"])) and not helpers:
                    continue
                # the match may also yield the entry, which the loop body pushes after it (`let item = match .. ; list.push(item)`)
                yielded = None
                for l_ in sir.walk(lp["body"]):
                    if l_.get("k") == "local" and l_.get("init") is m and l_["pat"].get("k") == "p_ident":
                        nm_ = l_["pat"]["name"]
                        if any(y.get("k") == "mcall" and y["m"] == "push" and y["args"] and sir.expr_str(sir.strip_ref(y["args"][0])) == nm_ for y in sir.walk(lp["body"])):
                            yielded = nm_
                for a in m["arms"]:
                    v = sir.pat_str(a["pat"]).split("{")[0].split("(")[0].strip()
                    pushes = any(y.get("k") == "mcall" and y["m"] == "push" for y in sir.walk(a["body"]))
                    if not pushes and yielded is not None and not any(y.get("k") in ("continue", "break", "return") for y in sir.walk(a["body"])):
                        pushes = True
                    via = any(y.get("k") == "call" and (sir.call_name(y) or "") in helpers for y in sir.walk(a["body"]))
                    other = [sir.call_name(y) for y in sir.walk(a["body"]) if y.get("k") in ("call", "mcall") and not sir.write_fmt_call(y)
                             and (sir.call_name(y) or "").split("::")[-1] not in ("len", "write_fmt", "write_str", "push_str", "format_args", "new_const", "new_v1", "new")]
                    k += 1
                    verdict = True if (pushes or via) else (None if other else False)
                    obs.append(ob("C06.paths/array-positions/%s" % v, verdict, ctx.where(f),
                                  "the arm for %s %s" % (v, "adds an entry to the positional list" if verdict else ("adds no entry" if verdict is False else "calls %s: not decided" % other[:3])),
                                  witness=None if verdict is not False else "{{ [ , b] }}: `b` sits at index 1 of the value but at index 0 of the path list, a change of `b` updates nothing"))
    if k < 3:
        obs.append(ob("C06.floor/array-positions", False, "proc_gen/expr.rs", "only %d element kinds of an array literal found (floor 3)" % k))
    # (2b) whether a sub-tree wrote anything is asked before its buffer is pasted: a buffer handed to the tree printer of a
    #      PathAnalysisState (which writes nothing for NotInPath and says so in its result) is only pasted where that result
    #      is known to be positive
    import guards as G2
    n_b, bad_b = 0, []
    for f in tc.fns:
        if not f.body or f.module[:2] != ["proc_gen", "expr"]:
            continue
        gs = None
        for blk in sir.walk(f.body):
            if blk.get("k") != "block":
                continue
            for i_, st in enumerate(blk["stmts"]):
                c = st.get("init") if st.get("k") == "local" else (st.get("e") if st.get("k") == "expr" else None)
                res_name = st["pat"].get("name") if st.get("k") == "local" and st["pat"].get("k") == "p_ident" else None
                while c is not None and c.get("k") == "try":
                    c = c["e"]
                if not (c is not None and c.get("k") == "mcall" and c["m"] == "to_path_analysis_str" and len(c["args"]) == 4):
                    continue
                a1 = c["args"][1]
                if not (a1.get("k") == "ref" and a1.get("mut") and a1["e"].get("k") == "path" and len(a1["e"]["segs"]) == 1):
                    continue
                buf = a1["e"]["segs"][0]
                if buf in [x for x in f.param_names() if x]:
                    continue   # written straight into the caller's text: the caller asks
                gs = gs or G2.guards_of(f.body)
                for later in blk["stmts"][i_ + 1:]:
                    for w_ in sir.walk(later):
                        wf = sir.write_fmt_call(w_)
                        if not wf or not any(p_[0] == "hole" and isinstance(p_[1], dict) and sir.expr_str(sir.strip_ref(p_[1])) == buf for p_ in wf[1]):
                            continue
                        n_b += 1
                        asked = res_name is not None and any(res_name in (sir.expr_str(sj) if kd == "cond" else sir.expr_str(sj[0])) for kd, sj, pl in gs.get(id(w_), []))
                        if not asked:
                            bad_b.append("%s pastes `%s` without asking whether anything was written into it" % (f.name, buf))
    obs.append(ob("C06.runtime/tree-tokens/written-asked", False if bad_b else True if n_b >= 3 else None, "proc_gen/expr.rs", "; ".join(sorted(set(bad_b))[:2]) if bad_b else "%d pasted sub-tree buffers, each under a test of the printer's result" % n_b,
                  witness=None if not bad_b else "{{ [...list, 0] }} emits `()!==undefined||`: a syntax error"))
    # (3) dynamic-include bookkeeping and the value visit of the analysis pass decide which bindings are recorded at all
    #     (shared with C07.dynamic / C07.values)
    from rules.c07 import dynamic_rule, values_rule
    obs += relabel(dynamic_rule(ctx), "C07.dynamic/counter", "C06.fastpath/dynamic/counter")
    obs += relabel(values_rule(ctx), "C07.values", "C06.fastpath/values")
    # wave 10: an include anywhere below the root switches the whole binding map off (shared with C07.dynamic/include-anywhere)
    from rules.c07 import wave8_rules as c07_w8
    obs += relabel(c07_w8(ctx), "C07.dynamic/include-anywhere", "C06.fastpath/dynamic/include-anywhere")
    # wave 11: an updater of the binding map prepares its expression inside the updater (shared with C07.emit/fresh)
    from rules.c07 import emit_rule as c07_emit
    obs += relabel(c07_emit(ctx), "C07.emit/fresh", "C06.fastpath/fresh")
    return obs


def wave13_rules(ctx):
    """(1) C06.paths/LitArr/positional - the update path of an array literal is `CombineArr(positional, after_spread)`: the first list is
    indexed by element position at run time (`Z(Q.a([..]), i)`), so it may only receive the elements in front of the first spread; once a
    spread has been seen every further element (and hole) belongs to the second list, whose entries are or-ed together."""
    import guards
    ob = ctx.ob
    tc = ctx.tc
    obs = []
    found = False
    for f in tc.fns:
        if not f.body or "proc_gen" not in f.module:
            continue
        ctor = [n for n in sir.walk(f.body) if n.get("k") == "call" and (sir.call_path(n) or "").endswith("PathSlice::CombineArr") and len(n["args"]) == 2]
        if not ctor:
            continue
        for c in ctor:
            a, b = (sir.strip_ref(x) for x in c["args"])
            if not (a.get("k") == "path" and b.get("k") == "path" and len(a["segs"]) == 1 and len(b["segs"]) == 1):
                obs.append(ob("C06.paths/LitArr/positional", None, ctx.where(f), "the two lists of `CombineArr` are not plain locals: not decided"))
                found = True
                continue
            A, B = a["segs"][0], b["segs"][0]
            found = True
            gs = guards.guards_of(f.body)
            bad, good = [], 0
            aliases = {}
            # the lists live in the match arm (or block) that builds the slice: another arm may use the same names for other lists
            pm = sir.parent_map(f.body)
            scope = c
            while id(scope) in pm:
                scope = pm[id(scope)]
                if scope.get("k") == "block" and any(st.get("k") == "local" and st["pat"].get("k") == "p_ident" and st["pat"].get("name") == A for st in scope["stmts"]):
                    break
            for n in sir.walk(scope):
                if n.get("k") == "local" and n.get("init") is not None and n["pat"].get("k") == "p_ident" and n["init"].get("k") == "if" and n["init"].get("else") is not None:
                    def tail(blk):
                        e = blk
                        while e.get("k") == "block" and e["stmts"]:
                            last = e["stmts"][-1]
                            e = last.get("e") if last.get("k") == "expr" else last
                        return sir.expr_str(sir.strip_ref(e)) if isinstance(e, dict) else None
                    t_, e_ = tail(n["init"]["then"]), tail(n["init"]["else"])
                    if {t_, e_} == {A, B}:
                        aliases[n["pat"]["name"]] = (n["init"]["cond"], t_, e_)
            for n in sir.walk(scope):
                if not (n.get("k") == "mcall" and n["m"] == "push"):
                    continue
                r = sir.expr_str(sir.strip_ref(n["recv"]))
                if r == A:
                    # a direct push into the positional list must be dominated by "no spread so far"
                    okg = False
                    for g in gs.get(id(n), []):
                        if g[0] == "cond":
                            et = sir.emptiness_test(g[1])
                            if et and et[0] == B and (et[1] != g[2]):   # holds iff B is empty
                                okg = True
                    if okg:
                        good += 1
                    else:
                        bad.append("`%s.push(..)` at expanded line %d is not under `%s` being empty" % (A, sir.line_of(n), B))
                elif r in aliases:
                    cond, t_, e_ = aliases[r]
                    et = sir.emptiness_test(cond)
                    if et is None or et[0] != B:
                        bad.append("the list `%s` is chosen by `%s`, which is not a test of `%s`" % (r, sir.expr_str(cond)[:60], B))
                    else:
                        nonempty_branch = t_ if et[1] else e_
                        if nonempty_branch == B:
                            good += 1
                        else:
                            bad.append("`%s` is the positional list `%s` although `%s` is non-empty" % (r, A, B))
            verdict = False if bad else (True if good >= 1 else None)
            obs.append(ob("C06.paths/LitArr/positional", verdict, ctx.where(f),
                          ("%d push(es) into the positional list `%s`, each only while the spread list `%s` is still empty" % (good, A, B)) if verdict else
                          "; ".join(bad[:3]) if bad else "no push into `%s` found in a form this rule reads" % A,
                          witness=None if verdict is not False else "`[...y, z][i]`: updating only `z` indexes a positional list that is shifted by the length of `y` - the node stays stale"))
    if not found:
        obs.append(ob("C06.paths/LitArr/positional", False, "proc_gen/expr.rs", "the path slice `CombineArr(positional, after_spread)` is not constructed anywhere in the generator"))
    return obs



def run(ctx):
    obs = runtime_rule(ctx)
    obs += guard_rule(ctx)
    obs += paths_rule(ctx)
    obs += scopes_rule(ctx)
    obs += dropped_text_rule(ctx)
    obs += tuple_partner_rule(ctx)
    obs += wave8_rules(ctx)
    obs += wave9_rules(ctx)
    obs += wave13_rules(ctx)
    # the update entry uses the binding map whenever a field is advertised: what disables a field is part of update soundness
    from rules.c07 import collector_rule
    for x in collector_rule(ctx):
        x = dict(x)
        x["key"] = x["key"].replace("C07.collector", "C06.fastpath/collector").replace("C07.", "C06.fastpath/")
        obs.append(x)
    return obs
