"""C18 - @import is replaced by a faithful placeholder (structural half)."""
from rules import csspacks as cp

RULE = 'C18.ser: string tokens (and every token kind except integer numerics) are serialised by cssparser to_css, so a passed-through path keeps its value. C18.pair/every-exit-drains: every exit of the import rewriter after a wrapper was opened is directly preceded by a loop closing all open wrappers. C18.encode: the placeholder comment is `<sign> <percent-encoded path>` built from the decoded string token (so `*/` cannot occur). C18.wrap: layer()/supports() become the at-rule of the same name, media conditions @media. C18.pair: every wrapper block opened is pushed on the close stack, the stack is drained after the comment, and a failing exit closes what it opened (C08.txn). C18.position: imports after other rules are flagged; without a sign @import passes through.'
EXPLANATION = ("The token-dispatch loops of the stylesheet compiler are located by role in the expanded syntax tree and their arms, "
               "flags and field writers (MIR) are checked against the rule; no stylesheet is ever transformed.")
ASSUMPTIONS = ["cssparser tokenises and serialises per CSS Syntax 3", "refs/css_refs.json lists rule-bearing at-rules and math functions correctly",
               "token-stream equality of concrete outputs is not decided"]


def run(ctx):
    obs, ok = cp.anchors(ctx, 'C18')
    if not ok:
        return obs
    obs += cp.import_rules(ctx, 'C18')
    obs += cp.txn_rule(ctx, 'C18')
    obs += [o for o in cp.int_rule(ctx, 'C18', writer_only=True) if '.ser/' in o['key']]
    # wave 10: functions in an at-rule prelude are copied by the selector-aware routine (shared with C08.ctx), and a condition
    # function is recognised by the spelling its dispatch knows (shared with C01: the other spellings reach unreachable!())
    obs += [o for o in cp.ctx_rule(ctx, 'C18') if '/at-prelude/' in o['key']]
    from rules.c01 import unreachable_dispatch_rule
    obs += unreachable_dispatch_rule(ctx, "C18.wrap/functions/dispatch-guard")
    # wave 11: the low-priority flag is back to "normal output" whenever a :host rule is done, whatever the at-rule stack holds -
    # or the next @import writes its placeholder into the wrong output (shared with C17.pair)
    obs += [o for o in cp.host_rules(ctx, 'C18') if '.pair/low-priority' in o['key']]
    # an @import inside a rule-bearing at-rule is rewritten like one at the top: the rule-list parser runs whenever the table
    # says so, at any depth (shared with C08.rules)
    obs += [o for o in cp.rules_rule(ctx, 'C18') if '/table-only' in o['key'] or '/dispatch' in o['key']]
    return obs
