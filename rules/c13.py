"""C13 - cross-file references resolve by normalised path and are reported (structural half)."""
import re
import sir

RULE = ("C13.same: every use of an import/include/script `src` - dependency queries, the import table, R[..] loaders, script l-value "
        "descriptors and G[..] includes - is the result of path::resolve(<referring template path>, <src>.name); no other function "
        "touches a src name in the generator; the loader and the l-value descriptor of one script use the same resolved path; cur_path "
        "is only ever the referring template's own path. C13.suffix: `.wxml` is stripped from import/include sources and `.wxs` from "
        "script sources, exactly once (strip_suffix). C13.algo: resolve/normalize drop exactly `.`, pop on `..`, push everything else; "
        "a leading `/` discards the base; the base's last segment is dropped once. C13.lazy: G[..] is looked up only inside functions "
        "run at render time; all R[..]= definitions precede the first template; the import table is `Object.assign({}, imports in "
        "source order.., H)` with every import written (no skipping, no reordering).")
EXPLANATION = ("Which resolver produces every cross-file key, the suffix table, the shape of the path algorithm and the order of the "
               "emitted link table are decided from the syntax tree; the path algebra itself is not evaluated on concrete pairs.")
ASSUMPTIONS = ["the JS require() resolver embedded in WXS_RUNTIME is not compared with the Rust one (value level)", "templates are registered under the path given to add_tmpl"]


def same_rule(ctx):
    ob = ctx.ob
    tc = ctx.tc
    obs = []
    sites = []
    for f in tc.fns:
        if not f.body:
            continue
        for n in sir.walk(f.body):
            if n.get("k") == "call" and (sir.call_path(n) or "").endswith("path::resolve"):
                sites.append((f, n))
    for i, (f, n) in enumerate(sites):
        a0 = sir.expr_str(n["args"][0]).replace(" ", "") if n["args"] else ""
        a1 = sir.expr_str(n["args"][1]).replace(" ", "") if len(n["args"]) > 1 else ""
        ok0 = a0 in ("&self.path", "cur_path", "&cur_path")
        ok1 = re.fullmatch(r"&\w+(\.src)?\.name", a1) is not None
        obs.append(ob("C13.same/resolve/%s#%d" % (f.qual, i + 1), ok0 and ok1, ctx.where(f), "path::resolve(%s, %s): base is the referring template's path: %s; target is the src name: %s" % (a0, a1, ok0, ok1)))
    if len(sites) < 3:
        obs.append(ob("C13.floor/resolve-sites", False, "parse/tag.rs, proc_gen/tag.rs", "only %d resolve() call sites found (floor 3: the dependency queries and the generator; 7 on the reviewed tree, fewer when shared through a helper)" % len(sites)))
    # no other consumer of a src name outside the parser (printer excluded: it prints the spelling)
    for f in tc.fns:
        if not f.body or "stringify" in f.module or (f.trait and f.trait.split("::")[-1] in ("Clone", "Debug")):
            continue
        if f.base == "Element" and f.name == "parse":
            continue
        pm = None
        for n in sir.walk(f.body):
            if n.get("k") == "field" and n["name"] == "name":
                b = sir.expr_str(n["base"])
                if not (b.endswith(".src") or b in ("src", "rel_path") or b.endswith("path.1")):
                    continue
                pm = pm or sir.parent_map(f.body)
                p = n
                inside = False
                hops = 0
                while id(p) in pm and hops < 4:
                    p = pm[id(p)]
                    hops += 1
                    if p.get("k") == "call" and (sir.call_path(p) or "").endswith("path::resolve"):
                        inside = True
                if inside:
                    continue
                # benign uses: emptiness tests in the parser
                par = pm.get(id(n))
                if par is not None and par.get("k") == "mcall" and par["m"] in ("is_empty", "len"):
                    continue
                obs.append(ob("C13.same/foreign-use/%s/%s" % (f.qual, b), False, ctx.where(f), "`%s.name` is used outside path::resolve (%s): a key that is not resolved against the referring template" % (b, sir.expr_str(par)[:80] if par else "?"),
                              witness='<wxs module="m" src="./util"/> in p/a with bind:tap="{{m.f}}": the listener descriptor names `util` while the module is loaded from `p/util`'))
    obs.append(ob("C13.same/foreign-use/scan", True, "proc_gen/*, parse/tag.rs", "all uses of src names outside the parser go through path::resolve"))
    # script: loader and descriptor use the same variable
    tg = [f for f in tc.fns if f.base == "Template" and f.name == "to_proc_gen" and f.body]
    if tg:
        f = tg[0]
        arm = None
        for n in sir.walk(f.body):
            if n.get("k") == "arm" and "GlobalRef" in sir.pat_variants(n["pat"]):
                arm = n
        ok = False
        d = "GlobalRef arm not found"
        if arm:
            locs = [n for n in sir.walk(arm["body"]) if n.get("k") == "local" and n.get("init") is not None and "path::resolve" in sir.expr_str(n["init"])]
            if len(locs) == 1:
                v = locs[0]["pat"].get("name")
                loader = any(sir.write_fmt_call(n) and any(p[0] == "hole" and v in sir.expr_str(p[1]) for p in sir.write_fmt_call(n)[1]) and any(p[0] == "lit" and "R[" in p[1] for p in sir.write_fmt_call(n)[1]) for n in sir.walk(arm["body"]))
                desc = any(n.get("k") == "struct" and n["path"].endswith("ScopeVarLvaluePath::Script") and any(fl["name"] == "abs_path" and sir.expr_str(fl["e"]) == v for fl in n["fields"]) for n in sir.walk(arm["body"]))
                ok = loader and desc
                d = "one resolved path `%s` feeds the R[..]() loader (%s) and the script l-value descriptor (%s)" % (v, loader, desc)
            else:
                d = "%d resolve() calls in the GlobalRef arm" % len(locs)
        obs.append(ob("C13.same/script-descriptor", ok, ctx.where(f), d))
        # inline scripts: descriptor path is the template's own path
        ok2 = any(n.get("k") == "struct" and n["path"].endswith("ScopeVarLvaluePath::InlineScript") and any(fl["name"] == "path" and sir.expr_str(fl["e"]).replace(" ", "") == "self.path.clone()" for fl in n["fields"]) for n in sir.walk(f.body))
        obs.append(ob("C13.same/inline-descriptor", ok2, ctx.where(f), "inline script descriptors carry the defining template's path: %s" % ok2))
    # cur_path is always the template's own path
    calls = []
    for f in tc.fns:
        if not f.body or "proc_gen" not in f.module:
            continue
        for n in sir.walk(f.body):
            if n.get("k") in ("call", "mcall") and sir.call_name(n) in ("to_proc_gen_define_children_content", "to_proc_gen_define_children_content_inner", "to_proc_gen") and n["args"]:
                last = sir.expr_str(n["args"][-1]).replace(" ", "")
                if sir.call_name(n) == "to_proc_gen" and len(n["args"]) < 5:
                    continue
                calls.append((f, last))
    bad = [(f.qual, a) for f, a in calls if a not in ("cur_path", "&self.path")]
    obs.append(ob("C13.same/cur_path", bool(calls) and not bad, "proc_gen/tag.rs", "cur_path is threaded unchanged from `&self.path` through %d calls" % len(calls) if not bad else "cur_path is replaced: %s" % bad))
    return obs


def suffix_rule(ctx):
    ob = ctx.ob
    tc = ctx.tc
    ep = [f for f in tc.fns if f.base == "Element" and f.name == "parse" and f.body]
    if not ep:
        return [ob("C13.suffix/anchor", False, "parse/tag.rs", "Element::parse not found")]
    f = ep[0]
    obs = []
    table = {}
    # the match that maps the kind of external tag to its suffix, wherever it is written (a local, or directly the argument of Src(..))
    for n in sir.walk(f.node, into_items=True):
        if n.get("k") == "match" and all(a["body"].get("k") == "lit" and a["body"].get("t") == "str" and a["body"]["v"].startswith(".") for a in n["arms"]) and len(n["arms"]) >= 2:
            for a in n["arms"]:
                for v in sir.pat_variants(a["pat"]):
                    table[v] = a["body"]["v"]
    want = {"Include": ".wxml", "Import": ".wxml", "Script": ".wxs"}
    obs.append(ob("C13.suffix/table", table == want, ctx.where(f), "suffix per external tag kind: %s" % table))
    tk = {}
    for n in sir.walk(f.node, into_items=True):
        if n.get("k") == "local" and n["pat"].get("name") == "external_tag_type" and n.get("init") is not None and n["init"].get("k") == "match":
            for a in n["init"]["arms"]:
                p = a["pat"]
                key = p["e"]["v"] if p.get("k") == "p_lit" else "_"
                tk[key] = a["body"]["segs"][-1] if a["body"].get("k") == "path" else "?"
    obs.append(ob("C13.suffix/tag-kinds", tk == {"import": "Import", "wxs": "Script", "_": "Include"}, ctx.where(f), "tag name -> external kind: %s" % tk))
    strip = [n for n in sir.walk(f.node, into_items=True) if n.get("k") == "mcall" and n["m"] in ("strip_suffix", "trim_end_matches", "trim_end", "replace", "trim_matches", "rsplit_once") and n["args"] and sir.expr_str(n["args"][0]) == "suffix"]
    ok = len(strip) == 1 and strip[0]["m"] == "strip_suffix"
    fb = False
    if ok:
        pm = sir.parent_map(f.node)
        p = pm.get(id(strip[0]))
        fb = p is not None and p.get("k") == "mcall" and p["m"] == "unwrap_or" and "s.name" in sir.expr_str(p["args"][0])
    obs.append(ob("C13.suffix/strip-once", ok and fb, ctx.where(f), "the suffix is removed with %s (exactly one occurrence; the name is kept as is when it does not end with it: %s)" % ([s["m"] for s in strip], fb),
                  witness=None if ok and fb else 'src="page.wxml.wxml" collapses to `page` and links a sibling file'))
    return obs


def algo_rule(ctx):
    """the resolver cuts at `/` only, drops `.`, pops on `..`, keeps every other segment (empty ones included), drops the referring
    file's own name once, and discards the base for absolute paths.  Read through private helpers and guards, so that
    extracting the segment walk or spelling the absolute test differently does not matter."""
    import guards as gd
    ob = ctx.ob
    tc = ctx.tc
    obs = []
    for name in ("resolve", "normalize"):
        fs = [f for f in tc.fns if f.name == name and "path" in f.module and f.body]
        if len(fs) != 1:
            obs.append(ob("C13.algo/%s" % name, False, "path.rs", "%s not found" % name))
            continue
        f = fs[0]
        nodes = list(sir.walk_reach(tc, f, 2))
        ms = [n for n in nodes if n.get("k") == "match" and any(a["pat"].get("k") == "p_lit" for a in n["arms"])]
        okall = len(ms) >= 1
        details = []
        for m in ms:
            t = {}
            for a in m["arms"]:
                cases = a["pat"]["cases"] if a["pat"].get("k") == "p_or" else [a["pat"]]
                for c in cases:
                    key = c["e"]["v"] if c.get("k") == "p_lit" else "_"
                    acts = [x["m"] for x in sir.walk(a["body"]) if x.get("k") == "mcall"]
                    t[key] = acts
            details.append(t)
            if t != {".": [], "..": ["pop"], "_": ["push"]}:
                okall = False
        splits = [n for n in nodes if n.get("k") == "mcall" and n["m"] in ("split", "split_terminator", "rsplit", "split_inclusive", "splitn")]
        oksep = bool(splits) and all(n["m"] == "split" and len(n["args"]) == 1 and n["args"][0].get("k") == "lit" and n["args"][0].get("v") == "/" for n in splits)
        obs.append(ob("C13.algo/%s/separator" % name, oksep, ctx.where(f), "paths are cut at `/` and only there (%d split calls): %s" % (len(splits), oksep),
                      witness=None if oksep else 'a backslash in a src is rewritten to `/`: the link no longer names the file that was registered'))
        # every cut list goes through the segment walk: none is appended wholesale (`slices.extend(base.split('/'))` keeps `.`
        # and `..` of the referring path, which need not be in normal form: only the wasm bindings normalise what they are given)
        bypass = []
        pm_ = {}
        for g_ in sir.reach(tc, f, 2):
            if g_.body:
                pm_.update(sir.parent_map(g_.body))
        for sp_ in splits:
            up = pm_.get(id(sp_))
            while up is not None and up.get("k") in ("ref", "paren", "mcall") and up.get("k") != "for" and not (up.get("k") == "mcall" and up["m"] in ("extend", "collect", "append", "extend_from_slice")):
                if up.get("k") == "mcall" and up["m"] not in ("iter", "into_iter", "peekable", "by_ref"):
                    break
                up = pm_.get(id(up))
            if up is not None and up.get("k") == "mcall" and up["m"] in ("extend", "collect", "append", "extend_from_slice"):
                bypass.append(sir.expr_str(up)[:60])
        if bypass:
            okall = False
            details.append({"appended without the walk": bypass})
        obs.append(ob("C13.algo/%s/segments" % name, okall, ctx.where(f), "segment handling %s (expected `.` dropped, `..` pops, anything else - including empty segments - pushed)" % details,
                      witness=None if okall else 'src="d//t" links `p/d/t` instead of the registered `p/d//t`'))
        if name == "resolve":
            G = gd.guards_of(f.body)

            def absolute_state(gs):
                """True = rel is known to start with '/', False = known not to, None = unknown"""
                st = None
                for kind, subj, pol in gs:
                    if kind == "cond" and subj.get("k") == "mcall" and subj["m"] == "starts_with" and "rel" in sir.expr_str(subj["recv"]) and subj["args"] and subj["args"][0].get("v") == "/":
                        st = pol
                    if kind == "pat" and "strip_prefix" in sir.expr_str(subj[0]) and "rel" in sir.expr_str(subj[0]):
                        if subj[1].startswith("Some"):
                            st = pol
                        elif subj[1].startswith("None"):
                            st = not pol
                return st
            # every use of the base path happens only when the target is relative
            base_uses = [n for n in sir.walk(f.body) if n.get("k") == "path" and n.get("s") == "base"]
            ok_base = bool(base_uses) and all(absolute_state(G.get(id(n), [])) is False for n in base_uses)
            # the absolute form drops exactly the leading `/`
            drops = any(n.get("k") == "index" and sir.expr_str(n).replace(" ", "") == "rel[1..]" and absolute_state(G.get(id(n), [])) is True for n in sir.walk(f.body)) \
                or any(n.get("k") == "mcall" and n["m"] == "strip_prefix" and n["args"] and n["args"][0].get("v") == "/" and "rel" in sir.expr_str(n["recv"]) for n in sir.walk(f.body))
            obs.append(ob("C13.algo/resolve/absolute", bool(ok_base and drops), ctx.where(f), "a leading `/` discards the base (the base is only walked when the target is relative: %s) and is itself dropped: %s" % (ok_base, drops)))
            # pop of the base's file name: one unconditional top-level `slices.pop();` before the target segments are applied
            top = f.body["stmts"]
            pops = [i for i, st in enumerate(top) if st.get("k") == "expr" and sir.expr_str(st["e"]) == "slices.pop()"]
            later = [i for i, st in enumerate(top) if st.get("k") == "expr" and i > (pops[0] if pops else -1) and (st["e"].get("k") == "for" or (st["e"].get("k") == "call" and any(sir.expr_str(sir.strip_ref(a)) == "main" for a in st["e"]["args"])))]
            ok = len(pops) == 1 and bool(later)
            obs.append(ob("C13.algo/resolve/dirname", bool(ok), ctx.where(f), "the referring file's own name is dropped once before the target segments are applied: %s" % bool(ok)))
            j = [n for n in sir.walk(f.body) if n.get("k") == "mcall" and n["m"] == "join" and n["args"] and n["args"][0].get("v") == "/"]
            obs.append(ob("C13.algo/resolve/join", len(j) == 1, ctx.where(f), "segments are joined with `/`: %s" % (len(j) == 1)))
    return obs


def lazy_rule(ctx):
    ob = ctx.ob
    tc = ctx.tc
    obs = []
    tg = [f for f in tc.fns if f.base == "Template" and f.name == "to_proc_gen" and f.body]
    if tg:
        f = tg[0]
        # import table: the loop that writes one `(G[..]||{})._` operand per import; what it runs over is followed through a local
        # (`let keys: Vec<_> = self.globals.imports.iter().map(..).collect()`)
        def frag_of(x):
            w_ = sir.write_fmt_call(x)
            return "".join(p[1] if p[0] == "lit" else "{}" for p in w_[1]) if w_ else None
        lp = [n for n in sir.walk(f.body) if n.get("k") == "for" and any("(G[" in (frag_of(x) or "") for x in sir.walk(n["body"]))]
        ok = None
        d = "import loop not found in a form this rule reads"
        if len(lp) == 1:
            l = lp[0]
            src = sir.strip_ref(l["e"])
            hops = 0
            chain = []
            while hops < 6:
                hops += 1
                if src.get("k") == "mcall":
                    chain.append(src["m"])
                    src = sir.strip_ref(src["recv"])
                    continue
                if src.get("k") == "path" and len(src["segs"]) == 1:
                    inits = [x["init"] for x in sir.walk(f.body) if x.get("k") == "local" and x["pat"].get("name") == src["segs"][0] and x.get("init") is not None]
                    if len(inits) == 1:
                        src = sir.strip_ref(inits[0])
                        continue
                break
            root = sir.expr_str(src).replace(" ", "")
            plain = root == "self.globals.imports" and not [m_ for m_ in chain if m_ not in ("iter", "map", "collect", "cloned", "into_iter", "as_slice", "to_vec", "clone")]
            body_stmts = l["body"]["stmts"]
            skipping = any(x.get("k") in ("if", "continue", "match") for st in body_stmts for x in sir.walk(st) if x.get("k") in ("if", "continue", "match"))
            frag = [frag_of(x) for x in sir.walk(l["body"]) if frag_of(x)]
            ok = plain and not skipping and frag == [",(G[{}]||{})._"]
            d = "imports iterated as `%s%s`, skipping/reordering: %s, fragment %s" % (root, "".join("." + m_ + "()" for m_ in reversed(chain)), skipping, frag)
            # surrounding: Object.assign({} ... ,H)
            pm = sir.parent_map(f.body)
            blk = pm.get(id(l))
            while blk is not None and blk.get("k") != "block":
                blk = pm.get(id(blk))
            lits = [frag_of(x) for st in (blk["stmts"] if blk else []) for x in sir.walk(st) if frag_of(x)]
            ok = bool(ok and lits and lits[0].startswith("if(!S)S=Object.assign({}") and lits[-1] == ",H)")
            d += "; table is %s ... %s" % (lits[:1], lits[-1:])
        obs.append(ob("C13.lazy/import-table", ok, ctx.where(f), d, witness=None if ok else "import x; import y; import x : the middle import wins for a template name defined in both"))
        # the table is built inside the function I (lazily, at first lookup)
        fa = [n for n in sir.walk(f.body) if n.get("k") == "mcall" and n["m"] == "function_args" and n["args"] and n["args"][0].get("v") == "P"]
        inside = bool(fa) and bool(lp) and any(x is lp[0] for x in sir.walk(fa[0]))
        obs.append(ob("C13.lazy/import-lookup", inside, ctx.where(f), "G[..] of imports is read inside I(P), i.e. when a template is first looked up, not when the file is defined: %s" % inside))
    ef = [f for f in tc.fns if f.base == "Element" and f.name == "to_proc_gen" and f.body]
    if ef:
        f = ef[0]
        arm = None
        for n in sir.walk(f.body):
            if n.get("k") == "arm" and "Include" in sir.pat_variants(n["pat"]) and "path" in sir.pat_str(n["pat"]):
                arm = n
        ok = False
        if arm:
            fa = [n for n in sir.walk(arm["body"]) if n.get("k") == "mcall" and n["m"] == "function_args"]
            g = [n for n in sir.walk(arm["body"]) if sir.write_fmt_call(n) and any(p[0] == "lit" and "G[" in p[1] for p in sir.write_fmt_call(n)[1])]
            ok = bool(fa) and bool(g) and all(any(x is gg for x in sir.walk(fa[0])) for gg in g)
        obs.append(ob("C13.lazy/include-lookup", ok, ctx.where(f), "G[..] of an include is read inside its children function (render time): %s" % ok))
    for name in ("get_tmpl_gen_object_groups", "get_wx_gen_object_groups"):
        fs = [f for f in tc.fns if f.name == name and f.body]
        if not fs:
            obs.append(ob("C13.lazy/scripts-first/%s" % name, False, "group.rs", "%s not found" % name))
            continue
        f = fs[0]
        nodes = list(sir.walk(f.body))
        # any call that (transitively) writes the script definitions `R[..]=D(..)` - the helper chain may be reorganised
        def writes_scripts(h):
            return any((sir.write_fmt_call(x) or (None, []))[1][:1] and (sir.write_fmt_call(x)[1][0][0] == "lit" and sir.write_fmt_call(x)[1][0][1].startswith("R[")) for x in sir.walk(h.body))
        script_writers = set(h.name for h in tc.fns if h.body and "group" in h.module and any(writes_scripts(r_) for r_ in sir.reach(tc, h, 3)))
        g = [i for i, n in enumerate(nodes) if n.get("k") == "mcall" and n["m"] in script_writers and n["m"] != name]
        t = [i for i, n in enumerate(nodes) if n.get("k") == "for" and "trees" in sir.expr_str(n["e"])]
        ok = bool(g) and bool(t) and g[0] < t[0]
        obs.append(ob("C13.lazy/scripts-first/%s" % name, ok, ctx.where(f), "runtime helpers and all R[..]= script definitions are emitted before the first template: %s" % ok))
    ws = [f for f in tc.fns if f.name == "write_all_scripts" and f.body]
    if ws:
        f = ws[0]
        # the text written per script, whatever the number of write calls: `R[` h1 `]=D(` h2 `,` ..  with h1 == h2 == the quoted key
        loops = [n for n in sir.walk(f.body) if n.get("k") == "for" and "scripts" in sir.expr_str(n["e"])]
        ok = False
        if loops:
            pieces = []
            for n in sir.walk(loops[0]["body"]):
                wf_ = sir.write_fmt_call(n)
                if wf_:
                    pieces += wf_[1]
            text = "".join(p_[1] if p_[0] == "lit" else "\x00" for p_ in pieces)
            holes = [p_[1] for p_ in pieces if p_[0] != "lit"]
            if text.startswith("R[\x00]=D(\x00,") and len(holes) >= 2:
                locs = {n["pat"]["name"]: n["init"] for n in sir.walk(loops[0]["body"]) if n.get("k") == "local" and n["pat"].get("k") == "p_ident" and n.get("init") is not None}

                def resolved(h):
                    h = sir.strip_ref(h)
                    if h.get("k") == "path" and len(h["segs"]) == 1 and h["segs"][0] in locs:
                        return sir.expr_str(locs[h["segs"][0]]).replace(" ", "")
                    return sir.expr_str(h).replace(" ", "")
                key_var = [b for b, _p in sir.pat_bindings(loops[0]["pat"])][:1]
                ok = resolved(holes[0]) == resolved(holes[1]) and bool(key_var) and re.fullmatch(r"gen_lit_str\(&?%s\)" % re.escape(key_var[0]), resolved(holes[0])) is not None
        obs.append(ob("C13.lazy/script-registration", ok, ctx.where(f), "each script is registered as R[<path>]=D(<same path>, ..): %s" % ok))
    return obs


def wave10_rules(ctx):
    """obligations added after the tenth wave of seeded changes"""
    import absint as ai
    ob = ctx.ob
    tc = ctx.tc
    obs = []
    # replacing the content of an inline module never touches a module that is loaded from a file: the search for the module
    # to overwrite turns an external reference down whatever its name is
    fs = [f for f in tc.fns if f.name == "set_inline_script_content" and f.base == "Template" and f.body]
    if fs:
        f = fs[0]
        preds = [n["args"][0] for n in sir.walk(f.body) if n.get("k") == "mcall" and n["m"] in ("find", "position", "any", "filter") and n["args"] and n["args"][0].get("k") == "closure"
                 and "scripts" in sir.expr_str(n["recv"])]
        verdict, d = None, "the search for the module to overwrite is not in a form this rule reads"
        if len(preds) == 1:
            methods = {g.name: g for g in tc.fns if g.body and g.base == "Script"}
            F = ai.FREE
            ext = ("E", "GlobalRef", (("tag_location", F), ("module_location", F), ("module_name", ("E", "StrName", (("name", F), ("location", F)))), ("src_location", F), ("src", F)))
            it = ai.Interp(idx=tc, inline=methods)
            outs = it.call_closure(("closure", 0, preds[0]), [ext], ai.St({"module_name": F, "self": F}))
            vals = set(o.value for o in outs)
            if outs and vals == {False}:
                verdict, d = True, "an external module is never selected"
            elif outs and not any(o.tainted for o in outs):
                verdict, d = False, "an external `<wxs src>` module of the same name can be selected and is then replaced by an inline one"
        obs.append(ob("C13.deps/inline-content-only", verdict, ctx.where(f), d,
                      witness=None if verdict is not False else "<wxs module=\"m\" src=\"./m.wxs\"/> then set_inline_script_content(.., \"m\", ..): the dependency on ./m.wxs disappears"))
    return obs


def wave8_rules(ctx):
    """obligations added after the eighth wave of seeded changes"""
    ob = ctx.ob
    tc = ctx.tc
    obs = []
    # (1) the dependency queries report every reference of the file: nothing is filtered by anything but the kind of the reference
    n_ = 0
    for f in tc.fns:
        if not f.body or f.name not in ("direct_dependencies", "script_dependencies") or f.base not in ("Template", "TmplGroup"):
            continue
        n_ += 1
        probs = []
        for n in sir.walk(f.body):
            if n.get("k") != "mcall":
                continue
            if n["m"] in ("take", "skip", "take_while", "skip_while", "step_by", "dedup", "nth", "last"):
                probs.append("the list is cut by `%s`" % n["m"])
            if n["m"] in ("filter", "filter_map", "retain") and n["args"] and n["args"][0].get("k") == "closure":
                clo = n["args"][0]
                bound = set(b for pp in clo["params"] for b, _ in sir.pat_bindings(pp))
                for x in sir.walk(clo["body"]):
                    if x.get("k") in ("arm", "let", "local") and x.get("pat") is not None:
                        bound |= set(b for b, _ in sir.pat_bindings(x["pat"]))
                free = set()
                for x in sir.walk(clo["body"]):
                    if x.get("k") == "path" and len(x["segs"]) == 1 and x["segs"][0] not in bound and not x["segs"][0][:1].isupper() and x["segs"][0] not in ("self",):
                        free.add(x["segs"][0])
                    if x.get("k") == "path" and x["segs"] == ["self"] and n["m"] in ("filter", "retain"):
                        free.add("self")
                if n["m"] in ("filter", "retain") and free:
                    probs.append("references are dropped depending on `%s`, not on their own kind" % sorted(free)[0])
        obs.append(ob("C13.deps/complete/%s::%s" % (f.base, f.name), not probs, ctx.where(f), "every reference of the file is reported" if not probs else "; ".join(sorted(set(probs))),
                      witness=None if not probs else "a template importing itself (or a script added later) is linked by the generated code but missing from the dependency list"))
    if n_ < 4:
        obs.append(ob("C13.floor/deps", False, "parse/tag.rs, group.rs", "only %d dependency queries found (floor 4)" % n_))
    # (2) modules are loaded in the order in which the parser numbered their scopes (shared with C05.mirror/gen/start)
    from rules.c05 import check_mirror
    for x in check_mirror(ctx):
        if x["key"].endswith("mirror/gen/start"):
            x = dict(x)
            x["key"] = "C13.lazy/module-order"
            obs.append(x)
    return obs


def run(ctx):
    obs = same_rule(ctx)
    obs += suffix_rule(ctx)
    obs += algo_rule(ctx)
    obs += lazy_rule(ctx)
    obs += wave8_rules(ctx)
    obs += wave10_rules(ctx)
    # wave 11: whether `<wxs src>` links work does not depend on the order files were added: the group's flags only ever turn on,
    # and importing a group merges everything it holds (shared with C20.order)
    from share import relabel
    from rules.c20 import order_rules
    obs += relabel(order_rules(ctx), "C20.order", "C13.lazy/order")
    # wave 11: the code emitted for one file does not depend on which other files are in the group at that moment: the generator
    # asks the group for its configuration only (resolved callees of every body under proc_gen)
    asked, n_cfg = set(), 0
    for b in ctx.mir.by_crate.get("glass_easel_template_compiler", []):
        if not b["root"].startswith("proc_gen::"):
            continue
        for c in b["calls"]:
            nm = sir.norm_mir_name(c["callee"])
            if nm.startswith("group::TmplGroup::") or "::TmplGroup::" in nm:
                meth = nm.split("::")[-1]
                if meth in ("dev",):
                    n_cfg += 1
                else:
                    asked.add("%s calls TmplGroup::%s" % (b["root"].split("::")[-1], meth))
    obs.append(ctx.ob("C13.lazy/generator-group-blind", not asked and n_cfg >= 1, "proc_gen/tag.rs",
                      "; ".join(sorted(asked)) if asked else "the generator reads the group's configuration only (%d site(s))" % n_cfg,
                      witness=None if not asked else "get_tmpl_gen_object('page') before add_tmpl('part'): the <include> link is left out, although direct_dependencies reports it"))
    return obs
