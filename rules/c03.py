"""C03 - binding expressions evaluate with JavaScript semantics (table half)."""
import re
import sir
import prectables as pt
from exprmodel import ExprModel, arm_table, bound_fields

RULE = ("C03.prec: four tables are extracted from the code and compared with ECMA-262: (a) the parser's precedence chain "
        "(which operators each level consumes, left-assoc loops, look-ahead exclusions complete w.r.t. the JS punctuator list); "
        "(b) the generator's level table; (c) per generator arm the level allowed for each operand and the operator literal "
        "written between them: allowed(left) <= class(op), allowed(right) < class(op), unary operand <= Unary; (d) the skeleton "
        "level of what an arm really emits: level(V) >= skeleton(V); levels used to parenthesise emitted JS come from table (b), "
        "never from the WXML printer's table. C03.ops: parser token == generator literal == ECMA spelling; `??` is lowered by a "
        "nullish test, never by truthiness. C03.literal: integer accumulators of the number scanner cannot overflow; floats are "
        "displayed only under a finiteness test. C03.helpers: every helper the fragments call is defined by the runtime items and "
        "every property read / call goes through X()/P().")
EXPLANATION = ("Operator tables of parser, generator and runtime prelude are extracted from the expanded syntax tree and compared "
               "exhaustively (all 44 variants, all operand positions) with the ECMA-262 table; values are never computed.")
ASSUMPTIONS = ["refs/ecma_ops.json transcribes ECMA-262 precedence correctly", "the JS engine implements ECMA-262",
               "helper bodies (X, Y, Z, P) behave as their one-line definitions read"]


def lvl_rank(order):
    return {n: i for i, n in enumerate(order)}


def parser_cond_rule(ctx):
    ob = ctx.ob
    tc = ctx.tc
    obs = []
    # (1) the conditional operator is right-associative: its condition is parsed one level tighter, both branches at its own level
    pc = [f for f in tc.fns if f.name == "parse_cond" and f.base == "Expression" and f.body]
    if pc:
        f = pc[0]
        st = [n for n in sir.walk(f.body) if n.get("k") == "struct" and n["segs"][-1] == "Cond"]
        verdict, d = None, "the conditional is not built in a form this rule reads"
        if st:
            def origin(name, depth=0):
                for l_ in sir.walk(f.body):
                    if l_.get("k") == "local" and any(b == name for b, _ in sir.pat_bindings(l_["pat"])) and l_.get("init") is not None:
                        for c_ in sir.walk(l_["init"]):
                            if c_.get("k") == "call" and (sir.call_name(c_) or "").startswith("parse_"):
                                return sir.call_name(c_)
                return None
            got = {}
            for fl in st[0]["fields"]:
                if fl["name"] in ("cond", "true_br", "false_br"):
                    e_ = sir.strip_ref(fl["e"])
                    got[fl["name"]] = origin(e_["segs"][0]) if e_.get("k") == "path" and len(e_["segs"]) == 1 else None
            if all(got.get(k_) for k_ in ("cond", "true_br", "false_br")):
                verdict = got["cond"] != "parse_cond" and got["true_br"] == "parse_cond" and got["false_br"] == "parse_cond"
                d = "condition parsed by %s, true branch by %s, false branch by %s (a conditional nests in either branch without parentheses, never in the condition)" % (got["cond"], got["true_br"], got["false_br"])
            loops = any(n.get("k") in ("while", "loop", "for") for n in sir.walk(f.body))
            if verdict and loops:
                verdict, d = False, d + "; built in a loop: left-associative"
        obs.append(ob("C03.prec/parser/Cond", verdict, ctx.where(f), d, witness=None if verdict is not False else "a ? 1 : b ? 2 : 3 is read as (a ? 1 : b) ? 2 : 3"))
    return obs


def helper_defs_rule(ctx):
    """the runtime helpers the emitted skeletons call are defined with the expected bodies"""
    ob = ctx.ob
    tc = ctx.tc
    obs = []
    items = {}
    for name in ("RUNTIME_ITEMS", "EXTRA_RUNTIME_ITEMS", "WXS_RUNTIME_ITEMS"):
        c = tc.const(name)
        if c is None:
            obs.append(ob("C03.helpers/%s" % name, False, "group.rs", "runtime item table %s not found" % name))
            continue
        for el in sir.walk(c["e"]):
            if el.get("k") == "tuple" and len(el["elems"]) == 2 and all(x.get("k") == "lit" for x in el["elems"]):
                items.setdefault(name, {})[el["elems"][0]["v"]] = el["elems"][1]["v"]
    want = {"RUNTIME_ITEMS": {"X": r"a==null\?Object\.create\(null\):a", "Y": r"a==null\?'':String\(a\)", "Z": r"a===true\)returntrue;if\(a\)returna\[b\]", "P": r"typeofa==='function'\?a:\(\)=>\{\}"},
            "EXTRA_RUNTIME_ITEMS": {"a": None, "b": None}, "WXS_RUNTIME_ITEMS": {"A": None, "B": None}}
    for tname, hs in want.items():
        for h, rx in hs.items():
            body = items.get(tname, {}).get(h)
            ok = body is not None and (rx is None or re.search(rx, body.replace(" ", "")) is not None)
            obs.append(ob("C03.helpers/def/%s.%s" % (tname, h), ok, "group.rs", "helper %s: %s" % (h, body if body else "not defined")))
    return obs


def wave8_rules(ctx):
    """obligations added after the eighth wave of seeded changes"""
    ob = ctx.ob
    tc = ctx.tc
    obs = parser_cond_rule(ctx)
    # (2) string constants inside expressions go through the escaper table (shared with C12 / C02)
    from rules.c12 import find_escaper, check_escaper
    ef = find_escaper(tc)
    if ef is not None:
        o, _ = check_escaper(ctx, ef, ctx.mir, "glass_easel_template_compiler", "C03.escaper")
        obs += o
    # (3) what the expression generator pastes into the script is classified text (shared with C02.holes)
    from rules.c02 import holes_rule
    o, _sites = holes_rule(ctx)
    for x in o:
        if re.search(r"C02\.holes/(Expression|PathSliceList|PathAnalysisState)::", x["key"]):
            x = dict(x)
            x["key"] = x["key"].replace("C02.holes", "C03.holes")
            obs.append(x)
    # (4) a free identifier denotes the innermost scope of that name (shared with C05.innermost)
    from rules.c05 import check_innermost
    for x in check_innermost(ctx):
        x = dict(x)
        x["key"] = x["key"].replace("C05.innermost", "C03.scope/innermost")
        obs.append(x)
    # wave 10: (5b) the slot-value scopes an identifier may resolve to are declared once per slot value name (shared with C05)
    from share import relabel as _rl
    from rules.c05 import dedup_key_rule
    obs += _rl(dedup_key_rule(ctx), "C05.mirror/gen/dedup-key", "C03.scope/slot-dedup-key")
    # wave 10: (6) a literal beyond the integer range becomes a float, it is never clamped or wrapped
    pn_ = [f for f in tc.fns if f.name == "parse_number" and f.body]
    if pn_:
        clamp = []
        for g in sir.reach(tc, pn_[0]):
            if g.body:
                clamp += ["%s::%s" % (g.name, x["m"]) for x in sir.walk(g.body, into_closures=True) if x.get("k") == "mcall" and re.match(r"(saturating|wrapping|overflowing)_", x["m"])]
        obs.append(ob("C03.literal/no-clamping", not clamp, ctx.where(pn_[0]), "the number scanner uses no saturating / wrapping arithmetic" if not clamp else "the number scanner clamps or wraps: %s" % clamp[:3],
                      witness=None if not clamp else "{{ 18446744073709551615 }} is emitted as 9223372036854775807"))
    # (7) a comment ends at the first `*/` after it starts, a scanner never looks for the last occurrence of its terminator
    last = []
    for f in tc.fns:
        if not f.body or f.module[:1] != ["parse"]:
            continue
        for x in sir.walk(f.body, into_closures=True):
            if x.get("k") == "mcall" and x["m"] in ("rfind", "rsplit_once", "rsplit", "rsplitn", "rmatch_indices", "trim_end_matches") and x["args"]:
                a0 = sir.strip_ref(x["args"][0])
                if a0.get("k") == "lit" and a0.get("v") not in ("\n", "\r", "/", "."):
                    last.append("%s uses `%s(%r)`" % (f.name, x["m"], a0.get("v")))
    obs.append(ob("C03.scan/first-terminator", not last, "parse/mod.rs", "no scanner of the template parser searches backwards for a terminator" if not last else "; ".join(last[:2]),
                  witness=None if not last else "{{ a /* x */ + b /* y */ }} is generated as `D.a`"))
    # (5) wave 9: escape sequences of string literals are decoded as ECMAScript decodes them (shared with C12.unescape)
    from share import relabel
    from rules.c12 import check_unescape
    obs += relabel(check_unescape(ctx), "C12.unescape", "C03.literal/unescape")
    # wave 11: a conditional used as the condition of a branch selector `c?i:` is parenthesised (shared with C04.branch)
    from rules.c04 import wave8_rules as c04_w8
    obs += relabel(c04_w8(ctx), "C04.branch/condition-paren", "C03.prec/condition-paren")
    return obs


def run(ctx):
    ob = ctx.ob
    tc = ctx.tc
    obs = []
    ref = pt.load_ref("ecma_ops.json")
    model = ExprModel(tc)
    order = pt.level_order(tc)
    rank = lvl_rank(order)
    if len(order) != len(ref["classes"]):
        obs.append(ob("C03.prec/levels", False, "stringify/expr.rs", "ExpressionLevel has %d levels, the reference table %d: cannot align" % (len(order), len(ref["classes"]))))
        return obs
    binvars = model.binary_variants()
    unvars = model.unary_variants()

    # ---------------- (a) parser
    consumers = pt.operator_consumers(tc)
    levels = pt.parser_levels(tc, model)
    var_token = {}
    var_plevel = {}
    for lname, l in levels.items():
        for o in l["ops"]:
            c = consumers.get(o["consumer"])
            if c and c["token"]:
                var_token[o["variant"]] = c["token"]
            var_plevel[o["variant"]] = lname
    # chain order: a level's operand callee is the next tighter level
    tighter = {}
    for lname, l in levels.items():
        for o in l["ops"]:
            if o["variant"] in binvars:
                for opd in o["operands"]:
                    tighter.setdefault(lname, set()).add(opd)
    # depth of each binary level: number of hops to reach a non-binary level
    def depth(lname, seen=()):
        nx = [x for x in tighter.get(lname, ()) if x != lname and x in levels and any(o["variant"] in binvars for o in levels[x]["ops"])]
        if not nx or lname in seen:
            return 0
        return 1 + max(depth(x, seen + (lname,)) for x in nx)
    for v in binvars:
        key = "C03.prec/parser/%s" % v
        if v not in var_plevel:
            obs.append(ob(key, False, "parse/expr.rs", "binary variant %s is not produced by any precedence level of the parser" % v))
            continue
        lname = var_plevel[v]
        f = levels[lname]["fn"]
        tok = var_token.get(v)
        o = [x for x in levels[lname]["ops"] if x["variant"] == v][0]
        problems = []
        if tok not in ref["binary"]:
            problems.append("token %r is not a JS binary operator of the dialect" % tok)
        else:
            cls = ref["binary"][tok]
            # all operators of this level share the class
            for o2 in levels[lname]["ops"]:
                t2 = var_token.get(o2["variant"])
                if t2 in ref["binary"] and ref["binary"][t2] != cls:
                    problems.append("level %s mixes %r (class %s) with %r (class %s)" % (lname, tok, ref["classes"][cls], t2, ref["classes"][ref["binary"][t2]]))
            # tighter classes are deeper
            for v2 in binvars:
                if v2 in var_plevel and var_token.get(v2) in ref["binary"]:
                    c2 = ref["binary"][var_token[v2]]
                    d1, d2 = depth(lname), depth(var_plevel[v2])
                    if c2 < cls and not d2 < d1:
                        problems.append("%r (class %s) must bind tighter than %r but its level %s is not deeper than %s" % (var_token[v2], ref["classes"][c2], tok, var_plevel[v2], lname))
        if not o["in_loop"]:
            problems.append("operator is not consumed in a loop: not left-associative")
        if len(set(o["operands"])) != 1 or (o["operands"] and o["operands"][0] == lname):
            problems.append("right operand is parsed by %s (left-assoc needs the next tighter level)" % o["operands"])
        obs.append(ob(key, not problems, ctx.where(f), "; ".join(problems) if problems else "token %r at %s, operands by %s, left-assoc" % (tok, lname, o["operands"][0] if o["operands"] else "?"),
                      sample={"variant": v, "token": tok, "level_fn": lname}))
    # look-ahead exclusions
    puncts = ref["punctuators"]
    n_la = 0
    infix = set(o["consumer"] for l in levels.values() for o in l["ops"] if o["variant"] in binvars) | {"condition", "static_member"}
    for cname, c in sorted(consumers.items()):
        tok = c["token"]
        if cname not in infix and not c["kind"].startswith("word"):
            n_la += 1
            obs.append(ob("C03.prec/lookahead/%s" % cname, tok is not None, ctx.where(c["fn"]), "prefix/bracket consumer %r (a longer punctuator at this position is a syntax error either way)" % tok))
            continue
        if tok is None:
            obs.append(ob("C03.prec/lookahead/%s" % cname, False, ctx.where(c["fn"]), "operator consumer does not consume a literal token"))
            continue
        n_la += 1
        if c["kind"].startswith("word"):
            ok = c["excepts"] and "is_ident_char" in c["excepts"][0]
            obs.append(ob("C03.prec/lookahead/%s" % cname, bool(ok), ctx.where(c["fn"]), "keyword operator %r must not be followed by an identifier character: %s" % (tok, c["excepts"])))
            continue
        longer = [p for p in puncts if p.startswith(tok) and p != tok]
        missing = []
        for p in longer:
            rest = p[len(tok):]
            if not any(e and rest.startswith(e) for e in (c["excepts"] or [])):
                missing.append(p)
        # closing brackets / colon / member brackets have no longer punctuator that matters
        detail = "token %r excludes %s; longer punctuators %s" % (tok, c["excepts"], longer)
        if missing and "custom" in c["kind"]:
            # a custom consumer may re-admit a case deliberately (`?.1`): keep the base rule on its first call only
            pass
        obs.append(ob("C03.prec/lookahead/%s" % cname, not missing, ctx.where(c["fn"]), detail + ("; NOT excluded: %s" % missing if missing else "")))
    if n_la < 30:
        obs.append(ob("C03.floor/consumers", False, "parse/expr.rs", "only %d operator consumers found (floor 30)" % n_la))

    # ---------------- (b) level tables
    tables = pt.level_tables(tc, model)
    gen_tables = {q: t for q, t in tables.items() if "proc_gen" in t[0].module}
    prn_tables = {q: t for q, t in tables.items() if "stringify" in t[0].module}
    if len(gen_tables) != 1:
        obs.append(ob("C03.prec/table/anchor", False, "proc_gen/expr.rs", "generator level table not found (%d candidates)" % len(gen_tables)))
        return obs
    gq, (gf, gtab) = list(gen_tables.items())[0]
    for v in binvars:
        tok = var_token.get(v)
        if tok in ref["binary"]:
            want = ref["binary"][tok]
            got = rank.get(gtab.get(v), -1)
            lowered = False
            obs.append(ob("C03.prec/table/%s" % v, got >= want, ctx.where(gf), "generator level of %s is %s; ECMA class of %r is %s%s" % (v, gtab.get(v), tok, order[want], "" if got == want else " (higher is allowed only for lowered operators, checked by the skeleton rule)")))
    for v in unvars:
        obs.append(ob("C03.prec/table/%s" % v, rank.get(gtab.get(v), -1) >= 2, ctx.where(gf), "unary %s has level %s" % (v, gtab.get(v))))

    # ---------------- (c)+(d) generator arms
    g = pt.main_expression_fn(tc, model, "proc_gen")
    if g is None:
        obs.append(ob("C03.prec/gen/anchor", False, "proc_gen/expr.rs", "expression generator not found"))
        return obs
    genf, gm, _n = g
    where = ctx.where(genf)
    table = arm_table(gm, model)
    arm_lits = {}
    for v in model.variants:
        if v not in table:
            obs.append(ob("C03.prec/gen/%s" % v, False, where, "variant %s has no arm in the expression generator" % v))
            continue
        arm, case = table[v][0]
        bf = bound_fields(case)
        names = [b for b in bf.values() if b]
        ev = pt.arm_events(arm["body"], names, variant=v)
        out_param = genf.param_names()[-1]
        text = "".join(e[1] if e[0] == "lit" else "\x00" for e in ev if e[0] == "child" or (e[0] in ("lit", "hole") and e[2] == out_param))
        arm_lits[v] = (ev, text)
        if v in binvars and var_token.get(v) in ref["binary"]:
            tok = var_token[v]
            cls = ref["binary"][tok]
            lb, rb = bf.get("left"), bf.get("right")
            ch = [e for e in ev if e[0] == "child"]
            lits_between = []
            li = ri = None
            for i, e in enumerate(ev):
                if e[0] == "child" and e[1] == lb and li is None:
                    li = i
                if e[0] == "child" and e[1] == rb:
                    ri = i
            lowered = any(e[0] == "hole" for e in ev)
            if li is None or ri is None:
                obs.append(ob("C03.prec/gen/%s" % v, False, where, "operands of %s are not generated with explicit levels (events %s)" % (v, ev)))
                continue
            lits_between = "".join(e[1] for e in ev[min(li, ri) + 1:max(li, ri)] if e[0] == "lit")
            ll, rl = ev[li][2], ev[ri][2]
            if not lowered:
                p = []
                if rank[ll] > cls:
                    p.append("left operand allowed level %s is looser than the operator's class %s: `(a %s b) %s c` loses its parentheses" % (ll, order[cls], {"BitXor": "|"}.get(v, "op"), tok))
                if rank[rl] >= cls:
                    p.append("right operand allowed level %s is not tighter than the operator's class %s (left-assoc): `a %s (b %s c)` loses its parentheses" % (rl, order[cls], tok, tok))
                if lits_between.strip() != tok:
                    p.append("operator literal written is %r, parser token for %s is %r" % (lits_between, v, tok))
                if li > ri:
                    p.append("operands are emitted right-to-left")
                if tok == "??" and (rank[ll] > rank["BitOr"] or rank[rl] > rank["BitOr"]):
                    # ECMA-262: CoalesceExpression takes BitwiseORExpression operands; `a || b ?? c` and `a ?? b && c` are early errors
                    p.append("`??` is written natively with operands allowed up to %s / %s: JavaScript forbids mixing `??` with `||` / `&&` without parentheses (operands must be at most BitOr)" % (ll, rl))
                w = None
                if p and v == "BitXor":
                    w = "{{ (a|b)^c }} emits D.a|D.b^D.c"
                obs.append(ob("C03.prec/gen/%s" % v, not p, where, "; ".join(p) if p else "%s: left<=%s %r right<=%s" % (v, ll, lits_between, rl), witness=w,
                              sample={"variant": v, "left": ll, "op": lits_between, "right": rl}))
            else:
                # lowered operator: text is built around a temporary
                acc = ref["nullish_lowerings_accepted"] if tok == "??" else [tok]
                okl = any(a in text.replace(" ", "") for a in acc)
                sk = pt.skeleton_tokens(text)
                truthy = tok == "??" and not okl and "?" in sk
                obs.append(ob("C03.ops/%s" % v, okl, where,
                              ("`%s` is lowered to %r: " % (tok, text.replace("\x00", "{}"))) + ("accepted lowering" if okl else ("a truthiness test - wrong for 0, '' and false" if truthy else "not an accepted lowering")),
                              witness=None if okl else '{{ a ?? "x" }} with a = 0 renders "x" instead of 0'))
        elif v in unvars:
            ch = [e for e in ev if e[0] == "child"]
            lit = "".join(e[1] for e in ev if e[0] == "lit").strip()
            ptok = var_token.get(v)
            cons = [c for cn, c in consumers.items() if any(o["consumer"] == cn and o["variant"] == v for l in levels.values() for o in l["ops"])]
            p = []
            if not ch or rank[ch[0][2]] > 2:
                p.append("operand allowed level %s is looser than Unary" % (ch[0][2] if ch else None))
            if lit not in ref["unary"]:
                p.append("operator literal %r is not a JS unary operator" % lit)
            obs.append(ob("C03.prec/gen/%s" % v, not p, where, "; ".join(p) if p else "unary %r operand<=%s" % (lit, ch[0][2])))
        # (d) skeleton level
        sk = [t for t in pt.skeleton_tokens(text) if t != ","]
        need = 0
        for t in sk:
            if t in ("?", ":"):
                need = max(need, 13)
            elif t in ref["binary"]:
                need = max(need, ref["binary"][t])
            elif t in ("!", "~", "typeof", "void"):
                need = max(need, 2)
        if text.startswith(" +") or text.startswith(" -"):
            need = max(need, 2) if len(sk) <= 1 else need
        if v in gtab:
            got = rank[gtab[v]]
            # unary +/- are reported as binary tokens by the scanner; unary arms are checked above
            if v in unvars:
                need = 2
            obs.append(ob("C03.prec/skeleton/%s" % v, got >= need, where,
                          "emitted skeleton %r needs level >= %s; table says %s" % (text.replace("\x00", "{}")[:60], order[need], gtab[v])))

    # who consults the printer's table from generator code
    prn_fn_names = set(t[0].name for t in prn_tables.values())
    for f in tc.fns:
        if not f.body or "proc_gen" not in f.module:
            continue
        for n in sir.walk(f.body):
            if n.get("k") == "call" and n["f"].get("k") == "path" and n["f"]["segs"][-1] in prn_fn_names and n["f"]["segs"][-1] != gf.name and "ExpressionLevel" in n["f"]["s"]:
                obs.append(ob("C03.prec/level-source/%s" % f.qual, False, ctx.where(f),
                              "generator code parenthesises emitted JS by the WXML printer's level table (%s); the emitted text of lowered operators has a different level" % n["f"]["s"],
                              witness='<a wx:if="{{a ?? b}}"/> emits `$A?$A:D.b?1:0`'))
    obs.append(ob("C03.prec/level-source/scan", True, "proc_gen/*", "generator functions scanned for uses of the printer's table"))

    # ---------------- C03.ops sibling agreement for member/call skeletons
    for v, must in (("StaticMember", ["X(", ")."]), ("DynamicMember", ["X(", ")["]), ("FuncCall", ["P(", ")("]), ("ToStringWithoutUndefined", ["Y("])):
        ev, text = arm_lits.get(v, ([], ""))
        ok = all(m in text for m in must)
        obs.append(ob("C03.helpers/%s" % v, ok, where, "emitted skeleton %r must contain %s (null-safe read / callable-or-noop / display string)" % (text.replace("\x00", "{}"), must)))

    # ---------------- C03.helpers: helper definitions
    obs += helper_defs_rule(ctx)

    # ---------------- C03.lists: separator flags of list emitters
    obs += list_rules(ctx)

    # ---------------- C03.literal
    obs += literal_rules(ctx)
    n_bin = sum(1 for o in obs if o["key"].startswith("C03.prec/gen/"))
    if n_bin < 28:
        obs.append(ob("C03.floor/gen-arms", False, where, "only %d operator arms analysed (floor 28 = 22 plain binary + 6 unary)" % n_bin))
    # sub-expression traversal and operator adjacency are shared with C05 / C02 (same code, same rules)
    from rules.c05 import check_iterators
    o5, _m, _i = check_iterators(ctx)
    for x in o5:
        x = dict(x)
        x["key"] = x["key"].replace("C05.children", "C03.children").replace("C05.", "C03.iter.")
        obs.append(x)
    from rules.c02 import adjacency_rule
    for x in adjacency_rule(ctx):
        x = dict(x)
        x["key"] = x["key"].replace("C02.adjacent", "C03.adjacent").replace("C02.", "C03.adj.")
        obs.append(x)
    obs += wave8_rules(ctx)
    return obs


# separator flags whose buffer is only ever tested for truthiness element-wise (holes are harmless there)
LIST_FLAG_EXCEPTIONS = {
    ("to_path_analysis_str", "next_need_comma_sep"): "update-path test arrays/objects: Q.a/Q.b only ask whether any entry is truthy, an empty slot changes nothing",
}


def list_rules(ctx):
    import sepflags
    ob = ctx.ob
    tc = ctx.tc
    obs = []
    n = 0
    for f in tc.fns:
        if not f.body or not ("proc_gen" in f.module or "binding_map" in f.module or "group" in f.module):
            continue
        for flag, buf, loop in sepflags.find_flags(f):
            n += 1
            res = sepflags.check_flag(f, flag, buf, loop)
            bad = [d for ok, d in res if not ok]
            key = "C03.lists/%s/%s/%s" % (f.qual, flag, buf)
            exc = LIST_FLAG_EXCEPTIONS.get((f.name, flag))
            if bad and exc:
                obs.append(ob(key, True, ctx.where(f), "tabled exception (%s); inconsistent paths: %s" % (exc, bad[:2])))
                continue
            obs.append(ob(key, not bad, ctx.where(f),
                          ("separator flag `%s` agrees with what `%s` ends with on all %d paths of the loop body" % (flag, buf, len(res))) if not bad else
                          "after %s the flag says a separator %s needed, but the buffer ends the other way: an element is emitted with a missing or an extra `,` (array hole / syntax error)" % (bad[0], "is"),
                          witness=None if not bad else "{{ [a, ...b, c] }} emits [].concat([D.a],D.b,[,D.c])",
                          sample=[d for _ok, d in res][:6]))
    # array holes: the arm for an empty slot writes the pending separator (if any) AND one comma of its own
    holes = 0
    for f in tc.fns:
        if not f.body or "proc_gen" not in f.module:
            continue
        for flag, buf, loop in sepflags.find_flags(f):
            for m in sir.walk(loop["body"]):
                if m.get("k") != "match":
                    continue
                for a in m["arms"]:
                    if "EmptySlot" not in sir.pat_str(a["pat"]):
                        continue
                    holes += 1
                    paths = sepflags.run_paths(a["body"], flag, buf, [sepflags.Path()])
                    probs = []
                    for pth in paths:
                        want = {True: ",,", False: ","}.get(pth.pre)
                        if want is None:
                            probs.append("a path writes %r without consulting `%s`: a pending separator is not flushed, the hole collapses into it" % (pth.text, flag))
                        elif pth.text != want:
                            probs.append("with %s=%s the arm writes %r (expected %r)" % (flag, pth.pre, pth.text, want))
                        post = pth.post if pth.post is not None else pth.pre
                        if post is not False:
                            probs.append("after the hole the flag must be false (the buffer ends with `,`)")
                    obs.append(ob("C03.lists/hole/%s/%s" % (f.qual, buf), not probs, ctx.where(f), "; ".join(sorted(set(probs))) if probs else "an empty slot writes the pending separator and its own comma (`,,` after an element, `,` otherwise)",
                                  witness=None if not probs else "{{ [a,,b] }} is emitted as [D.a,D.b]"))
    if holes < 1:
        obs.append(ob("C03.floor/hole-arm", False, "proc_gen/expr.rs", "no empty-slot arm found in a list emitter (floor 1)"))
    if n < 4:
        obs.append(ob("C03.floor/list-flags", False, "proc_gen/expr.rs", "only %d separator flags found (floor 4)" % n))
    # decimal scanner: a `.` or an exponent turns the literal into a float (the integer accumulator is given up)
    pn = [f for f in tc.fns if f.name == "parse_number" and f.body and "parse" in f.module]
    if pn:
        f = pn[0]
        marks = {}
        for x in sir.walk(f.body):
            if x.get("k") == "if" and x["cond"].get("k") == "binary" and x["cond"].get("op") == "==" and sir.expr_str(x["cond"]["l"]) == "next" and x["cond"]["r"].get("t") == "char":
                ch = x["cond"]["r"]["v"]
                if ch in ".eE":
                    top = [st.get("e") for st in x["then"]["stmts"] if st.get("k") == "expr"]
                    # the accumulator is put into its `not an integer` state: a plain local assigned a constant (None / a unit variant)
                    resets = [(sir.expr_str(e["l"]), sir.expr_str(e["r"])) for e in top if e is not None and e.get("k") == "assign" and e["l"].get("k") == "path" and len(e["l"]["segs"]) == 1 and e["r"].get("k") == "path"]
                    marks[ch] = resets[0] if resets else False
        same = len(set(v for v in marks.values() if v)) == 1
        for ch in (".", "e"):
            okm = bool(marks.get(ch)) and same
            obs.append(ob("C03.literal/float-mark/%s" % ("dot" if ch == "." else "exp"), okm, ctx.where(f),
                          "after `%s` the literal is no longer an integer (`int = None` at the top of that branch): %s" % (ch, marks.get(ch)),
                          witness=None if okm else "{{ 2e3 }} evaluates to 2"))
    # accumulators of the integer-literal scanner: every digit reaches every accumulator
    for f in tc.fns:
        if not f.body or "parse" not in f.module:
            continue
        params = [p for p in f.param_names() if p and p != "self"]
        accs = []
        for st in f.body["stmts"]:
            pass
        for nnode in sir.walk(f.body):
            if nnode.get("k") == "assign" and nnode["l"].get("k") == "field" and sir.expr_str(nnode["l"]["base"]) == "self":
                fld = nnode["l"]["name"]
                rs = sir.expr_str(nnode["r"])
                if ("self." + fld) in rs and any(pn in [x["s"] for x in sir.walk(nnode["r"]) if x.get("k") == "path"] for pn in params):
                    accs.append((fld, nnode))
        if len(accs) >= 1 and params and f.base and "Acc" in f.base:
            top = set(id(st["e"]) for st in f.body["stmts"] if st.get("k") == "expr")
            for fld, nnode in accs:
                uncond = id(nnode) in top
                obs.append(ob("C03.literal/accumulator/%s.%s" % (f.qual, fld), uncond, ctx.where(f),
                              "accumulator `self.%s` is updated with every digit unconditionally: %s" % (fld, uncond) + ("" if uncond else " - digits consumed while the update is skipped are lost from the value"),
                              witness=None if uncond else "{{ 0x10000000000000000 }} evaluates to 0"))
    return obs


def literal_rules(ctx):
    """C03.literal = C01.literal + C02.float"""
    ob = ctx.ob
    obs = []
    # integer accumulators in the expression parser: any overflow-checked i64 arithmetic in parse::expr
    n = 0
    for b in ctx.mir.bodies:
        if b["crate"] != "glass_easel_template_compiler" or not b["root"].startswith("parse::expr"):
            continue
        for a in b["asserts"]:
            n += 1
            m = re.match(r"Overflow(Neg)?\((\w+)?.* :: (\w+)$", a["kind"])
            if not m:
                continue
            op, ty = (m.group(2) or "Neg"), m.group(3)
            # accumulation operators on a wide signed accumulator; `-` of two digit casts is the digit-value idiom
            if ty in ("i64", "i128", "i32", "isize") and op in ("Mul", "Add", "Shl", "Neg"):
                obs.append(ob("C03.literal/%s/%s-%s" % (b["root"], ty, op), False, a["span"],
                              "unchecked %s `%s` on a literal accumulator: panics in debug builds, wraps in release (%s)" % (ty, op, a["kind"][:80]),
                              witness="{{ 99999999999999999999 }} / {{ 0x7fffffffffffffff0 }}"))
    obs.append(ob("C03.literal/scan", True, "parse/expr.rs", "assert terminators of parse::expr scanned: %d" % n))
    # an integer literal is stored as the value that was accumulated: no sign-changing / narrowing cast on the way into `LitInt`
    pn = [f for f in ctx.tc.fns if f.name == "parse_number" and f.body]
    if pn:
        f = pn[0]
        unsigned = set()
        for l_ in sir.walk(f.body):
            if l_.get("k") == "local" and l_["pat"].get("k") == "p_ident" and l_.get("init") is not None:
                t_ = (l_.get("ty") or "") + " " + " ".join(str(x.get("raw") or x.get("v")) + str(x.get("suffix") or "") for x in sir.walk(l_["init"]) if x.get("k") == "lit")
                if re.search(r"\b(u64|u128|usize|u32)\b", sir.expr_str(l_["init"]) + " " + t_):
                    unsigned.add(l_["pat"]["name"])
        bad = []
        for st_ in sir.walk(f.body):
            if st_.get("k") == "struct" and st_["segs"][-1] == "LitInt":
                for fl in st_["fields"]:
                    if fl["name"] == "value":
                        for c_ in sir.walk(fl["e"]):
                            if c_.get("k") == "cast" and re.fullmatch(r"i(8|16|32|64|128|size)", (c_.get("ty") or "").strip()):
                                bad.append("%s as %s" % (sir.expr_str(c_["e"])[:30], c_["ty"]))
        obs.append(ob("C03.literal/stored-as-accumulated", not bad, ctx.where(f), "the accumulated integer is stored in LitInt without a cast" if not bad else "the value stored in LitInt goes through the cast `%s`: values beyond the signed range change sign" % bad[0],
                      witness=None if not bad else "{{ a - 9223372036854775808 }} emits `D.a--9223372036854775808`"))
    obs += float_display_rule(ctx, "C03.literal")
    return obs


def float_sites(mir, crates):
    out = []
    for b in mir.bodies:
        if b["crate"] not in crates:
            continue
        guards = [c for c in b["calls"] if re.search(r"f64>?::is_(finite|infinite|nan)|<impl f64>::is_(finite|infinite|nan)", c["generic"])]
        for c in b["calls"]:
            if re.search(r"new_display::<&?f64>|<f64 as std::string::ToString>::to_string|<f64 as std::fmt::Display>::fmt|new_lower_exp::<&?f64>", c["generic"]) or \
               (re.search(r"ToString>::to_string$|::to_string$", sir.norm_mir_name(c["callee"])) and c["argtys"] and c["argtys"][0] in ("&f64", "f64")):
                out.append((b, c, bool(guards)))
    return out


def float_display_rule(ctx, prefix):
    ob = ctx.ob
    obs = []
    sites = float_sites(ctx.mir, {"glass_easel_template_compiler"})
    for b, c, guarded in sites:
        obs.append(ob("%s/float-display/%s" % (prefix, b["root"]), guarded, c["span"],
                      "f64 is formatted with Rust's Display %s a finiteness test in the same function (Rust prints `inf`/`NaN`, which are identifiers in JS and WXML)" % ("under" if guarded else "without"),
                      witness=None if guarded else "{{ 1e999 }} emits `inf`"))
        # the function that spells a float never squeezes it through an integer type (finite floats exceed every integer range)
        fname = b["root"].split("::")[-1]
        for f in ctx.tc.fns:
            if not f.body or f.name != fname:
                continue
            floats = set(q.get("pat", {}).get("name") for q in f.params if not q.get("self") and "f64" in (q.get("ty") or ""))
            casts = [n for n in sir.walk(f.body) if n.get("k") == "cast" and re.fullmatch(r"[iu](8|16|32|64|128|size)", (n.get("ty") or "").strip())
                     and any(x.get("k") == "path" and len(x["segs"]) == 1 and x["segs"][0] in floats for x in sir.walk(n["e"]))]
            obs.append(ob("%s/float-display/%s/no-int-cast" % (prefix, b["root"]), not casts, ctx.where(f),
                          "the float writer does not cast its value to an integer type" if not casts else "the float is cast: `%s as %s`" % (sir.expr_str(casts[0]["e"])[:30], casts[0]["ty"]),
                          witness=None if not casts else "{{ 1e19 }} emits 9223372036854775807"))
    # floats are spelled by `Display` only (plain decimal digits, which the expression parser reads back); the exponent formats
    # write `e21` / `e-7` forms whose sign conventions the parser and ECMAScript do not share with Rust
    expf = []
    for b in ctx.mir.bodies:
        if b["crate"] != "glass_easel_template_compiler":
            continue
        for c in b["calls"]:
            if re.search(r"new_(lower|upper)_exp::<&?f(32|64)>|as std::fmt::(LowerExp|UpperExp)>::fmt", c["generic"]):
                expf.append("%s formats a float with an exponent format" % b["root"].split("::")[-1])
    obs.append(ob("%s/float-display/no-exponent-format" % prefix, not expf, "escape.rs", "; ".join(sorted(set(expf))[:2]) if expf else "no float is written with `{:e}` / `{:E}`",
                  witness=None if not expf else "{{ 1e21 }} is printed as 1e+21, which the parser rejects"))
    pcs = float_sites(ctx.pc_mir, {"poscontrol"})
    ok = any(b["root"] == "float_display" and not g for b, c, g in pcs)
    obs.append(ob("%s/float-display/positive-control" % prefix, ok, "fixtures/poscontrol", "detector finds the unguarded f64 Display of the fixture: %s" % ok))
    return obs
