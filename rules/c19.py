"""C19 - stylesheet source maps point each output token at its source token (structural half)."""
from rules import csspacks as cp

RULE = 'C19.src/sampled-at-token: a token position is sampled directly before a one-token read, comments are skipped by re-sampling; C19.step: skipping a comment consumes nothing else; C19.src/rpx-name: the name token is rebuilt from the matched token own fields. C19.col: every append advances utf16_len by the UTF-16 length of exactly the appended slice (or 1 for one ASCII character); append_token registers (generated column, token line, token column) after the separator and before the token text; only the appenders write these fields. C19.src: rewritten tokens carry the original token as name and position; synthesised closing brackets point at their opening bracket; positions are taken before the token is consumed and are 0-based UTF-16.'
EXPLANATION = ("The token-dispatch loops of the stylesheet compiler are located by role in the expanded syntax tree and their arms, "
               "flags and field writers (MIR) are checked against the rule; no stylesheet is ever transformed.")
ASSUMPTIONS = ["cssparser tokenises and serialises per CSS Syntax 3", "refs/css_refs.json lists rule-bearing at-rules and math functions correctly",
               "token-stream equality of concrete outputs is not decided"]


def run(ctx):
    obs, ok = cp.anchors(ctx, 'C19')
    if not ok:
        return obs
    obs += cp.sourcemap_rules(ctx, 'C19')
    obs += cp.sep_rule(ctx, 'C19')
    obs += cp.separator_condition_rule(ctx, 'C19')
    obs += cp.step_rules(ctx, 'C19')
    obs += cp.source_token_rules(ctx, 'C19')
    # every rewrite works on tokens: no source text is copied into the output (wave 10; shared by the stylesheet packs)
    obs += cp.tokens_only_rule(ctx, 'C19')
    # wave 10: the tokens synthesised for a converted `:host` rule point at the rule (shared with C17)
    import re as _re
    obs += [o for o in cp.host_rules(ctx, 'C19') if _re.search(r'host-selector/position', o['key'])]
    return obs
