"""C17 - :host conversion partitions rules without loss (structural half)."""
from rules import csspacks as cp

RULE = 'C17.rules: every rule-bearing at-rule of refs/css_refs.json has its block parsed as a rule list (so a nested :host is seen). C17.only/detection: `:host` is recognised by exact comparison and anything else falls back to the ordinary selector path. C17.pair: write_in_low_priority sets and clears the stream flag around its body and opens/closes one wrapper per enclosing at-rule on every path; wrap_at_rule_output pushes/pops around the nested rule list; the at-rule prelude text is captured for replay. C17.only: the two outputs, the flag and the at-rule stack are mutated only by their owner functions (MIR field-writer query); an illegal :host combination writes to neither stream and warns; everything is behind options.convert_host; :host declarations go through the ordinary value routine.'
EXPLANATION = ("The token-dispatch loops of the stylesheet compiler are located by role in the expanded syntax tree and their arms, "
               "flags and field writers (MIR) are checked against the rule; no stylesheet is ever transformed.")
ASSUMPTIONS = ["cssparser tokenises and serialises per CSS Syntax 3", "refs/css_refs.json lists rule-bearing at-rules and math functions correctly",
               "token-stream equality of concrete outputs is not decided"]


def run(ctx):
    obs, ok = cp.anchors(ctx, 'C17')
    if not ok:
        return obs
    obs += cp.host_rules(ctx, 'C17')
    obs += cp.rules_rule(ctx, 'C17')
    obs += cp.host_extra_rules(ctx, 'C17')
    obs += cp.warning_sink_rule(ctx, 'C17')
    # the low-priority stream is written through the serialising appenders only (shared with C08.sep)
    obs += [o for o in cp.sep_rule(ctx, 'C17') if '/owners/' in o['key']]
    # the options are read-only while a sheet is compiled (wave 9; shared by C08, C09, C10, C17)
    obs += cp.options_untouched_rule(ctx, 'C17')
    # every rewrite works on tokens: no source text is copied into the output (wave 10; shared by the stylesheet packs)
    obs += cp.tokens_only_rule(ctx, 'C17')
    return obs
