"""C04 - creation renders the node tree that WXML semantics define (protocol-conformance half)."""
import json, os, re
import sir
import emitseq as es
import tsproto

RULE = ("C04.proto: every runtime call the generator can emit (T E B F S J, R.*, aliases L M O resolved through their declarations) exists "
        "in proc_gen_wrapper.ts and is emitted with an argument count inside [required, declared] on every control-flow path of its "
        "statement; the child-callback parameter strings are prefixes of DefineChildren's parameter list in order; each element kind's "
        "creation call letter is contained in the parameter prefix its ArgLevel selects; the wx:for callback splice order equals "
        "DefineForLoop.itemCallback; the template function and the binding-map closure have the arities of ProcGen / BindingMapGen. "
        "C04.family: every field of ElementKind::Normal/Slot/Pure is consumed by the element emitter and reaches its own channel "
        "(class->R.c, style->R.y, id->R.i, data->R.d, mark->R.m, plain/model->R.r, change->R.p, worklet->R.wl, extra-attr->R.a, "
        "events->R.v, slot values->R.l, generics->2nd argument of E). C04.branch: the branch selector and the dispatcher of wx:if use the "
        "same index expression with default 0. C04.text: static text is emitted through gen_lit_str only on creation, dynamic text "
        "through Y(); whitespace-only text nodes are dropped by the parser's own whitespace class.")
EXPLANATION = ("Conformance between the generator's emitted call skeletons and the TypeScript runtime signatures, and the routing of every "
               "attribute family to its channel, are decided from both sources; nothing is rendered.")
ASSUMPTIONS = ["proc_gen_wrapper.ts implements the documented semantics of each channel", "what is rendered (text concatenation, if/for semantics) is not decided"]

REFS = os.path.join(os.path.dirname(os.path.dirname(os.path.abspath(__file__))), "refs")
LETTER_TYPES = {"T": "DefineTextNode", "E": "DefineElement", "B": "DefineIfGroup", "F": "DefineForLoop", "S": "DefineSlot", "J": "DefinePureVirtualNode"}


def stmt_paths(tokens, limit=512):
    res = [""]
    for t in tokens:
        if t[0] == "lit":
            res = [r + t[1] for r in res]
        elif t[0] == "hole":
            res = [r + "\x00" for r in res]
        elif t[0] == "call":
            if t[1] == "write_as_extra_argument":
                res = [r + x for r in res for x in ("", ",\x00")]
            else:
                res = [r + "\x00" for r in res]
        elif t[0] == "if":
            a = stmt_paths(t[2], limit)
            b = stmt_paths(t[3], limit) if t[3] else [""]
            res = [r + x for r in res for x in sorted(set(a + b))]
        elif t[0] == "match":
            alts = set()
            for _p, body in t[2]:
                alts.update(stmt_paths(body, limit))
            res = [r + x for r in res for x in sorted(alts)]
        elif t[0] == "for":
            a = sorted(set(stmt_paths(t[2], limit)))
            two = [x + y for x in a for y in a][:32]
            res = [r + x for r in res for x in sorted(set([""] + a + two))]
        elif t[0] == "closure-call":
            if t[1] == "paren":
                inner = [""]
                for c in t[3]:
                    inner = [i + x for i in inner for x in stmt_paths(c, limit)]
                res = [r + "(" + x + ")" for r in res for x in sorted(set(inner))]
            elif t[1] in ("function_args", "function", "function_dyn_args", "brace_block"):
                res = [r + "\x02" for r in res]
            elif t[1] == "to_proc_gen_write_map":
                pass
            elif t[1] == "expr_stmt":
                pass
            else:
                res = [r + "\x02" for r in res]
        if len(res) > limit:
            res = sorted(set(res))[:limit]
    return sorted(set(res))


def calls_in(text):
    """[(callee, nargs)] for protocol-looking calls in an emitted statement skeleton"""
    out = []
    for m in re.finditer(r"(?<![\w$.\x00])(R\.\w+|[A-Z])\(", text):
        name = m.group(1)
        i = m.end() - 1
        depth = 0
        nargs = 0
        seen_any = False
        j = i
        q = None
        closed = False
        while j < len(text):
            c = text[j]
            if q:
                if c == "\\":
                    j += 1
                elif c == q:
                    q = None
            elif c in "\"'":
                q = c
                seen_any = seen_any or depth == 1
            elif c in "([{":
                depth += 1
                if depth > 1:
                    seen_any = True
            elif c in ")]}":
                depth -= 1
                if depth == 0:
                    closed = True
                    break
            elif c == "," and depth == 1:
                nargs += 1
            elif depth == 1 and not c.isspace():
                seen_any = True
            j += 1
        if closed:
            out.append((name, nargs + 1 if seen_any else 0))
    return out


def literal_params(tc):
    """fn qual -> {param name: set of string literals passed at every call site} for &str parameters of emitter functions"""
    out = {}
    fns = [f for f in tc.fns if f.body and "proc_gen" in f.module]
    for f in fns:
        for i, p in enumerate(f.params):
            ty = (p.get("ty") or "").replace(" ", "")
            if p.get("self") or not ty.startswith("&") or "str" not in ty:
                continue
            name = p["pat"].get("name")
            has_self = any(q.get("self") for q in f.params)
            vals = set()
            complete = True
            for g in fns:
                for n in sir.walk(g.body):
                    if n.get("k") in ("call", "mcall") and sir.call_name(n) == f.name:
                        pos = i - (1 if has_self and n.get("k") == "mcall" else 0)
                        if 0 <= pos < len(n["args"]):
                            a = sir.strip_ref(n["args"][pos])
                            if a.get("k") == "lit" and a.get("t") == "str":
                                vals.add(a["v"])
                            else:
                                complete = False
            if vals and complete:
                out.setdefault(f.qual, {})[name] = vals
    return out


def expand_params(path, stmt_tokens, subst):
    """substitute holes that are literal-valued parameters (e.g. the setter name `{method_name}(N,`)"""
    if not subst:
        return [path]
    holes = []

    def rec(ts):
        for t in ts:
            if t[0] == "hole":
                holes.append(t[1])
            elif t[0] == "call":
                holes.append(None)
            elif t[0] == "if":
                rec(t[2]); rec(t[3])
            elif t[0] == "match":
                for _p, b in t[2]:
                    rec(b)
            elif t[0] == "for":
                rec(t[2])
            elif t[0] == "closure-call" and t[1] == "paren":
                for c in t[3]:
                    rec(c)
    rec(stmt_tokens)
    names = [h for h in holes if h in subst]
    if not names:
        return [path]
    # the statement skeleton does not record which hole is which on this path; substitute when the parameter is written
    # directly before `(` - the only way a callee name can be a hole
    outs = [path]
    for nm in set(names):
        new = []
        for pth in outs:
            if "\x00(" in pth:
                for v in sorted(subst[nm]):
                    new.append(pth.replace("\x00(", v + "(", 1))
            else:
                new.append(pth)
        outs = new
    return outs


def all_statements(tokens, acc=None):
    acc = acc if acc is not None else []
    for t in tokens:
        if t[0] == "closure-call":
            if t[1] == "expr_stmt":
                acc.append(t[3][0] if t[3] else [])
            for c in t[3]:
                all_statements(c, acc)
        elif t[0] == "if":
            all_statements(t[2], acc)
            all_statements(t[3], acc)
        elif t[0] == "match":
            for _p, b in t[2]:
                all_statements(b, acc)
        elif t[0] == "for":
            all_statements(t[2], acc)
    return acc


def proto_rule(ctx):
    ob = ctx.ob
    tc = ctx.tc
    obs = []
    ts = ctx.ts()
    if not ts:
        return [ob("C04.proto/ts", False, "glass-easel/src/tmpl/proc_gen_wrapper.ts", "runtime source not found")]
    P = tsproto.Proto(ts)
    if len(P.members) < 15 or "DefineChildren" not in P.types:
        return [ob("C04.proto/ts", False, "glass-easel/src/tmpl/proc_gen_wrapper.ts", "could not read the runtime signatures (members %d)" % len(P.members))]
    # aliases: set_var_on_top_scope_init("L", |w| write!(w, "R.c"))
    aliases = {}
    for f in tc.fns:
        if not f.body or "proc_gen" not in f.module:
            continue
        for n in sir.walk(f.body):
            if n.get("k") == "mcall" and n["m"] == "set_var_on_top_scope_init" and n["args"] and n["args"][0].get("k") == "lit":
                name = n["args"][0]["v"]
                clo = [a for a in n["args"] if a.get("k") == "closure"]
                if clo:
                    lits = ["".join(p[1] for p in sir.write_fmt_call(x)[1] if p[0] == "lit") for x in sir.walk(clo[0]["body"]) if sir.write_fmt_call(x)]
                    if len(lits) == 1 and re.fullmatch(r"R\.\w+", lits[0]):
                        aliases[name] = lits[0]
    obs.append(ob("C04.proto/aliases", set(aliases) >= {"L", "M", "O"}, "proc_gen/tag.rs", "one-letter aliases resolved from their declarations: %s" % aliases))
    # collect arities
    seen = {}
    n_stmts = 0
    from rules.c06 import statements as c06_statements
    lit_params = literal_params(tc)
    for f in tc.fns:
        if not f.body or not ("proc_gen" in f.module or "binding_map" in f.module):
            continue
        toks = es.linearize(f.body, top=True)
        subst = lit_params.get(f.qual, {})
        for st, in_map in c06_statements(toks):
            n_stmts += 1
            for path0 in stmt_paths(st):
                for path in expand_params(path0, st, subst):
                  for name, nargs in calls_in(path):
                    if in_map and name in ("E", "T"):
                        name = {"E": "BindingMapGen.elementUpdated", "T": "BindingMapGen.updateText"}[name]
                    full = aliases.get(name, name)
                    seen.setdefault(full, {"min": nargs, "max": nargs, "fns": set(), "ex": path})
                    s = seen[full]
                    s["min"] = min(s["min"], nargs)
                    if nargs > s["max"]:
                        s["max"] = nargs
                        s["ex"] = path
                    s["fns"].add(f.qual)
    exceptions = {"R.setFnFilter": "two filters are passed, the runtime of this repository takes one (extra argument ignored)"}
    for full, s in sorted(seen.items()):
        where = sorted(s["fns"])[0]
        ex = s["ex"].replace("\x00", "{}").replace("\x02", "<fn>")[:90]
        if full.startswith("R."):
            mname = full[2:]
            params = P.members.get(mname)
            if params is None:
                obs.append(ob("C04.proto/call/%s" % full, False, where, "generated code calls %s(), which ProcGenWrapper does not define" % full))
                continue
        elif full.startswith("BindingMapGen."):
            bmg = {p["name"]: p for p in P.types.get("BindingMapGen", [])}
            cb = bmg.get(full.split(".")[1])
            mm = re.match(r"^\((.*)\)\s*=>", cb["type"], re.S) if cb else None
            if not mm:
                obs.append(ob("C04.proto/call/%s" % full, False, where, "callback %s not found in BindingMapGen" % full))
                continue
            params = tsproto.parse_params(mm.group(1))
        elif full in LETTER_TYPES:
            params = P.types.get(LETTER_TYPES[full])
            if params is None:
                obs.append(ob("C04.proto/call/%s" % full, False, where, "type %s not found in the runtime" % LETTER_TYPES[full]))
                continue
        else:
            continue
        req, req_strict, declared = P.arity(params)
        ok = s["min"] >= req and s["max"] <= declared
        detail = "%s emitted with %d..%d arguments; runtime declares %d (required %d): %s" % (full, s["min"], s["max"], declared, req, [p["name"] + ("?" if p["optional"] else "") for p in params])
        if not ok and full in exceptions and s["max"] == declared + 1 and s["min"] >= req:
            obs.append(ob("C04.proto/call/%s" % full, True, where, detail + " - tabled: " + exceptions[full]))
            continue
        obs.append(ob("C04.proto/call/%s" % full, ok, where, detail + ("" if ok else "; e.g. %r" % ex), sample={"callee": full, "min": s["min"], "max": s["max"], "declared": declared}))
    need = {"T", "E", "B", "F", "S", "J", "R.c", "R.y", "R.i", "R.d", "R.m", "R.r", "R.v", "R.p", "R.wl", "R.a", "R.l", "R.s"}
    missing = need - set(seen)
    if missing:
        obs.append(ob("C04.floor/calls", False, "proc_gen/tag.rs", "protocol calls not found in the generator (extraction incomplete or channel removed): %s" % sorted(missing)))
    # inside binding-map closures E and T are elementUpdated / updateText
    bm = P.types.get("BindingMapGen", [])
    obs.append(ob("C04.proto/BindingMapGen", len(bm) == 3, "proc_gen_wrapper.ts", "BindingMapGen takes %d parameters; the generator writes (D,E,T)" % len(bm)))
    wm = [f for f in tc.fns if f.name == "to_proc_gen_write_map" and f.body]
    ok = len(wm) == 1 and any(n.get("k") == "mcall" and n["m"] == "function_args" and n["args"] and n["args"][0].get("v") == "D,E,T" for n in sir.walk(wm[0].body))
    obs.append(ob("C04.proto/binding-map-closure", ok, "binding_map.rs", "updaters are emitted as (D,E,T)=>{..}: %s" % ok))

    # parameter strings
    dc = [p["name"] for p in P.types["DefineChildren"]]
    dct = [p["type"] for p in P.types["DefineChildren"]]
    full = "C,T,E,B,F,S,J,V,W"
    letters = full.split(",")
    okorder = len(dc) == len(letters) and all(LETTER_TYPES.get(l) is None or LETTER_TYPES[l] == dct[i] for i, l in enumerate(letters))
    obs.append(ob("C04.proto/DefineChildren-order", okorder, "proc_gen_wrapper.ts", "DefineChildren parameters %s with types %s correspond to %s" % (dc, dct[1:7], full)))
    fa = [f for f in tc.fns if f.name == "to_proc_gen_function_args" and f.body]
    if len(fa) != 1:
        obs.append(ob("C04.proto/arg-levels", False, "proc_gen/tag.rs", "argument-level table not found"))
        level_str = {}
    else:
        f = fa[0]
        level_str = {}
        for n in sir.walk(f.body):
            if n.get("k") == "arm" and n["body"].get("k") == "lit" and n["body"].get("t") == "str":
                for v in sir.pat_variants(n["pat"]):
                    level_str[v] = n["body"]["v"]
        bad = [s for s in level_str.values() if not (full == s or full.startswith(s + ","))]
        obs.append(ob("C04.proto/arg-prefixes", bool(level_str) and not bad, ctx.where(f), "callback parameter strings %s are prefixes of %s" % (sorted(level_str.values(), key=len), full) if not bad else "not a prefix of %s: %s" % (full, bad)))
        # enum order = string length order
        en = None
        for n in sir.walk(f.node, into_items=True):
            if n.get("k") == "item" and n["item"].get("k") == "enum" and n["item"]["name"] == "ArgLevel":
                en = n["item"]
        if en:
            names = [v["name"] for v in en["variants"]]
            lens = [len(level_str.get(nm, "")) for nm in names]
            obs.append(ob("C04.proto/arg-level-order", lens == sorted(lens) and all(lens), ctx.where(f), "ArgLevel variants in increasing order select increasingly long prefixes: %s" % list(zip(names, lens))))
        # kind -> level
        kind_level = {}
        for n in sir.walk(f.node, into_items=True):
            if n.get("k") == "arm" and n["body"].get("k") == "path" and len(n["body"]["segs"]) == 2 and n["body"]["segs"][0] == "ArgLevel":
                for sub in sir.walk(n["pat"]):
                    if sub.get("k") in ("p_struct", "p_ts", "p_path") and sub["segs"][-1] in ("Text", "Normal", "If", "For", "Slot", "Pure", "Include", "TemplateRef", "Comment", "UnknownMetaTag"):
                        kind_level[sub["segs"][-1]] = n["body"]["segs"][1]
        # creation letter of each kind
        ef = [g for g in tc.fns if g.base == "Element" and g.name == "to_proc_gen" and g.body]
        if ef:
            g = ef[0]
            m = None
            for n in sir.walk(g.body):
                if n.get("k") == "match" and len(n["arms"]) >= 6:
                    m = n
                    break
            for a in (m["arms"] if m else []):
                vs = [v for v in sir.pat_variants(a["pat"]) if v in kind_level]
                if not vs:
                    continue
                toks = es.linearize(a["body"], top=True)
                # top-level statements of the arm (not inside nested function literals)
                letters_used = set()
                for st in top_level_statements(toks):
                    for path in stmt_paths(st):
                        mm = re.match(r"^([A-Z])\(", path)
                        if mm and mm.group(1) in LETTER_TYPES:
                            letters_used.add(mm.group(1))
                for v in vs:
                    pref = level_str.get(kind_level[v], "")
                    ok = bool(letters_used) and all(l in pref.split(",") for l in letters_used)
                    obs.append(ob("C04.proto/kind-letter/%s" % v, ok, ctx.where(g), "%s nodes are created by %s(); their ArgLevel %s selects the callback parameters %r" % (v, "/".join(sorted(letters_used)) or "?", kind_level[v], pref),
                                  witness=None if ok else "a children function whose only special child is of this kind does not receive the callback it calls: ReferenceError at render time"))
        inner = [g for g in tc.fns if g.name == "to_proc_gen_define_children_content_inner" and g.body]
        if inner and "Text" in kind_level:
            pref = level_str.get(kind_level["Text"], "")
            obs.append(ob("C04.proto/kind-letter/Text", "T" in pref.split(","), ctx.where(inner[0]), "text nodes call T(); ArgLevel %s selects %r" % (kind_level["Text"], pref)))
    # wx:for callback splice order
    ic = None
    for p in P.types.get("DefineForLoop", []):
        if p["name"] == "itemCallback":
            mm = re.match(r"^\((.*)\)\s*=>", p["type"], re.S)
            if mm:
                ic = [x["name"] for x in tsproto.parse_params(mm.group(1))]
    ef = [g for g in tc.fns if g.base == "Element" and g.name == "to_proc_gen" and g.body]
    if ic and ef:
        g = ef[0]
        spl = [n for n in sir.walk(g.body) if n.get("k") == "mcall" and n["m"] == "splice"]
        ok = None
        d = "the place where the loop arguments are inserted is not in a form this rule reads"
        # the list of loop arguments: an array / vec! literal naming them, inserted after the first fixed argument either by
        # `splice(1..1, ..)` or by `first.chain(loop_args).chain(rest)`
        lists = [n for n in sir.walk(g.body) if (n.get("k") == "array" or (n.get("k") == "mac" and n.get("name") == "vec")) and
                 len([x for x in sir.walk(n) if x.get("k") == "path" and len(x["segs"]) == 1 and x["s"].startswith("arg_scope")]) >= 3]
        chain_form = None
        if not spl and len(lists) == 1:
            lst = lists[0]
            lname = None
            for l_ in sir.walk(g.body):
                if l_.get("k") == "local" and l_.get("init") is lst and l_["pat"].get("k") == "p_ident":
                    lname = l_["pat"]["name"]
            for c2 in sir.walk(g.body):
                if c2.get("k") == "mcall" and c2["m"] == "chain" and c2["recv"].get("k") == "mcall" and c2["recv"]["m"] == "chain":
                    mid = sir.strip_ref(c2["recv"]["args"][0])
                    if mid is lst or (lname and sir.expr_str(mid) == lname):
                        head, tail_ = c2["recv"]["recv"], sir.strip_ref(c2["args"][0])
                        hn = sir.root_expr_name(head)
                        first_of = [l_ for l_ in sir.walk(g.body) if l_.get("k") == "local" and l_["pat"].get("name") == hn and l_.get("init") is not None
                                    and l_["init"].get("k") == "mcall" and l_["init"]["m"] == "next" and sir.expr_str(l_["init"]["recv"]) == sir.expr_str(tail_)]
                        if first_of:
                            chain_form = lst
        if spl or chain_form is not None:
            s0 = spl[0] if spl else None
            rng = sir.expr_str(s0["args"][0]).replace(" ", "") if spl else "1..1"
            names = []
            for x in sir.walk(s0["args"][1] if spl else chain_form):
                if x.get("k") == "path" and len(x["segs"]) == 1 and x["s"].startswith("arg_scope"):
                    names.append(x["s"])
            def camel(s):
                s = s.replace("arg_scope_", "")
                parts = s.split("_")
                return parts[0] + "".join(p.capitalize() for p in parts[1:])
            got = [camel(x) for x in names]
            ok = rng == "1..1" and got == ic[1:1 + len(got)] and len(got) == 5
            d = "generator splices %s at %s; itemCallback expects %s after isCreation" % (got, rng, ic[1:6])
            # and the rest of the callback parameters are T..J
            rest_ok = ic[6:] == ["defineTextNode", "defineElement", "defineIfGroup", "defineForLoop", "defineSlot", "definePureVirtualNode"]
            ok = ok and rest_ok
            # args[i] bindings
            binds = {}
            for n in sir.walk(g.body):
                if n.get("k") == "local" and n["pat"].get("k") == "p_ident" and n.get("init") is not None:
                    mm = re.fullmatch(r"&args\[(\d+)\]", sir.expr_str(n["init"]).replace(" ", ""))
                    if mm and n["pat"]["name"].startswith("arg_scope"):
                        binds[n["pat"]["name"]] = int(mm.group(1))
            okb = all(binds.get(nm) == i + 1 for i, nm in enumerate(names))
            ok = ok and okb
            d += "; re-read as %s" % binds
        obs.append(ob("C04.proto/for-callback-order", ok, ctx.where(g), d))
    # template function: (R,C,D,U) and returned keys
    pg = P.types.get("ProcGen", [])
    tg = [g for g in tc.fns if g.base == "Template" and g.name == "to_proc_gen" and g.body]
    if tg:
        g = tg[0]
        fa_lits = [n["args"][0]["v"] for n in sir.walk(g.body) if n.get("k") == "mcall" and n["m"] == "function_args" and n["args"] and n["args"][0].get("k") == "lit"]
        ok = "R,C,D,U" in fa_lits and len(pg) == 4
        obs.append(ob("C04.proto/template-fn", ok, ctx.where(g), "template function parameters %s vs ProcGen %s" % (fa_lits, [p["name"] for p in pg])))
        rets = ["".join(p[1] if p[0] == "lit" else "{}" for p in sir.write_fmt_call(n)[1]) for n in sir.walk(g.body) if sir.write_fmt_call(n)]
        okr = any(r == "return {C:{},B:A}" for r in rets) and re.search(r"C:\s*DefineChildren", P.rets.get("ProcGen", "")) is not None and re.search(r"B\?:", P.rets.get("ProcGen", "")) is not None
        obs.append(ob("C04.proto/template-result", okr, ctx.where(g), "template function returns {C:<children>,B:A} as ProcGen declares: %s" % okr))
    return obs


def top_level_statements(tokens):
    out = []
    for t in tokens:
        if t[0] == "closure-call" and t[1] == "expr_stmt":
            out.append(t[3][0] if t[3] else [])
        elif t[0] == "if":
            out.extend(top_level_statements(t[2]))
            out.extend(top_level_statements(t[3]))
        elif t[0] == "match":
            for _p, b in t[2]:
                out.extend(top_level_statements(b))
    return out


def family_rule(ctx):
    ob = ctx.ob
    tc = ctx.tc
    obs = []
    channels = json.load(open(os.path.join(REFS, "attr_channels.json")))["channels"]
    ek = tc.enum("ElementKind")
    ef = [g for g in tc.fns if g.base == "Element" and g.name == "to_proc_gen" and g.body]
    if ek is None or not ef:
        return [ob("C04.family/anchor", False, "proc_gen/tag.rs", "element emitter not found")]
    g = ef[0]
    where = ctx.where(g)
    # aliases
    alias = {"L": "R.c", "M": "R.m", "O": "R.r"}

    def callees_of(fn_body, depth=0, seen=None, recv_type=None):
        """protocol callee names written by a function body, following calls into the crate one level deep"""
        seen = seen if seen is not None else set()
        names = set()
        for n in sir.walk(fn_body):
            wf = sir.write_fmt_call(n)
            if wf:
                text = "".join(p[1] if p[0] == "lit" else "\x00" for p in wf[1])
                for m in re.finditer(r"(?<![\w$.])(R\.\w+|[LMO])\(", text):
                    names.add(alias.get(m.group(1), m.group(1)))
                # method name passed as a hole: `{}(N,` with a literal argument at the call site is handled by the caller
            if n.get("k") in ("call", "mcall") and depth < 3:
                cn = sir.call_name(n)
                # literal method-name arguments ("L", "R.y", "R.d", "M", "R.i")
                for a in n.get("args", []):
                    if a.get("k") == "lit" and a.get("t") == "str" and re.fullmatch(r"R\.\w+|[LMO]", a["v"]):
                        names.add(alias.get(a["v"], a["v"]))
                cn_l = (cn or "").split("::")[-1]
                helper = bool(cn_l) and not cn_l.startswith(("to_proc_gen", "write_attribute_value")) and \
                    len([h for h in tc.fns if h.name == cn_l and h.body and not h.base and "proc_gen" in h.module and not h.node.get("vis")]) == 1
                if helper:
                    cn = cn_l
                if cn and (cn.startswith(("to_proc_gen", "write_attribute_value")) or helper) and cn not in seen:
                    cands = [h for h in tc.fns if h.name == cn and h.body and "proc_gen" in h.module]
                    if len(cands) > 1 and recv_type:
                        cands = [h for h in cands if h.base == recv_type] or cands
                    for h in cands:
                        names |= callees_of(h.body, depth + 1, seen | {cn})
        return names
    m = None
    for n in sir.walk(g.body):
        if n.get("k") == "match" and len(n["arms"]) >= 6:
            m = n
            break
    for v in ek["variants"]:
        vn = v["name"]
        if vn not in ("Normal", "Slot", "Pure"):
            continue
        arm = None
        for a in m["arms"]:
            if vn in sir.pat_variants(a["pat"]):
                arm = a
        if arm is None:
            obs.append(ob("C04.family/%s" % vn, False, where, "no arm for %s" % vn))
            continue
        case = arm["pat"]
        bound = {}
        rest = False
        if case.get("k") == "p_struct":
            rest = case.get("rest")
            for fl in case["fields"]:
                bound[fl["name"]] = fl["pat"].get("name") if fl["pat"].get("k") == "p_ident" else None
        for fl in v["fields"]:
            fname = fl["name"]
            key = "C04.family/%s.%s" % (vn, fname)
            want = channels.get("%s.%s" % (vn, fname))
            if want is None:
                continue
            b = bound.get(fname)
            if b is None:
                if want == "-":
                    obs.append(ob(key, True, where, "field carries no runtime value (%s)" % ("ignored by pattern" if fname in bound else "not bound")))
                else:
                    obs.append(ob(key, False, where, "field `%s` of %s is %s by the element emitter: the attribute family never reaches the runtime" % (fname, vn, "ignored (`_`)" if fname in bound else "dropped by `..`")))
                continue
            if want == "-":
                obs.append(ob(key, True, where, "bound as `%s`" % b))
                continue
            # statements using the binding
            got = set()
            et = elem_type(fl["ty"])
            for n in sir.walk(arm["body"]):
                uses = False
                if n.get("k") == "for" and sir.root_expr_name(n["e"]) == b:
                    got |= callees_of(n["body"], recv_type=et)
                    for x in sir.walk(n["body"]):
                        if sir.write_fmt_call(x):
                            pass
                if n.get("k") == "match" and sir.root_expr_name(n["e"]) == b:
                    got |= callees_of(n)
                if n.get("k") in ("mcall", "call") and any(sir.root_expr_name(a) == b for a in n.get("args", [])) or (n.get("k") == "mcall" and sir.root_expr_name(n["recv"]) == b and n["m"].startswith("to_proc_gen")):
                    got |= callees_of({"k": "block", "stmts": [{"k": "expr", "e": n, "sp": n["sp"]}], "sp": n["sp"]})
            if want == "E.2":
                # generics: written inside the `E(tag,{..},` object
                text = es.show(es.linearize(arm["body"], top=True))
                ok = re.search(r"E\(.*\{.*\[for %s" % re.escape(b), text) is not None or ("for %s.iter" % b) in text
                obs.append(ob(key, ok, where, "generics are written into the 2nd argument of E(): %s" % ok))
                continue
            wants = set(want.split("|"))
            ok = bool(got & wants) and not (got - wants - {"R.devArgs", "R.s"})
            obs.append(ob(key, ok, where, "field `%s` reaches %s (expected channel %s)" % (fname, sorted(got) or "no runtime call", want),
                          witness=None if ok else "an element using this attribute family renders without it (or through the wrong setter)"))
    # CommonElementAttributes fields
    cf = [h for h in tc.fns if h.name == "to_proc_gen_without_slot" and h.body]
    st = tc.struct("CommonElementAttributes")
    if cf and st:
        h = cf[0]
        pat = None
        for n in sir.walk(h.body):
            if n.get("k") == "local" and n["pat"].get("k") == "p_struct" and n["pat"]["segs"][-1] == "CommonElementAttributes":
                pat = n["pat"]
        bound = {fl["name"]: (fl["pat"].get("name") if fl["pat"].get("k") == "p_ident" else None) for fl in pat["fields"]} if pat else {}
        for fl in st["fields"]:
            want = channels.get("Common.%s" % fl["name"])
            if want is None or want == "-":
                continue
            b = bound.get(fl["name"])
            key = "C04.family/Common.%s" % fl["name"]
            if b is None:
                obs.append(ob(key, False, ctx.where(h), "common attribute `%s` is ignored by the emitter" % fl["name"]))
                continue
            got = set()
            et = elem_type(fl["ty"])
            for n in sir.walk(h.body):
                if n.get("k") == "for" and sir.root_expr_name(n["e"]) == b:
                    got |= callees_of(n["body"], recv_type=et)
                if n.get("k") == "if" and n["cond"].get("k") == "let" and sir.root_expr_name(n["cond"]["e"]) == b:
                    got |= callees_of(n["then"], recv_type=et)
            wants = set(want.split("|"))
            ok = bool(got & wants) and not (got - wants)
            obs.append(ob(key, ok, ctx.where(h), "common attribute `%s` reaches %s (expected %s)" % (fl["name"], sorted(got), want)))
    return obs


def elem_type(ty):
    m = re.findall(r"[A-Z]\w+", ty or "")
    m = [x for x in m if x not in ("Vec", "Option", "Box", "Range", "Position")]
    return m[-1] if m else None


def branch_rule(ctx):
    ob = ctx.ob
    tc = ctx.tc
    ef = [g for g in tc.fns if g.base == "Element" and g.name == "to_proc_gen" and g.body]
    if not ef:
        return []
    g = ef[0]
    arm = None
    for n in sir.walk(g.body):
        if n.get("k") == "match" and len(n["arms"]) >= 6:
            for a in n["arms"]:
                if "If" in sir.pat_variants(a["pat"]):
                    arm = a
    if arm is None:
        return [ob("C04.branch/anchor", False, ctx.where(g), "wx:if arm not found")]
    sel, disp, default = [], [], []
    for n in sir.walk(arm["body"]):
        wf = sir.write_fmt_call(n)
        if not wf:
            continue
        text = "".join(p[1] if p[0] == "lit" else "{}" for p in wf[1])
        holes = [sir.expr_str(p[1]) for p in wf[1] if p[0] == "hole"]
        if text in ("?{}:", "{}?{}:"):
            sel.append(holes[-1])
        elif text.startswith("if({}==={})"):
            disp.append(holes[-1])
        elif text == "0":
            default.append(text)
    ok = bool(sel) and bool(disp) and len(set(sel + disp)) == 1 and default == ["0"]
    return [ob("C04.branch/index", ok, ctx.where(g), "branch selector writes %s, dispatcher compares with %s, default %s" % (sel, disp, default),
               witness=None if ok else "wx:if / wx:elif / wx:else: the branch chosen by the key is not the one whose children are rendered")]


def text_rule(ctx):
    ob = ctx.ob
    tc = ctx.tc
    obs = []
    inner = [g for g in tc.fns if g.name == "to_proc_gen_define_children_content_inner" and g.body]
    if inner:
        g = inner[0]
        lits = ["".join(p[1] if p[0] == "lit" else "{%s}" % sir.expr_str(p[1]) for p in sir.write_fmt_call(n)[1]) for n in sir.walk(g.body) if sir.write_fmt_call(n)]
        ok_static = any(re.fullmatch(r"C\?T\(\{gen_lit_str\(&?value\)\}\):T\(\)", l) for l in lits)
        ok_dyn = any(l.startswith("?T(Y(") for l in lits) and any(l == "):T()" for l in lits)
        obs.append(ob("C04.text/static", ok_static, ctx.where(g), "static text: C?T(<string literal>):T() : %s" % ok_static))
        obs.append(ob("C04.text/dynamic", ok_dyn, ctx.where(g), "dynamic text is rendered through Y() (null/undefined as empty): %s" % ok_dyn))
    pv = [g for g in tc.fns if g.name == "parse_vec_node" and g.body]
    if pv:
        g = pv[0]
        s = " ".join(sir.expr_str(n) for n in sir.walk(g.body) if n.get("k") == "mcall" and n["m"] == "trim_matches")
        ok = "is_template_whitespace" in s
        obs.append(ob("C04.text/whitespace-drop", ok, ctx.where(g), "whitespace-only text is recognised with the parser's own whitespace class: %s" % ok))
    # mixed text is built from Plus + ToStringWithoutUndefined
    vp = [g for g in tc.fns if g.base == "Value" and g.name == "parse_until_before" and g.body]
    if vp:
        g = vp[0]
        # (the wrapping may be done by a nested fn or by a private helper of the module)
        reach_nodes = list(sir.walk_reach(tc, g, into_items=True))
        has_plus = any(n.get("k") == "struct" and n["segs"][-1] == "Plus" for n in reach_nodes)
        has_wrap = any(n.get("k") == "struct" and n["segs"][-1] == "ToStringWithoutUndefined" for n in reach_nodes)
        obs.append(ob("C04.text/mixed", has_plus and has_wrap, ctx.where(g), "mixed text is `literal + Y(binding)` chains: Plus=%s, ToStringWithoutUndefined=%s" % (has_plus, has_wrap)))
    return obs


def concat_rule(ctx):
    """C04.text/concat: every operand of the `+` chains the parser builds for mixed text is a string literal or is wrapped in
    ToStringWithoutUndefined (so null/undefined render as empty) - a bare binding may only stand alone."""
    ob = ctx.ob
    tc = ctx.tc
    vp = [g for g in tc.fns if g.base == "Value" and g.name == "parse_until_before" and g.body]
    if not vp:
        return [ob("C04.text/concat", False, "parse/tag.rs", "Value::parse_until_before not found")]
    g = vp[0]
    pm = sir.parent_map(g.node)
    obs = []
    k = 0

    def binding_before(name, node):
        """nearest `let name = init` preceding `node` in an enclosing block"""
        cur = node
        while id(cur) in pm:
            par = pm[id(cur)]
            if par.get("k") == "block":
                idx = None
                for i, st in enumerate(par["stmts"]):
                    if st is cur or (st.get("k") == "expr" and st["e"] is cur) or (st.get("k") == "local" and st.get("init") is cur):
                        idx = i
                if idx is not None:
                    for st in reversed(par["stmts"][:idx]):
                        if st.get("k") == "local" and st["pat"].get("name") == name:
                            return st.get("init")
            cur = par
        return None

    def wrapped(e, depth=0):
        if e is None or depth > 6:
            return False, "unknown"
        e0 = e
        if e.get("k") == "call":
            cn = sir.call_name(e)
            if cn == "wrap_to_string":
                return True, "wrap_to_string(..)"
            if cn == "new" and e["args"]:
                a = e["args"][0]
                if a.get("k") == "struct" and a["segs"][-1] in ("LitStr", "ToStringWithoutUndefined"):
                    return True, a["segs"][-1]
                return wrapped(a, depth + 1)
        if e.get("k") == "struct" and e["segs"][-1] in ("LitStr", "ToStringWithoutUndefined"):
            return True, e["segs"][-1]
        if e.get("k") == "if":
            c = sir.expr_str(e["cond"])
            t = e["then"]["stmts"][-1]["e"] if e["then"]["stmts"] else None
            el = e.get("else")
            el = el["stmts"][-1]["e"] if el is not None and el.get("k") == "block" and el["stmts"] else el
            wt, _ = wrapped(t, depth + 1) if t is not None else (False, "")
            we, _ = wrapped(el, depth + 1) if el is not None else (False, "")
            # `if has_wrap_to_string { x } else { wrap_to_string(x) }` : x is already a wrapped chain when the flag is set
            if c in ("has_wrap_to_string", "!has_wrap_to_string"):
                # the flag describes the chain built so far: it must be read before this branch sets it
                cur = e
                while id(cur) in pm:
                    par = pm[id(cur)]
                    if par.get("k") == "block":
                        idx = [i for i, st in enumerate(par["stmts"]) if any(y is cur for y in (st, st.get("e"), st.get("init")))]
                        if idx:
                            for st in par["stmts"][:idx[0]]:
                                if any(y.get("k") == "assign" and sir.expr_str(y["l"]) == "has_wrap_to_string" for y in sir.walk(st)):
                                    return False, "decided by has_wrap_to_string AFTER this branch has already set it (the operand built before is never wrapped)"
                            break  # only the straight-line statements of the same block
                    if par.get("k") in ("arm", "closure", "fn"):
                        break
                    cur = par
            if c == "has_wrap_to_string" and we and t is not None and t.get("k") == "path":
                return True, "already wrapped chain or wrap_to_string(..)"
            if c == "!has_wrap_to_string" and wt and el is not None and el.get("k") == "path":
                return True, "already wrapped chain or wrap_to_string(..)"
            return (wt and we), "if/else"
        if e.get("k") == "path" and len(e["segs"]) == 1:
            from rules.c02 import FnScope
            r = FnScope(g.node, []).resolve(e["s"], e)   # the innermost binding that is visible here
            if r is not None and r[0] == "let" and r[1] is not None and r[1] is not e0 and not r[2]:
                return wrapped(r[1], depth + 1)
            if r is None or r[0] not in ("match",):
                init = binding_before(e["s"], e)
                if init is not None and init is not e0:
                    return wrapped(init, depth + 1)
            # bound by a `Some(name)` pattern over an Option-valued local: every `Some(X)` the local can hold must be wrapped
            if r is not None and r[0] == "match" and r[1] is not None and sir.strip_ref(r[1]).get("k") == "path":
                r2 = FnScope(g.node, []).resolve(sir.strip_ref(r[1])["s"], r[3])
                src = r2[1] if r2 is not None and r2[0] == "let" else binding_before(sir.strip_ref(r[1])["s"], r[3])
                if src is not None and src.get("k") == "match":
                    res = []
                    for a in src["arms"]:
                        b = a["body"]
                        while b.get("k") == "block" and b["stmts"] and b["stmts"][-1].get("k") == "expr":
                            b = b["stmts"][-1]["e"]
                        if b.get("k") == "path" and b["segs"][-1] == "None":
                            continue
                        if b.get("k") == "call" and sir.call_name(b) == "Some" and b["args"]:
                            x = b["args"][0]
                            gd_ = sir.expr_str(a["guard"]).replace(" ", "") if a.get("guard") is not None else ""
                            if x.get("k") == "path" and gd_ == "has_wrap_to_string":
                                res.append(True)   # an already wrapped chain, kept as it is
                            else:
                                res.append(wrapped(x, depth + 1)[0])
                        else:
                            res.append(False)
                    if res:
                        return all(res), "each value the pending left part can take is a string piece or wrapped (%d cases)" % len(res)
            return False, "bare `%s`" % e["s"]
        return False, sir.expr_str(e)[:40]
    for n in sir.walk(g.node, into_items=True):
        if n.get("k") == "struct" and n["segs"][-1] == "Plus":
            for fl in n["fields"]:
                if fl["name"] not in ("left", "right"):
                    continue
                k += 1
                okk, why = wrapped(fl["e"])
                obs.append(ob("C04.text/concat/%d-%s" % ((k + 1) // 2, fl["name"]), okk, ctx.where(g),
                              "operand `%s` of a text concatenation is %s" % (fl["name"], why) + ("" if okk else ": a null/undefined binding would render as \"null\"/\"undefined\""),
                              witness=None if okk else "<div>{{a}}{{b}}</div> with a undefined renders \"undefinedB\""))
    if k < 2:
        obs.append(ob("C04.floor/concat", False, ctx.where(g), "only %d concatenation operands found (floor 2)" % k))
    return obs


def child_lists_rule(ctx):
    """C04.proto/child-lists: the node lists scanned to choose the callback parameters are the node lists emitted inside the callback"""
    ob = ctx.ob
    tc = ctx.tc
    obs = []
    n = 0
    for f in tc.fns:
        if not f.body or "proc_gen" not in f.module or "tag" not in f.module:
            continue
        for c in sir.walk(f.body):
            if c.get("k") == "call" and (sir.call_path(c) or "").endswith("to_proc_gen_define_children") and len(c["args"]) >= 4:
                n += 1
                scanned = roots_of(c["args"][0], f)
                emitted = set()
                clo = [a for a in c["args"] if a.get("k") == "closure"]
                for cl in clo:
                    for x in sir.walk(cl["body"]):
                        if x.get("k") == "call" and (sir.call_path(x) or "").endswith("to_proc_gen_define_children_content") and x["args"]:
                            emitted |= roots_of(x["args"][0], f, at=x)
                missing = emitted - scanned
                obs.append(ob("C04.proto/child-lists/%s#%d" % (f.qual, n), not missing and bool(emitted), ctx.where(f),
                              "callback parameters are chosen from %s; the callback emits %s" % (sorted(scanned), sorted(emitted)) + ("" if not missing else ": nodes of %s can call a creator that is not among the parameters" % sorted(missing)),
                              witness=None if not missing else "<block wx:if=\"{{c}}\">x</block><div wx:else/> : the else branch calls E(), which the branch function does not receive"))
    if n < 4:
        obs.append(ob("C04.floor/child-lists", False, "proc_gen/tag.rs", "only %d children definitions found (floor 4)" % n))
    return obs


_scopes = {}
KINDS = ("@Normal", "@Pure", "@For", "@If", "@Slot", "@TemplateRef", "@Include")


def roots_of(e, f, at=None, depth=0, seen=None):
    """fields of the matched ElementKind (children, branches, else_branch, ..) an expression is derived from; names are
    resolved lexically (rules.c02.FnScope) so that equally named loop variables of different loops are kept apart."""
    from rules.c02 import FnScope
    if id(f) not in _scopes:
        _scopes[id(f)] = FnScope(f.node, [])
    sc = _scopes[id(f)]
    seen = seen if seen is not None else set()
    out = set()
    if depth > 10:
        return out
    for x in sir.walk(e):
        if x.get("k") != "path" or len(x["segs"]) != 1:
            continue
        nm = x["s"]
        r = sc.resolve(nm, x)
        if r is None:
            continue
        key = (nm, id(r[3]))
        if key in seen:
            continue
        seen.add(key)
        how = r[0]
        if how == "match":
            path = r[2]
            if any(p in KINDS for p in path) and path and not path[-1].startswith("@"):
                out.add([p for p in path if not p.startswith("@")][0])
            elif r[1] is not None:
                out |= roots_of(r[1], f, depth=depth + 1, seen=seen)
        elif how == "let":
            if r[1] is not None:
                out |= roots_of(r[1], f, depth=depth + 1, seen=seen)
            st = r[3]
            if st.get("k") == "local" and st["pat"].get("k") == "p_ident" and st["pat"].get("mut"):
                for n in sir.walk(f.body):
                    if n.get("k") == "assign" and sir.expr_str(n["l"]) == nm:
                        out |= roots_of(n["r"], f, depth=depth + 1, seen=seen)
        elif how == "for":
            out |= roots_of(r[1], f, depth=depth + 1, seen=seen)
        elif how in ("closure", "param") and nm not in ("w", "scopes", "bmc", "group", "cur_path", "var_slot_map", "args"):
            out.add(nm)
    return out


def normalise_rule(ctx):
    """attribute-name normalisation: a family whose runtime entry point does not camel-case the name itself must be camel-cased by
    the parser (the runtime side is read from proc_gen_wrapper.ts on every run)"""
    import tsproto
    ob = ctx.ob
    tc = ctx.tc
    ep = [f for f in tc.fns if f.base == "Element" and f.name == "parse" and f.body]
    ts = ctx.ts()
    if not ep or not ts:
        return [ob("C04.normalise/anchor", False, "parse/tag.rs", "Element::parse or proc_gen_wrapper.ts not found")]
    f = ep[0]
    camel = set()
    slot_normal = False
    found = False
    for m in sir.walk(f.node, into_items=True):
        if m.get("k") != "match" or "prefix" not in sir.expr_str(m["e"]):
            continue
        arms_with = [a for a in m["arms"] if any(x.get("k") == "call" and sir.call_name(x) == "dash_to_camel" for x in sir.walk(a["body"]))]
        if len(arms_with) < 2:
            continue
        found = True
        for a in arms_with:
            vs = [v for v in sir.pat_variants(a["pat"])]
            direct = a["body"].get("k") == "struct" or (a["body"].get("k") == "block" and len(a["body"]["stmts"]) == 1 and a["body"]["stmts"][0].get("k") == "expr" and a["body"]["stmts"][0]["e"].get("k") == "struct")
            for v in vs:
                if v == "Normal":
                    slot_normal = any(x.get("k") == "if" and "ElementKind::Slot" in sir.pat_str(x["cond"]["pat"]) for x in sir.walk(a["body"]) if x.get("k") == "if" and x["cond"].get("k") == "let")
                elif direct:
                    camel.add(v)
    if not found:
        return [ob("C04.normalise/anchor", False, ctx.where(f), "the name-normalisation match of Element::parse was not found")]
    obs = []

    def runtime_normalises(method):
        m = re.search(r"\n  %s = \(" % re.escape(method), ts)
        if not m:
            return None
        i = ts.index("=> {", m.end())
        j = tsproto._match(ts, i + 3, "{", "}")
        body = ts[i:j]
        return "dashToCamelCase(name)" in body
    for fam, method in (("Change", "p"), ("Worklet", "wl"), ("Model", "r")):
        rn = runtime_normalises(method)
        ok = rn is not None and (fam in camel or rn)
        obs.append(ob("C04.normalise/%s" % fam, ok, ctx.where(f), "`%s:` names: camel-cased by the parser: %s; by the runtime entry point R.%s: %s" % (fam.lower(), fam in camel, method, rn),
                      witness=None if ok else "`%s:my-prop` is registered under `my-prop`, which no component property is called" % fam.lower()))
    # ... and only there: every other family (mark:, data:, event names, generic:, extra-attr:, plain attributes of non-components) hands
    # its name to the runtime as written; `Normal` is listed when the arm normalises under a condition of its own (component properties)
    extra = sorted(camel - {"Model", "Change", "Worklet", "SlotDataRef"})
    obs.append(ob("C04.normalise/only", not extra, ctx.where(f), "names are camel-cased for the property families only (%s)" % sorted(camel) if not extra else "the parser also camel-cases the names of %s" % extra,
                  witness=None if not extra else "`mark:item-id` reaches the runtime as `itemId`: the mark the listener reads is `item-id`"))
    ok = ("SlotDataRef" in camel) == slot_normal
    obs.append(ob("C04.normalise/slot-values", ok, ctx.where(f), "slot value names are camel-cased where they are provided (<slot my-val>): %s and where they are referenced (slot:my-val): %s" % (slot_normal, "SlotDataRef" in camel),
                  witness=None if ok else "`<slot my-val=..>` / `slot:my-val` no longer meet under one name"))
    return obs


def event_flags_rule(ctx):
    """R.v(elem, evName, v, final, mutated, capture, ..): every emission site passes catch, mut, capture in that order"""
    ob = ctx.ob
    tc = ctx.tc
    ts = ctx.ts() or ""
    m = re.search(r"\n  v = \(([^)]*)\)", ts)
    params = [x.strip().split(":")[0].strip().rstrip("?") for x in m.group(1).split(",") if x.strip()] if m else []
    want_ts = ["final", "mutated", "capture"]
    okts = params[3:6] == want_ts
    obs = [ob("C04.proto/event-flags/runtime", okts, "glass-easel/src/tmpl/proc_gen_wrapper.ts", "R.v takes %s after the handler (expected %s)" % (params[3:6], want_ts))]
    fmap = {"final": "is_catch", "mutated": "is_mut", "capture": "is_capture"}
    want = [fmap[x] for x in want_ts]
    fs = [f for f in tc.fns if f.base == "EventBinding" and f.name == "to_proc_gen" and f.body]
    fs += [g for f0 in list(fs) for g in sir.reach(tc, f0) if g is not f0 and g.base == "EventBinding" and g.body]   # statements moved to helper methods
    k = 0
    from rules.c06 import statements as c06_statements, top_tokens
    for f in fs:
        toks = es.linearize(f.body, top=True)
        for st, _in_map in c06_statements(toks):
            tt = top_tokens(st)
            if not any(t[0] == "lit" and "R.v(" in t[1] for t in tt):
                continue
            seq = []
            for t in tt:
                if t[0] == "hole":
                    for m_ in re.finditer(r"\bis_(catch|mut|capture)\b", t[1]):
                        seq.append("is_" + m_.group(1))
            if len(seq) >= 2:
                k += 1
                obs.append(ob("C04.proto/event-flags/site#%d" % k, seq == want, ctx.where(f), "flags are passed as %s (runtime order: %s)" % (seq, want),
                              witness=None if seq == want else "capture-bind:tap=\"{{h}}\" is registered as a non-capturing mut-bind listener"))
    if k < 3:
        obs.append(ob("C04.floor/event-flags", False, "proc_gen/tag.rs", "only %d R.v flag emissions found (floor 3)" % k))
    return obs


def wave10_rules(ctx):
    """obligations added after the tenth wave of seeded changes"""
    import guards as gd
    from share import relabel
    ob = ctx.ob
    tc = ctx.tc
    obs = []
    # (1) arguments are positional: in every text the element emitter can write for an `E(..)` call the array of slot-value names
    #     is the sixth argument (tag, generics, init, children, slot, names) - the slot position is filled (`undefined`) when there
    #     is no slot.  Methods that write an optional argument are opened into their alternatives.
    ef = [g for g in tc.fns if g.base == "Element" and g.name == "to_proc_gen" and g.body]
    if ef:
        g = ef[0]
        toks = es.linearize(g.body, top=True)

        def open_calls(ts, depth=0):
            out = []
            for t in ts:
                if t[0] == "call" and depth < 2:
                    hs = [h for h in tc.fns if h.name == t[1] and h.body and "proc_gen" in h.module and h.base and h.name.startswith("write_")]
                    if len(hs) == 1:
                        out += open_calls(es.linearize(hs[0].body), depth + 1)
                        continue
                if t[0] == "if":
                    out.append(("if", t[1], open_calls(t[2], depth), open_calls(t[3], depth)))
                elif t[0] == "match":
                    out.append(("match", t[1], [(p_, open_calls(b_, depth)) for p_, b_ in t[2]]))
                elif t[0] == "for":
                    out.append(("for", t[1], open_calls(t[2], depth)))
                elif t[0] == "closure-call":
                    out.append(("closure-call", t[1], t[2], [open_calls(c_, depth) for c_ in t[3]]))
                else:
                    out.append(t)
            return out
        stmts = [st for st, _m in c06_statements_of(toks)]
        positions = set()
        n_paths = 0
        for st in stmts:
            for sk in es.paths(open_calls(st), limit=2048):
                if not sk.startswith("E("):
                    continue
                flat = re.sub("\x02[^\x03]*\x03", "\x00", sk)
                while "\x02" in flat:
                    flat2 = re.sub("\x02[^\x02\x03]*\x03", "\x00", flat)
                    if flat2 == flat:
                        break
                    flat = flat2
                depth, commas = 0, 0
                for ch in flat:
                    if ch in "([{":
                        if ch == "[" and depth == 1:
                            positions.add(commas)
                            n_paths += 1
                            break
                        depth += 1
                    elif ch in ")]}":
                        depth -= 1
                    elif ch == "," and depth == 1:
                        commas += 1
        okp = positions <= {5} and n_paths > 0
        obs.append(ob("C04.proto/E/names-position", okp if n_paths else None, ctx.where(g), "the slot-value names of an element are always its sixth argument (%d texts)" % n_paths if okp else "the names array can be argument number %s (counted from 1)" % sorted(x + 1 for x in positions),
                      witness=None if okp or not n_paths else "<comp><a slot:x/></comp> without a slot attribute emits E(\"comp\",{},f,c,[\"x\"]): the names sit in the slot position"))
    # (2) a script keyword value is written bare: `true` for an attribute without a value is never run through the string escaper
    quoted = []
    for f in tc.fns:
        if not f.body or "proc_gen" not in f.module:
            continue
        from rules.c02 import FnScope
        scope = None
        for n in sir.walk(f.body, into_closures=True):
            if n.get("k") == "call" and (sir.call_name(n) or "").split("::")[-1] == "gen_lit_str" and n["args"]:
                a = sir.strip_ref(n["args"][0])
                val = a.get("v") if a.get("k") == "lit" else None
                if a.get("k") == "path" and len(a["segs"]) == 1:
                    scope = scope or FnScope(f.node, tc.fns)
                    r = scope.resolve(a["segs"][0], n)
                    if r is not None and r[0] == "let" and r[1] is not None and r[1].get("k") == "lit":
                        val = r[1].get("v")
                if val in ("true", "false", "null", "undefined"):
                    quoted.append("%s quotes the keyword `%s`" % (f.name, val))
    obs.append(ob("C04.syntax/keyword-bare", not quoted, "proc_gen/tag.rs", "no script keyword value is passed through the string escaper" if not quoted else "; ".join(quoted[:2]),
                  witness=None if not quoted else "<view data:x/> registers the string \"true\" instead of the boolean true"))
    # (3) a virtual block is replaced by its children only when it carries nothing else: every other field of the variant is tested
    ek = tc.enum("ElementKind")
    pure = [v for v in (ek["variants"] if ek else []) if v["name"] == "Pure"]
    n3 = 0
    for f in tc.fns:
        if not f.body or f.module[:2] != ["parse", "tag"] or not pure:
            continue
        G = None
        for r in sir.walk(f.body, into_closures=True):
            if r.get("k") != "return" or r.get("e") is None:
                continue
            t = sir.expr_str(r["e"]).replace(" ", "")
            if not re.search(r"mem::(replace|take)\(children", t):
                continue
            G = G or gd.guards_of(f.body)
            gtxt = " ".join(sir.expr_str(sj) if kd == "cond" else sir.expr_str(sj[0]) for kd, sj, pl in G.get(id(r), []))
            others = [fl["name"] for fl in pure[0].get("fields", []) if fl["name"] != "children"]
            missing = [o_ for o_ in others if not re.search(r"\b%s\b" % re.escape(o_), gtxt)]
            n3 += 1
            obs.append(ob("C04.family/Pure/flatten#%d" % n3, not missing, ctx.where(f), "a block is flattened only after %s were found empty" % others if not missing else "a block is flattened without looking at %s" % missing,
                          witness=None if not missing else "<block wx:if=\"{{c}}\" slot=\"s\">..</block> loses its slot"))
    if not n3:
        obs.append(ob("C04.family/Pure/flatten", None, "parse/tag.rs", "the place where a virtual block is replaced by its children is not in a form this rule reads"))
    # (4) an identifier denotes the innermost scope of that name (shared with C05.innermost / C03.scope)
    from rules.c05 import check_innermost
    obs += relabel(check_innermost(ctx), "C05.innermost", "C04.scope/innermost")
    return obs


def c06_statements_of(toks):
    from rules.c06 import statements as _st
    return _st(toks)


def wave8_rules(ctx):
    """obligations added after the eighth wave of seeded changes"""
    import absint as ai
    import prectables as pt
    ob = ctx.ob
    tc = ctx.tc
    obs = []
    # (1) a value used as the condition of an emitted `c?i:..` chain is parenthesised exactly when it is itself a conditional or
    #     looser: the predicate is tabulated over all levels of ExpressionLevel (their order read from the enum)
    order = pt.level_order(tc)
    preds = [f for f in tc.fns if f.body and f.ret == "bool" and f.module[:2] == ["proc_gen", "expr"] and len(f.param_names()) == 1
             and any(x.get("k") == "path" and len(x["segs"]) == 2 and x["segs"][0] == "ExpressionLevel" for x in sir.walk(f.body))]
    for f in preds:
        if "Cond" not in order:
            break
        rank = {v: i for i, v in enumerate(order)}

        def hooks(it, e, st):
            if e.get("k") == "field" and e["name"] == "level":
                return [(st.env.get("$level", ai.UNK), st)]
            if e.get("k") == "path" and len(e["segs"]) == 2 and e["segs"][0] == "ExpressionLevel" and e["segs"][1] in rank:
                return [(rank[e["segs"][1]], st)]
            return None
        wrong, und = [], False
        for v in order:
            it = ai.Interp(hooks=hooks, idx=tc)
            outs = it.run(f.body, {"self": ai.FREE, "$level": rank[v]})
            vals = set(o.value for o in outs)
            if len(vals) != 1 or not (True in vals or False in vals) or any(o.tainted for o in outs):
                und = True
                continue
            want = rank[v] >= rank["Cond"]
            if (True in vals) != want:
                wrong.append("%s -> %s" % (v, True in vals))
        if und and not wrong:
            obs.append(ob("C04.branch/condition-paren/%s" % f.name, None, ctx.where(f), "the predicate is not a comparison of the level with constants: not decided for this tree"))
        else:
            obs.append(ob("C04.branch/condition-paren/%s" % f.name, not wrong, ctx.where(f), "true exactly for the levels from Cond upwards (%s)" % order[rank["Cond"]:] if not wrong else "wrong for %s" % wrong,
                          witness=None if not wrong else "wx:if=\"{{a?b:c}}\" emits `a?b:c?1:0`, which selects by `c`"))
    # (2) strings of the generated script go through the escaper table (shared with C12 / C02)
    from rules.c12 import find_escaper, check_escaper, dash_to_camel_table, entity_start_rule
    ef = find_escaper(tc)
    if ef is not None:
        o, _ = check_escaper(ctx, ef, ctx.mir, "glass_easel_template_compiler", "C04.syntax/escaper")
        obs += o
    # (3) attribute names are normalised by the automaton of the runtime's dashToCamelCase (shared with C12)
    obs += dash_to_camel_table(ctx, "C04.normalise")
    # (4) a named character reference may start with any ASCII letter (shared with C12)
    obs += entity_start_rule(ctx, "C04.entities")
    # (5) every value an element carries is visited when scopes are resolved (shared with C07.values)
    from rules.c07 import values_rule
    for x in values_rule(ctx):
        x = dict(x)
        x["key"] = x["key"].replace("C07.values", "C04.scope/values")
        obs.append(x)
    # wave 9: (6) the order of scope events in the analysis pass (shared with C05.mirror), (7) the import table of a file
    # (shared with C13.lazy), (8) the definitions of the runtime helpers the emitted text calls (shared with C03.helpers)
    from share import relabel
    from rules.c05 import check_mirror
    mir_ = check_mirror(ctx)
    obs += relabel(mir_, "C05.mirror/analysis", "C04.scope/analysis")
    # wave 13: the generator's side of the same bracket - what a child sees on the scope stack is what the analysis pass saw, so the
    # scopes one child element pushes are gone before its next sibling is generated (a leak renders the wrong variable)
    obs += relabel(mir_, "C05.mirror/gen", "C04.scope/gen")
    from rules.c13 import lazy_rule
    obs += relabel(lazy_rule(ctx), "C13.lazy/import-table", "C04.proto/import-table")
    from rules.c03 import helper_defs_rule
    obs += relabel(helper_defs_rule(ctx), "C03.helpers/def", "C04.proto/helpers/def")
    return obs


def run(ctx):
    obs = proto_rule(ctx)
    obs += child_lists_rule(ctx)
    obs += family_rule(ctx)
    obs += branch_rule(ctx)
    obs += text_rule(ctx)
    obs += concat_rule(ctx)
    obs += normalise_rule(ctx)
    obs += event_flags_rule(ctx)
    from rules.c12 import check_entities
    for x in check_entities(ctx):
        x = dict(x)
        x["key"] = x["key"].replace("C12.entity", "C04.entities")
        obs.append(x)
    # generated code must at least be spelled from non-reserved identifiers for any tree to render
    from rules.c02 import ident_rule, holes_rule
    _o, sites = holes_rule(ctx)
    for x in ident_rule(ctx, sites):
        x = dict(x)
        x["key"] = x["key"].replace("C02.ident", "C04.syntax/ident")
        obs.append(x)
    obs += wave8_rules(ctx)
    obs += wave10_rules(ctx)
    # wave 11: the code generated for a path is the code of the template the group holds now (shared with C20.order/import)
    from share import relabel
    from rules.c20 import order_rules
    obs += relabel(order_rules(ctx), "C20.order/import", "C04.group/import")
    return obs
