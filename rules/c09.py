"""C09 - class prefixing hits every class selector and nothing else (structural half)."""
import re
from rules import csspacks as cp

RULE = 'C09.reach = C08.ctx + C08.rules (every nesting depth, every rule-bearing at-rule). C09.flag: in each selector-context loop in_class is set only by the `.` arm, consumed by the identifier arm and reset by every other arm; the value routine never looks at it. C09.only: write_maybe_class_name is called only from selector-context routines, rewrites iff `in_class && class_prefix.is_some()` to `{prefix}--{name}`, writes the sign iff in_class and registers the original identifier as source name. C09.only/detection (shared with C17) and C09.ser (shared with C08): a rule is dropped as a `:host` combination only for an exact `:host`; every non-integer token, identifiers included, is written by the serialiser of cssparser.'
EXPLANATION = ("The token-dispatch loops of the stylesheet compiler are located by role in the expanded syntax tree and their arms, "
               "flags and field writers (MIR) are checked against the rule; no stylesheet is ever transformed.")
ASSUMPTIONS = ["cssparser tokenises and serialises per CSS Syntax 3", "refs/css_refs.json lists rule-bearing at-rules and math functions correctly",
               "token-stream equality of concrete outputs is not decided"]


def run(ctx):
    obs, ok = cp.anchors(ctx, 'C09')
    if not ok:
        return obs
    obs += cp.ctx_rule(ctx, 'C09')
    obs += cp.rules_rule(ctx, 'C09')
    obs += cp.class_flag_rule(ctx, 'C09')
    obs += cp.class_only_rule(ctx, 'C09')
    obs += cp.step_rules(ctx, 'C09')
    # a rule is dropped as an illegal `:host` combination only for an exact `:host` / `:host(` (its classes would never be emitted);
    # identifiers - prefixed class names included - are written by cssparser's identifier serialiser (shared with C17 / C08)
    obs += [o for o in cp.host_rules(ctx, 'C09') if re.search(r"\.only/detection", o["key"])]
    obs += [o for o in cp.int_rule(ctx, 'C09', writer_only=True) if "/ser/" in o["key"] or ".ser/" in o["key"]]
    # the options are read-only while a sheet is compiled (wave 9; shared by C08, C09, C10, C17)
    obs += cp.options_untouched_rule(ctx, 'C09')
    # wave 10: an at-rule ends at its block or its `;` on every path through the prelude loop
    obs += cp.at_prelude_terminators_rule(ctx, 'C09')
    # output offsets used to replay a prefixed prelude are byte offsets of the output (shared with C08 / C17)
    obs += cp.capture_offsets_rule(ctx, 'C09')
    # every rewrite works on tokens: no source text is copied into the output (wave 10; shared by the stylesheet packs)
    obs += cp.tokens_only_rule(ctx, 'C09')
    obs += cp.state_counters_rule(ctx, 'C09')
    return obs
