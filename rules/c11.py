"""C11 - emitted l-value paths address exactly the value the expression reads (structural half)."""
import re
import sir
from exprmodel import ExprModel, arm_table, bound_fields
import prectables as pt

RULE = ("C11.agree: for each mode (model / script / general) the first-slice and rest-slice variants accepted by the legality "
        "predicate are ones the path writer writes without bailing out. C11.prefix: the numeric prefixes written (0, 1, 2) equal "
        "GeneralLvaluePathPrefix in proc_gen_wrapper.ts with the operands in the documented order; `.slice(1)` is applied only to a "
        "spread data-scope variable in model mode. C11.guard: every lvalue_path(.., mode) emission is guarded by the predicate of "
        "the same mode. C11.never: generator arms of non-access expressions return NotInPath; loop indices and slot values are "
        "ScopeVarLvaluePath::Invalid; loop items carry a path only when the list has one. C11.sibling: the binding-map updater "
        "passes the path in the same argument position as the tree-update statement (C07.emit agree).")
EXPLANATION = ("Agreement between the legality predicate and the path writer, the prefix protocol shared with the TypeScript runtime, "
               "and the guard discipline are decided on the syntax tree; paths are never evaluated against data.")
ASSUMPTIONS = ["the runtime resolves a general l-value path as documented next to GeneralLvaluePathPrefix", "get-put behaviour on data is not decided"]

SLICES = ["Ident", "ScopeIndex", "StaticMember", "IndirectValue", "CombineObj", "CombineArr", "Condition"]


def unconditional_reject(body, val="false"):
    """arm body is just `return false` / `return Ok(false)`"""
    b = body
    while b.get("k") == "block" and len(b["stmts"]) == 1 and b["stmts"][0].get("k") == "expr":
        b = b["stmts"][0]["e"]
    if b.get("k") == "return" and b.get("e") is not None:
        s = sir.expr_str(b["e"])
        return s in ("False", "Ok(False)")
    return False


def first_slice_match(fn_body, after_model_test=None):
    """match nodes over `iter.next()` in a function body"""
    out = []
    for n in sir.walk(fn_body):
        if n.get("k") == "match" and n["e"].get("k") == "mcall" and n["e"]["m"] == "next":
            out.append(n)
    return out


def arm_variants(m):
    t = {}
    for a in m["arms"]:
        pats = a["pat"]["cases"] if a["pat"].get("k") == "p_or" else [a["pat"]]
        for p in pats:
            if p.get("k") == "p_ts" and p["segs"][-1] == "Some" and p["elems"]:
                inner = p["elems"][0]
                vs = sir.pat_variants(inner)
                for v in vs:
                    t[v] = a
            elif p.get("k") == "p_wild":
                t["_"] = a
            elif p.get("k") in ("p_path", "p_ident") and sir.pat_str(p) == "None":
                t["None"] = a
    return t


def agree_rule(ctx):
    ob = ctx.ob
    tc = ctx.tc
    obs = []
    pred = [f for f in tc.fns if f.name == "is_legal_lvalue_path" and f.body]
    wr = [f for f in tc.fns if f.name == "to_lvalue_path_arr" and f.body]
    if len(pred) != 1 or len(wr) != 1:
        return [ob("C11.agree/anchor", False, "proc_gen/expr.rs", "legality predicate / path writer not found")]
    pf, wf = pred[0], wr[0]
    pm = first_slice_match(pf.body)
    if not pm:
        # the functions exist but the predicate is written in a form this rule does not read (e.g. split_first + boolean matches)
        return [ob("C11.agree/shape", None, ctx.where(pf), "the legality predicate is not written as a match over the first slice with rejecting arms: agreement between predicate and writer is not decided for this tree")], wr[0]
    ptab = arm_variants(pm[0])
    # predicate: may-accept per variant (mode-specific rejections are evaluated for the simple `model == Some(x)` tests)
    def pred_accepts(v, mode):
        a = ptab.get(v) or ptab.get("_")
        if a is None:
            return False
        if unconditional_reject(a["body"]):
            return False
        # `if model == Some(false) { return false; }`
        for n in sir.walk(a["body"]):
            if n.get("k") == "if" and n["cond"].get("k") == "binary" and n["cond"]["op"] == "==" and sir.expr_str(n["cond"]["l"]) == "model":
                want = sir.expr_str(n["cond"]["r"])
                cur = {"model": "Some(True)", "script": "Some(False)", "general": "None"}[mode]
                if want == cur and unconditional_reject(n["then"]):
                    return False
        return True
    # writer: branch on model == Some(true)
    wms = first_slice_match(wf.body)
    branch = {}
    for n in sir.walk(wf.body):
        if n.get("k") == "if" and n["cond"].get("k") == "binary" and sir.expr_str(n["cond"]).replace(" ", "") == "model==Some(True)":
            tm = first_slice_match(n["then"])
            em = first_slice_match(n["else"]) if n.get("else") else []
            if tm and em:
                branch["model"] = arm_variants(tm[0])
                branch["script"] = arm_variants(em[0])
                branch["general"] = branch["script"]
    if not branch:
        return [ob("C11.agree/shape", None, ctx.where(wf), "the path writer does not branch on the mode with a first-slice match in each branch: agreement is not decided for this tree")], wf

    def writer_bails(v, mode):
        t = branch[mode]
        a = t.get(v) or t.get("_")
        if a is None:
            return True
        if unconditional_reject(a["body"]):
            return True
        return False
    for mode in ("model", "script", "general"):
        for v in SLICES:
            acc = pred_accepts(v, mode)
            bails = writer_bails(v, mode)
            ok = not (acc and bails)
            obs.append(ob("C11.agree/first/%s/%s" % (mode, v), ok, ctx.where(wf),
                          "mode %s, first slice %s: predicate %s, writer %s" % (mode, v, "may accept" if acc else "rejects", "bails out (writes nothing, the rest of the path is dropped)" if bails else "writes it"),
                          witness=None if ok else 'bind:tap="{{ (q ? m : m).f }}" emits [2,"p","m"].concat([]) - the member "f" is lost'))
    # rest slices
    prest = None
    for n in sir.walk(pf.body):
        if n.get("k") == "for":
            for m in sir.walk(n["body"]):
                if m.get("k") == "match":
                    prest = m
    wrest = None
    for n in sir.walk(wf.body):
        if n.get("k") == "for":
            for m in sir.walk(n["body"]):
                if m.get("k") == "match" and any(v in SLICES for a in m["arms"] for v in sir.pat_variants(a["pat"])):
                    wrest = m
    if prest is None or wrest is None:
        obs.append(ob("C11.agree/rest/anchor", False, ctx.where(wf), "rest-slice loops not found"))
    else:
        pa = set(v for a in prest["arms"] for v in sir.pat_variants(a["pat"]) if not unconditional_reject(a["body"]) and v in SLICES)
        wa = set()
        for a in wrest["arms"]:
            b = a["body"]
            ends = any(x.get("k") == "break" for x in sir.walk(b)) and not any(sir.write_fmt_call(x) for x in sir.walk(b))
            if not ends:
                wa.update(v for v in sir.pat_variants(a["pat"]) if v in SLICES)
        obs.append(ob("C11.agree/rest", pa <= wa, ctx.where(wf), "rest slices accepted by the predicate %s; written by the writer %s" % (sorted(pa), sorted(wa))))
    return obs, wf


def prefix_rule(ctx, wf):
    ob = ctx.ob
    obs = []
    ts = ctx.ts() or ""
    m = re.search(r"enum\s+GeneralLvaluePathPrefix\s*\{([^}]*)\}", ts)
    enum = {}
    if m:
        for name, val in re.findall(r"(\w+)\s*=\s*(\d+)", m.group(1)):
            enum[name] = int(val)
    if enum != {"Data": 0, "Script": 1, "InlineScript": 2}:
        obs.append(ob("C11.prefix/ts-enum", False, "glass-easel/src/tmpl/proc_gen_wrapper.ts", "GeneralLvaluePathPrefix is %s (expected Data=0, Script=1, InlineScript=2)" % enum))
        return obs
    obs.append(ob("C11.prefix/ts-enum", True, "glass-easel/src/tmpl/proc_gen_wrapper.ts", "GeneralLvaluePathPrefix = %s" % enum))
    # writer fragments per scope kind
    frags = {}
    for n in sir.walk(wf.body):
        if n.get("k") == "arm":
            vs = sir.pat_variants(n["pat"])
            inner = []
            for sub in sir.walk(n["pat"]):
                if sub.get("k") in ("p_ts", "p_struct", "p_path") and sub["segs"][-1] in ("Ident", "Script", "InlineScript", "Var"):
                    inner.append(sub["segs"][-1])
            for x in sir.walk(n["body"]):
                wfc = sir.write_fmt_call(x)
                if wfc and inner:
                    text = "".join(p[1] if p[0] == "lit" else "{%s}" % sir.expr_str(p[1]) for p in wfc[1])
                    frags.setdefault(inner[-1], []).append(text)
                    break
    want = {"Script": r"^1,\{gen_lit_str\(abs_path\)\}$", "InlineScript": r"^2,\{gen_lit_str\(path\)\},\{gen_lit_str\(mod_name\)\}$"}
    for k, rx in want.items():
        got = frags.get(k, [])
        ok = any(re.match(rx, g) for g in got)
        obs.append(ob("C11.prefix/%s" % k, ok, ctx.where(wf), "%s scope path is written as %s (runtime expects prefix %d followed by %s)" % (k, got, enum[k], "abs_path" if k == "Script" else "abs_path, mod_name")))
    idf = frags.get("Ident", [])
    ok = any(g.startswith("0,{gen_lit_str(") for g in idf) and any(g.startswith("{gen_lit_str(") for g in idf)
    obs.append(ob("C11.prefix/Data", ok, ctx.where(wf), "data-field paths are written as %s (general mode: prefix 0; model mode: bare field name)" % idf))
    # slice(1)
    sl = [n for n in sir.walk(wf.body) if sir.write_fmt_call(n) and sir.write_fmt_call(n)[1] == [("lit", ".slice(1)")]]
    ok = False
    if len(sl) == 1:
        pm = sir.parent_map(wf.body)
        p = sl[0]
        cond = None
        while id(p) in pm:
            p = pm[id(p)]
            if p.get("k") == "if":
                cond = sir.expr_str(p["cond"])
                break
        # the flag is set only next to the `...var` spread in the model branch under `from_data_scope`
        sets = [n for n in sir.walk(wf.body) if n.get("k") == "assign" and sir.expr_str(n["l"]) == cond]
        ok = len(sets) == 1
        if ok:
            q = sets[0]
            in_model = False
            guarded = False
            while id(q) in pm:
                q = pm[id(q)]
                if q.get("k") == "arm" and q.get("guard") is not None and "from_data_scope" in sir.expr_str(q["guard"]):
                    guarded = True
                if q.get("k") == "if" and sir.expr_str(q["cond"]).replace(" ", "") == "model==Some(True)":
                    in_model = True
            ok = in_model and guarded
    obs.append(ob("C11.prefix/slice1", ok, ctx.where(wf), "`.slice(1)` is applied only to a spread data-scope loop variable in model mode: %s" % ok))
    return obs


def ternary_rule(ctx):
    """C11.cond: wherever a conditional path is emitted as `c ? .. : ..`, the true branch sits between `?` and `:` and the false
    branch after `:`."""
    import emitseq as es
    ob = ctx.ob
    tc = ctx.tc
    obs = []
    n = 0
    for f in tc.fns:
        if not f.body or "proc_gen" not in f.module or "expr" not in f.module:
            continue
        names = set()
        for x in sir.walk(f.body):
            if x.get("k") == "p_ident":
                names.add(x["name"])
        tnames = [x for x in names if x.startswith("true")]
        fnames = [x for x in names if x.startswith("false")]
        if not tnames or not fnames:
            continue
        seq = []
        for x in sir.walk(f.body):
            wfc = sir.write_fmt_call(x)
            if wfc:
                for pc in wfc[1]:
                    if pc[0] == "lit":
                        seq.append(("lit", pc[1]))
                    else:
                        seq.append(("hole", sir.expr_str(pc[1])))
            elif x.get("k") == "mcall" and sir.root_expr_name(x["recv"]) in tnames + fnames and x["m"] not in ("is_legal_lvalue_path",):
                seq.append(("call", x["m"], sir.root_expr_name(x["recv"])))
            elif x.get("k") == "arm":
                seq.append(("lit", "\x02"))
        state = None
        for t in seq:
            if t[0] == "lit":
                txt = t[1]
                if txt.endswith("?"):
                    state = "true"
                elif txt.startswith(":") or txt == ":":
                    state = "false" if state in ("true", "true-seen") else None
                elif txt in ("\x02", "\x03"):
                    state = None
                continue
            ref = t[2] if t[0] == "call" else t[1]
            used_t = any(re.search(r"\b%s\b" % re.escape(x), ref) for x in tnames)
            used_f = any(re.search(r"\b%s\b" % re.escape(x), ref) for x in fnames)
            if not (used_t or used_f):
                continue
            n += 1
            key = "C11.cond/%s#%d" % (f.qual, n)
            if state in ("true", "true-seen"):
                okk = used_t and not used_f
                obs.append(ob(key, okk, ctx.where(f), "between `?` and `:` the emitter writes %s" % ref, witness=None if okk else "(c ? a : b).z : both sides of the emitted path conditional name the same branch"))
                state = "true-seen"
            elif state == "false":
                okk = used_f and not used_t
                obs.append(ob(key, okk, ctx.where(f), "after `:` the emitter writes %s" % ref, witness=None if okk else "(c ? a : b).z : both sides of the emitted path conditional name the same branch"))
                state = None
    if n < 6:
        obs.append(ob("C11.floor/ternaries", False, "proc_gen/expr.rs", "only %d conditional branch emissions found (floor 6)" % n))
    return obs


def guard_rule(ctx):
    ob = ctx.ob
    tc = ctx.tc
    obs = []
    n = 0
    want = {"Some(True)": "has_model_lvalue_path", "Some(False)": "has_script_lvalue_path"}
    for f in tc.fns:
        if not f.body or "proc_gen" not in f.module or "tag" not in f.module:
            continue
        pm = None
        for x in sir.walk(f.body):
            if x.get("k") == "mcall" and x["m"] == "lvalue_path" and len(x["args"]) == 3:
                n += 1
                mode = sir.expr_str(x["args"][2])
                recv = sir.expr_str(x["recv"])
                pm = pm or sir.parent_map(f.body)
                p = x
                guards = []
                while id(p) in pm:
                    c = p
                    p = pm[id(p)]
                    if p.get("k") == "if" and p.get("then") is c:
                        guards.append(sir.expr_str(p["cond"]))
                key = "C11.guard/%s/%s#%d" % (f.qual, mode, n)
                if mode in want:
                    ok = any(("%s.%s(" % (recv, want[mode])) in g for g in guards)
                    obs.append(ob(key, ok, ctx.where(f), "lvalue_path(%s) is emitted under %s; guards on the path: %s" % (mode, want[mode], guards[:3])))
                else:
                    ok = any("lvalue_path_from_data_scope" in g for g in guards)
                    obs.append(ob(key, ok, ctx.where(f), "general lvalue_path is emitted only when the list has a decided data/script path: %s" % guards[:2]))
    if n < 8:
        obs.append(ob("C11.floor/lvalue-sites", False, "proc_gen/tag.rs", "only %d lvalue_path emissions found (floor 8)" % n))
    return obs


def never_rule(ctx):
    ob = ctx.ob
    tc = ctx.tc
    obs = []
    model = ExprModel(tc)
    g = pt.main_expression_fn(tc, model, "proc_gen")
    if g is None:
        return [ob("C11.never/anchor", False, "proc_gen/expr.rs", "expression generator not found")]
    genf, gm, _n = g
    table = arm_table(gm, model)
    access = {"ScopeRef", "DataField", "StaticMember", "DynamicMember", "Cond", "LitObj", "LitArr"}
    for v in model.variants:
        if v not in table or v in access:
            continue
        arm, _case = table[v][0]
        b = arm["body"]
        tail = None
        if b.get("k") == "block" and b["stmts"]:
            last = b["stmts"][-1]
            if last.get("k") == "expr" and not last.get("semi"):
                tail = last["e"]
        else:
            tail = b
        ok = tail is not None and tail.get("k") == "path" and tail["segs"][-1] == "NotInPath"
        obs.append(ob("C11.never/%s" % v, ok, ctx.where(genf), "%s is not assignable; its arm returns %s" % (v, sir.expr_str(tail) if tail is not None else "?")))
    # scope kinds
    ef = [f for f in tc.fns if f.base == "Element" and f.name == "to_proc_gen" and f.body]
    if ef:
        f = ef[0]
        pushes = []
        for x in sir.walk(f.body):
            if x.get("k") == "struct" and x["path"].endswith("ScopeVar"):
                fl = {y["name"]: y["e"] for y in x["fields"]}
                pushes.append((sir.expr_str(fl.get("var")), fl.get("lvalue_path")))
        idx = [p for p in pushes if "index" in p[0]]
        item = [p for p in pushes if "item" in p[0] and "index" not in p[0]]
        ok_idx = bool(idx) and all(sir.expr_str(p[1]).endswith("Invalid") for p in idx)
        obs.append(ob("C11.never/for-index", ok_idx, ctx.where(f), "loop index scope has lvalue_path %s" % [sir.expr_str(p[1]) for p in idx]))
        # item: `Var {..}` exactly when lvalue_path_from_data_scope is Some, `Invalid` otherwise (if-let / match / map..unwrap_or)
        import guards as gd
        ok_item = None
        for p in item:
            e = p[1]
            if e is None:
                continue
            G = gd.guards_of(e)
            vars_ = [x for x in sir.walk(e) if x.get("k") == "struct" and x["path"].endswith("Var")]
            invs = [x for x in sir.walk(e) if x.get("k") == "path" and x["segs"][-1] == "Invalid"]
            m_l = lambda ex: "lvalue_path_from_data_scope" in sir.expr_str(ex)
            if vars_ and invs:
                sv_ = [gd.option_state(G.get(id(x), []), m_l) for x in vars_]
                si_ = [gd.option_state(G.get(id(x), []), m_l) for x in invs]
                if all(x == "some" for x in sv_) and (all(x == "none" for x in si_) or any(n_.get("k") == "mcall" and n_["m"] in ("unwrap_or", "unwrap_or_else", "map_or") for n_ in sir.walk(e))):
                    ok_item = True
                elif any(x == "none" for x in sv_) or any(x == "some" for x in si_):
                    ok_item = False
            elif vars_ and not invs:
                ok_item = False
        obs.append(ob("C11.never/for-item", ok_item, ctx.where(f), "loop item carries a path exactly when the list expression has one (else Invalid): %s" % ok_item))
        # decision of lvalue_path_from_data_scope, read as a table over (has model path, has script path)
        import minieval
        dec = [x for x in sir.walk(f.body) if x.get("k") == "local" and x["pat"].get("name") == "lvalue_path_from_data_scope"]
        okd = None
        tab = {}
        if dec:
            # the arm for a dynamic list expression
            arms = [a for m_ in sir.walk(dec[0]["init"]) if m_.get("k") == "match" for a in m_["arms"] if "Dynamic" in sir.pat_str(a["pat"])]
            body = arms[0]["body"] if arms else dec[0]["init"]
            try:
                for mv in (True, False):
                    for sv in (True, False):
                        env = {"$mcall": {"has_model_lvalue_path": mv, "has_script_lvalue_path": sv}}
                        # bind the two locals (whatever they are called) by their initialisers
                        for st in sir.walk(body):
                            if st.get("k") == "local" and st["pat"].get("k") == "p_ident" and st.get("init") is not None:
                                t_ = sir.expr_str(st["init"])
                                if "has_model_lvalue_path" in t_:
                                    env[st["pat"]["name"]] = mv
                                elif "has_script_lvalue_path" in t_:
                                    env[st["pat"]["name"]] = sv
                        tab[(mv, sv)] = minieval.ev(body, env)
                okd = tab == {(True, True): None, (True, False): ("Some", True), (False, True): ("Some", False), (False, False): None}
            except minieval.Unknown:
                okd = None
        obs.append(ob("C11.never/for-ambiguous", okd, ctx.where(f), "list path kind by (has model path, has script path): %s (expected: both -> none, model only -> data scope, script only -> script, neither -> none)" % (tab or "not read")))
    inner = [f for f in tc.fns if f.name == "to_proc_gen_define_children_content_inner" and f.body]
    if inner:
        f = inner[0]
        sv = [x for x in sir.walk(f.body) if x.get("k") == "struct" and x["path"].endswith("ScopeVar")]
        ok = bool(sv) and all(any(y["name"] == "lvalue_path" and sir.expr_str(y["e"]).endswith("Invalid") for y in x["fields"]) for x in sv)
        obs.append(ob("C11.never/slot-values", ok, ctx.where(f), "slot-value scopes are never assignable: %s" % ok))
    return obs


def hole_rule(ctx):
    """path arrays are written without empty elements: `[,"g"]` / `[a,,b]` (lib/dyck.py follows the separator flags)"""
    import dyck
    ob = ctx.ob
    tc = ctx.tc
    fns = [f for f in tc.fns if f.body and f.module[:1] in (["proc_gen"], ["group"], ["binding_map"])]
    A = dyck.Analyzer(tc, fns)
    for f in fns:
        A.summary(f)
    obs = []
    targets = [f for f in fns if "lvalue" in f.name or f.name in ("to_lvalue_path_arr", "write_lvalue_path")]
    for f in targets:
        hs = sorted(A.holes.get(f.qual, []))
        obs.append(ob("C11.agree/no-hole/%s" % f.qual, not hs, ctx.where(f), "; ".join(hs) if hs else "no path through the separator flags writes an empty array element",
                      witness=None if not hs else "`(c ? m : n).g` as an l-value yields `[..].concat([,\"g\"])`: a hole instead of the member name"))
    if len(targets) < 3:
        obs.append(ob("C11.floor/no-hole", False, "proc_gen/expr.rs", "only %d l-value path writers found (floor 3)" % len(targets)))
    return obs


def run(ctx):
    r = agree_rule(ctx)
    if isinstance(r, tuple):
        obs, wf = r
        obs += prefix_rule(ctx, wf)
    else:
        obs = r
    obs += guard_rule(ctx)
    obs += ternary_rule(ctx)
    obs += never_rule(ctx)
    from rules.c07 import emit_rule
    for f in ctx.tc.fns:
        if hasattr(f, "_map_idx"):
            del f._map_idx
    for x in emit_rule(ctx):
        if "/agree/" in x["key"]:
            x = dict(x)
            x["key"] = x["key"].replace("C07.emit/agree", "C11.sibling")
            obs.append(x)
    obs += hole_rule(ctx)
    return obs
