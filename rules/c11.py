"""C11 - emitted l-value paths address exactly the value the expression reads (structural half)."""
import re
import sir
from exprmodel import ExprModel, arm_table, bound_fields
import prectables as pt

RULE = ("C11.agree: for each mode (model / script / general) the first-slice and rest-slice variants accepted by the legality "
        "predicate are ones the path writer writes without bailing out. C11.prefix: the numeric prefixes written (0, 1, 2) equal "
        "GeneralLvaluePathPrefix in proc_gen_wrapper.ts with the operands in the documented order; `.slice(1)` is applied only to a "
        "spread data-scope variable in model mode. C11.guard: every lvalue_path(.., mode) emission is guarded by the predicate of "
        "the same mode. C11.never: generator arms of non-access expressions return NotInPath; loop indices and slot values are "
        "ScopeVarLvaluePath::Invalid; loop items carry a path only when the list has one. C11.sibling: the binding-map updater "
        "passes the path in the same argument position as the tree-update statement (C07.emit agree).")
EXPLANATION = ("Agreement between the legality predicate and the path writer, the prefix protocol shared with the TypeScript runtime, "
               "and the guard discipline are decided on the syntax tree; paths are never evaluated against data.")
ASSUMPTIONS = ["the runtime resolves a general l-value path as documented next to GeneralLvaluePathPrefix", "get-put behaviour on data is not decided"]

SLICES = ["Ident", "ScopeIndex", "StaticMember", "IndirectValue", "CombineObj", "CombineArr", "Condition"]


def unconditional_reject(body, val="false"):
    """arm body is just `return false` / `return Ok(false)`"""
    b = body
    while b.get("k") == "block" and len(b["stmts"]) == 1 and b["stmts"][0].get("k") == "expr":
        b = b["stmts"][0]["e"]
    if b.get("k") == "return" and b.get("e") is not None:
        s = sir.expr_str(b["e"])
        return s in ("False", "Ok(False)")
    return False


def first_slice_match(fn_body, after_model_test=None):
    """match nodes over `iter.next()` in a function body"""
    out = []
    for n in sir.walk(fn_body):
        if n.get("k") == "match" and n["e"].get("k") == "mcall" and n["e"]["m"] == "next":
            out.append(n)
    return out


def arm_variants(m):
    t = {}
    for a in m["arms"]:
        pats = a["pat"]["cases"] if a["pat"].get("k") == "p_or" else [a["pat"]]
        for p in pats:
            if p.get("k") == "p_ts" and p["segs"][-1] == "Some" and p["elems"]:
                inner = p["elems"][0]
                vs = sir.pat_variants(inner)
                for v in vs:
                    t[v] = a
            elif p.get("k") == "p_wild":
                t["_"] = a
            elif p.get("k") in ("p_path", "p_ident") and sir.pat_str(p) == "None":
                t["None"] = a
    return t


def mode_values(ctx, pf):
    """how the three modes are encoded in the predicate's last parameter: {'model': value, 'script': value, 'general': value}"""
    import absint as ai
    names = [n for n in pf.param_names() if n not in ("self", "scopes")]
    if not names:
        return None, None
    pname = names[-1]
    ty = (pf.param_ty(pname) or "").replace(" ", "")
    if ty == "Option<bool>":
        return pname, {"model": ("Some", True), "script": ("Some", False), "general": ai.NONE}
    en = ctx.tc.enum(ty.split("::")[-1].lstrip("&"))
    if en:
        vs = [v["name"] for v in en["variants"]]
        out = {}
        for v in vs:
            lv = v.lower()
            for mode in ("model", "script", "general"):
                if mode in lv or (mode == "general" and lv in ("any", "normal", "none", "default")):
                    out[mode] = ("E", v, ())
        if len(out) == 3 and len(vs) == 3:
            return pname, out
    return pname, None


def first_slices():
    import absint as ai
    F = ai.FREE
    cond = ("E", "Condition", (F, ("T", (F, F)), ("T", (F, F))))
    out = [("Ident", ("E", "Ident", (F,)), None)]
    for kind, val in (("Invalid", ("E", "Invalid", ())), ("Var/data", ("E", "Var", (("var_name", F), ("from_data_scope", True)))),
                      ("Var/local", ("E", "Var", (("var_name", F), ("from_data_scope", False)))), ("Script", ("E", "Script", (("abs_path", F),))),
                      ("InlineScript", ("E", "InlineScript", (("path", F), ("mod_name", F))))):
        out.append(("ScopeIndex:" + kind, ("E", "ScopeIndex", (F,)), val))
    out.append(("Condition", cond, None))
    for v in ("StaticMember", "IndirectValue", "CombineObj", "CombineArr"):
        out.append((v, ("E", v, (F,)), None))
    return out


def decide(ctx, fn, pname, mode_val, first, scope_kind, rest=None, recursive=(), rec_result=None):
    """abstract outcomes of `fn` for a path whose first slice is `first` (a ScopeIndex resolving to `scope_kind`), in the given
    mode, every further slice being of kind `rest`"""
    import absint as ai

    def hooks(it, e, st):
        k = e.get("k")
        if k == "field" and e["name"] == "lvalue_path":
            return [(scope_kind if scope_kind is not None else ai.FREE, st)]
        if k == "mcall":
            m = e["m"]
            if m in recursive and rec_result is not None and "write" not in m:
                vs = [o.value for o in it.ev(e["recv"], st) if o.kind == "val"]
                if len(vs) == 1 and isinstance(vs[0], str) and vs[0] in rec_result:
                    return [(rec_result[vs[0]], st.event(("rec", m)))]
            if m in recursive:
                ev_ = ("write", "{}") if "write" in m else ("rec", m)
                return [(("Ok", ai.FREE) if "write" in m else ai.FREE, st.event(ev_))]
            if m == "next" and not e["args"]:
                if st.env.get("$next"):
                    return [(ai.FREE, st)]
                return [(("Some", first), st.set("$next", True))]
            if m in ("first", "split_first") and not e["args"]:
                return [(("Some", first if m == "first" else ("T", (first, ai.FREE))), st)]
            if m == "get" and len(e["args"]) == 1 and e["args"][0].get("k") == "lit" and str(e["args"][0].get("v")) == "0":
                return [(("Some", first), st)]
            if m in ("len", "is_empty", "as_slice", "as_mut_slice") and not e["args"]:
                return [(ai.FREE, st)]
        if k == "for":
            return st.event(("rest-loop",))
        if k == "mcall" and e["m"] in ("all", "any", "for_each", "try_for_each") and e["args"] and e["args"][0].get("k") == "closure":
            return st.event(("rest-loop",))
        return None
    helpers = {}
    if rec_result is not None:
        # private boolean helpers next to the predicate (e.g. one that unwraps a branch state) are entered
        for g in ctx.tc.fns:
            if g.body and g.module[:2] == ["proc_gen", "expr"] and (g.ret or "").strip() == "bool" and g.name not in recursive and g is not fn:
                helpers[g.name] = None if g.name in helpers else g
        helpers = {k_: v_ for k_, v_ in helpers.items() if v_ is not None}
    it = ai.Interp(hooks=hooks, idx=ctx.tc, inline=helpers)
    it.for_value = ("E", rest, (ai.FREE,)) if rest else ai.FREE
    env = {"self": ai.FREE, "scopes": ai.FREE, "w": ai.FREE, pname: mode_val}
    for n_ in fn.param_names():
        env.setdefault(n_, ai.FREE)
    try:
        return [o for o in it.run(fn.body, env) if ("$error-exit",) not in o.events]
    except ai.TooManyPaths:
        return None


def agree_rule(ctx):
    import absint as ai
    ob = ctx.ob
    tc = ctx.tc
    obs = []
    pred = [f for f in tc.fns if f.name == "is_legal_lvalue_path" and f.body]
    wr = [f for f in tc.fns if f.name == "to_lvalue_path_arr" and f.body]
    if len(pred) != 1 or len(wr) != 1:
        return [ob("C11.agree/anchor", False, "proc_gen/expr.rs", "legality predicate / path writer not found")]
    pf, wf = pred[0], wr[0]
    pname, modes = mode_values(ctx, pf)
    wname = [n for n in wf.param_names() if n not in ("self", "scopes", "w")]
    if modes is None or not wname:
        return [ob("C11.agree/shape", None, ctx.where(pf), "the mode parameter of the legality predicate is neither `Option<bool>` nor a three-variant enum this rule can map to model / script / general: agreement is not decided for this tree")], wf
    wname = wname[-1]
    REC = ("is_legal_lvalue_path", "write_lvalue_path", "to_lvalue_path_arr")

    def accepts(outs):
        """True / False / None (undecided)"""
        if outs is None:
            return None
        if any(o.value is True or o.value == ai.FREE for o in outs):
            return True
        if any(o.value == ai.UNK or (o.tainted and o.value is not False) for o in outs):
            return None
        return False

    def bails(outs):
        """the writer leaves before it reaches the loop over the remaining slices: the rest of the path is dropped"""
        if outs is None or not outs:
            return None
        if any(("rest-loop",) in o.events for o in outs):
            return False
        if any(o.tainted for o in outs):
            return None
        return True
    seen_loop = False
    table = []
    for mode in ("model", "script", "general"):
        for label, first, kind in first_slices():
            acc = accepts(decide(ctx, pf, pname, modes[mode], first, kind, recursive=REC))
            wouts = decide(ctx, wf, wname, modes[mode], first, kind, recursive=REC)
            bl = bails(wouts)
            seen_loop = seen_loop or bl is False
            table.append((mode, label, acc, bl))
    if not seen_loop:
        return [ob("C11.agree/shape", None, ctx.where(wf), "no path through the writer reaches a loop over the remaining slices in a form this rule reads: agreement is not decided for this tree")], wf
    # a conditional is assignable when the branch that is taken is: the predicate accepts it iff at least one branch is legal
    F_ = ai.FREE
    for mode in ("model", "script", "general"):
        wrong, und = [], False
        for tb in ("legal", "illegal", "no path"):
            for fb in ("legal", "illegal", "no path"):
                def br(tag, st_):
                    return ("T", (("E", "NotInPath", ()) if st_ == "no path" else ("E", "InPath", (tag,)), F_))
                first = ("E", "Condition", (F_, br("$BR:t", tb), br("$BR:f", fb)))
                outs_ = decide(ctx, pf, pname, modes[mode], first, None, recursive=REC, rec_result={"$BR:t": tb == "legal", "$BR:f": fb == "legal"})
                acc = accepts(outs_)
                want = tb == "legal" or fb == "legal"
                if outs_ is not None and not want and any((o.value == ai.FREE or o.value == ai.UNK or o.tainted) and o.value is not False for o in outs_):
                    acc = None   # an answer that is not a constant: some part of the decision was not followed
                if acc is None:
                    und = True
                elif acc != want:
                    wrong.append("true branch %s, false branch %s: %s" % (tb, fb, "accepted" if acc else "rejected"))
        obs.append(ob("C11.agree/condition/%s" % mode, None if (und and not wrong) else not wrong, ctx.where(pf),
                      "a conditional is accepted iff one of its branches is" if not wrong else "; ".join(wrong[:3]),
                      witness=None if not wrong else "model:value=\"{{ edit ? form.name : '' }}\" loses its path: the edit is not written back"))
    n_acc = 0
    for mode, label, acc, bl in table:
        key = "C11.agree/first/%s/%s" % (mode, label)
        if acc is None or bl is None:
            obs.append(ob(key, None, ctx.where(wf), "mode %s, first slice %s: %s not decided (a construct outside the fragment of the abstract interpreter decides it)" % (mode, label, "predicate" if acc is None else "writer")))
            continue
        n_acc += 1 if acc else 0
        ok = not (acc and bl)
        obs.append(ob(key, ok, ctx.where(wf),
                      "mode %s, first slice %s: predicate %s, writer %s" % (mode, label, "may accept" if acc else "rejects", "bails out (writes nothing for it, the rest of the path is dropped)" if bl else "goes on to the remaining slices"),
                      witness=None if ok else 'bind:tap="{{ (q ? m : m).f }}" emits [2,"p","m"].concat([]) - the member "f" is lost'))
    if n_acc < 6:
        obs.append(ob("C11.floor/accepting", False, ctx.where(pf), "the predicate accepts only %d (mode, first slice) combinations (10 on the reviewed tree): extraction incomplete" % n_acc))
    # remaining slices: a kind the predicate lets through must be written by the writer's loop
    ident = ("E", "Ident", (ai.FREE,))
    pa, wa, und = set(), set(), []
    for v in SLICES:
        outs = decide(ctx, pf, pname, modes["general"], ident, None, rest=v, recursive=REC)
        entered = [o for o in (outs or []) if ("for-enter",) in o.events]
        if outs is None or not entered:
            und.append(v)
            continue
        a_ = accepts(entered)
        if a_ is None:
            und.append(v)
        elif a_:
            pa.add(v)
        wouts = decide(ctx, wf, wname, modes["general"], ident, None, rest=v, recursive=REC)
        went = [o for o in (wouts or []) if ("for-enter",) in o.events]
        for o in went:
            i = o.events.index(("for-enter",))
            if any(ev[0] == "write" and "{}" in ev[1] for ev in o.events[i:]):
                wa.add(v)
        if wouts is None or not went:
            und.append(v)
    if und:
        obs.append(ob("C11.agree/rest", None, ctx.where(wf), "remaining slices %s: not decided (the loops over the remaining slices are written in a form the abstract interpreter does not enter)" % sorted(set(und))))
    else:
        obs.append(ob("C11.agree/rest", pa <= wa and bool(pa), ctx.where(wf), "remaining slices accepted by the predicate %s; written by the writer %s" % (sorted(pa), sorted(wa))))
    return obs, wf


def prefix_rule(ctx, wf):
    ob = ctx.ob
    obs = []
    ts = ctx.ts() or ""
    m = re.search(r"enum\s+GeneralLvaluePathPrefix\s*\{([^}]*)\}", ts)
    enum = {}
    if m:
        for name, val in re.findall(r"(\w+)\s*=\s*(\d+)", m.group(1)):
            enum[name] = int(val)
    if enum != {"Data": 0, "Script": 1, "InlineScript": 2}:
        obs.append(ob("C11.prefix/ts-enum", False, "glass-easel/src/tmpl/proc_gen_wrapper.ts", "GeneralLvaluePathPrefix is %s (expected Data=0, Script=1, InlineScript=2)" % enum))
        return obs
    obs.append(ob("C11.prefix/ts-enum", True, "glass-easel/src/tmpl/proc_gen_wrapper.ts", "GeneralLvaluePathPrefix = %s" % enum))
    # writer fragments per scope kind
    frags = {}
    for n in sir.walk(wf.body):
        if n.get("k") == "arm":
            vs = sir.pat_variants(n["pat"])
            inner = []
            for sub in sir.walk(n["pat"]):
                if sub.get("k") in ("p_ts", "p_struct", "p_path") and sub["segs"][-1] in ("Ident", "Script", "InlineScript", "Var"):
                    inner.append(sub["segs"][-1])
            for x in sir.walk(n["body"]):
                wfc = sir.write_fmt_call(x)
                if wfc and inner:
                    text = "".join(p[1] if p[0] == "lit" else "{%s}" % sir.expr_str(p[1]) for p in wfc[1])
                    frags.setdefault(inner[-1], []).append(text)
                    break
    want = {"Script": r"^1,\{gen_lit_str\(abs_path\)\}$", "InlineScript": r"^2,\{gen_lit_str\(path\)\},\{gen_lit_str\(mod_name\)\}$"}
    for k, rx in want.items():
        got = frags.get(k, [])
        ok = any(re.match(rx, g) for g in got)
        obs.append(ob("C11.prefix/%s" % k, ok, ctx.where(wf), "%s scope path is written as %s (runtime expects prefix %d followed by %s)" % (k, got, enum[k], "abs_path" if k == "Script" else "abs_path, mod_name")))
    idf = frags.get("Ident", [])
    ok = any(g.startswith("0,{gen_lit_str(") for g in idf) and any(g.startswith("{gen_lit_str(") for g in idf)
    obs.append(ob("C11.prefix/Data", ok, ctx.where(wf), "data-field paths are written as %s (general mode: prefix 0; model mode: bare field name)" % idf))
    # slice(1): decided on the writer's abstract outcomes per (mode, first slice)
    import absint as ai
    pred = [f for f in ctx.tc.fns if f.name == "is_legal_lvalue_path" and f.body]
    pname, modes = mode_values(ctx, pred[0]) if pred else (None, None)
    wname = [n for n in wf.param_names() if n not in ("self", "scopes", "w")]
    if not modes or not wname:
        obs.append(ob("C11.prefix/slice1", None, ctx.where(wf), "mode encoding not readable: `.slice(1)` placement is not decided for this tree"))
        return obs
    REC = ("is_legal_lvalue_path", "write_lvalue_path", "to_lvalue_path_arr")
    bad, good, und = [], [], []
    for mode in ("model", "script", "general"):
        for label, first, kind in first_slices():
            outs = decide(ctx, wf, wname[-1], modes[mode], first, kind, recursive=REC)
            if outs is None:
                und.append((mode, label))
                continue
            should = mode == "model" and label == "ScopeIndex:Var/data"
            # where the prefix has to go, every way of writing the path counts - a short cut that returns before the remaining
            # slices are looked at included; elsewhere the outcomes that reach the remaining slices
            went = [o for o in outs if ("rest-loop",) in o.events or (should and any(ev[0] == "write" for ev in o.events))]
            sliced = [o for o in went if any(ev[0] == "write" and ".slice(1)" in ev[1] for ev in o.events)]
            if should and went and len(sliced) == len(went):
                good.append((mode, label))
            elif should:
                bad.append((mode, label, "not sliced"))
            elif sliced:
                bad.append((mode, label, "sliced"))
    if und and not bad:
        obs.append(ob("C11.prefix/slice1", None, ctx.where(wf), "not decided for %s" % und[:3]))
    else:
        obs.append(ob("C11.prefix/slice1", not bad and bool(good), ctx.where(wf), "`.slice(1)` is applied exactly to a spread data-scope loop variable in model mode: %s" % (bad or "yes"),
                      witness=None if not bad else "model:value=\"{{ item.x }}\" inside wx:for over a data list: the runtime drops the list's own key from the path only when .slice(1) is applied to the spread variable"))
    return obs


def ternary_rule(ctx):
    """C11.cond: wherever a conditional path is emitted as `c ? .. : ..`, the true branch sits between `?` and `:` and the false
    branch after `:`."""
    import emitseq as es
    ob = ctx.ob
    tc = ctx.tc
    obs = []
    n = 0
    for f in tc.fns:
        if not f.body or "proc_gen" not in f.module or "expr" not in f.module:
            continue
        names = set()
        for x in sir.walk(f.body):
            if x.get("k") == "p_ident":
                names.add(x["name"])
        tnames = [x for x in names if x.startswith("true")]
        fnames = [x for x in names if x.startswith("false")]
        if not tnames or not fnames:
            continue
        seq = []
        for x in sir.walk(f.body):
            wfc = sir.write_fmt_call(x)
            if wfc:
                for pc in wfc[1]:
                    if pc[0] == "lit":
                        seq.append(("lit", pc[1]))
                    else:
                        seq.append(("hole", sir.expr_str(pc[1])))
            elif x.get("k") == "mcall" and sir.root_expr_name(x["recv"]) in tnames + fnames and x["m"] not in ("is_legal_lvalue_path",):
                seq.append(("call", x["m"], sir.root_expr_name(x["recv"])))
            elif x.get("k") == "arm":
                seq.append(("lit", "\x02"))
        state = None
        for t in seq:
            if t[0] == "lit":
                txt = t[1]
                if txt.endswith("?"):
                    state = "true"
                elif txt.startswith(":") or txt == ":":
                    state = "false" if state in ("true", "true-seen") else None
                elif txt in ("\x02", "\x03"):
                    state = None
                continue
            ref = t[2] if t[0] == "call" else t[1]
            used_t = any(re.search(r"\b%s\b" % re.escape(x), ref) for x in tnames)
            used_f = any(re.search(r"\b%s\b" % re.escape(x), ref) for x in fnames)
            if not (used_t or used_f):
                continue
            n += 1
            key = "C11.cond/%s#%d" % (f.qual, n)
            if state in ("true", "true-seen"):
                okk = used_t and not used_f
                obs.append(ob(key, okk, ctx.where(f), "between `?` and `:` the emitter writes %s" % ref, witness=None if okk else "(c ? a : b).z : both sides of the emitted path conditional name the same branch"))
                state = "true-seen"
            elif state == "false":
                okk = used_f and not used_t
                obs.append(ob(key, okk, ctx.where(f), "after `:` the emitter writes %s" % ref, witness=None if okk else "(c ? a : b).z : both sides of the emitted path conditional name the same branch"))
                state = None
    if n < 6:
        obs.append(ob("C11.floor/ternaries", False, "proc_gen/expr.rs", "only %d conditional branch emissions found (floor 6)" % n))
    return obs


def computed_mode_site(ctx, f, site, key, recv, outer_held, guard_of_mode, mode_nodes):
    """an emission whose mode argument is not a constant: the innermost closure (or the function) around it is interpreted
    abstractly; on every path that reaches the emission the mode value must be one for which the matching guard returned
    true on that path (or holds outside, `outer_held`)"""
    import absint as ai
    ob = ctx.ob
    pm = sir.parent_map(f.body)
    body = f.body
    p = site
    while id(p) in pm:
        p = pm[id(p)]
        if p.get("k") == "closure":
            body = p["body"]
            break
    all_guards = set(g for gs_ in guard_of_mode.values() for g in gs_)

    def hooks(it, e, st):
        if e.get("k") == "mcall" and e["m"] in all_guards:
            r = sir.expr_str(e["recv"])
            return [(True, st.event(("held", r, e["m"]))), (False, st)]
        if e.get("k") == "mcall" and e["m"] == "lvalue_path" and len(e["args"]) == 3:
            vals = [o.value for o in it.ev(e["args"][2], st) if o.kind == "val"]
            return [(("Ok", ai.UNIT), st.event(("emit", id(e), vals[0] if len(vals) == 1 else ai.UNK)))]
        return None
    it = ai.Interp(hooks=hooks, idx=ctx.tc)
    try:
        outs = it.run(body, {})
    except ai.TooManyPaths:
        outs = None
    if outs is None:
        return ob(key, None, ctx.where(f), "computed mode `%s`: too many paths to follow" % sir.expr_str(site["args"][2]))
    mode_vals = {}
    for mstr, node in mode_nodes.items():
        vs = [o.value for o in ai.Interp().run(node, {}) if o.kind == "val"]
        if len(vs) == 1 and not ai.is_unknown(vs[0]):
            mode_vals[mstr] = vs[0]
    seen, bad, und = 0, [], []
    for o in outs:
        for i, ev in enumerate(o.events):
            if ev[0] == "emit" and ev[1] == id(site):
                seen += 1
                mstr = [m_ for m_, v_ in mode_vals.items() if v_ == ev[2]]
                if ai.is_unknown(ev[2]) or not mstr:
                    und.append(ev[2])
                    continue
                names = guard_of_mode[mstr[0]]
                held = [(h[1], h[2]) for h in o.events[:i] if h[0] == "held"] + list(outer_held)
                if not any(r == recv and m in names for r, m in held):
                    bad.append((mstr[0], held[:3]))
    if bad:
        return ob(key, False, ctx.where(f), "on some path lvalue_path(%s) is emitted without `%s.%s(..)` having returned true (held there: %s)" % (bad[0][0], recv, "|".join(sorted(guard_of_mode[bad[0][0]])), bad[0][1]))
    if und or not seen:
        return ob(key, None, ctx.where(f), "computed mode `%s` could not be followed to a constant on every path: the guard of this emission is not decided for this tree" % sir.expr_str(site["args"][2]))
    return ob(key, True, ctx.where(f), "computed mode: on each of the %d paths reaching the emission the mode value is one whose guard returned true on that path" % seen)


def guard_rule(ctx):
    import guards as G
    ob = ctx.ob
    tc = ctx.tc
    obs = []
    n = 0
    # the guard of a mode is whichever method asks the legality predicate with that mode (`has_model_lvalue_path` ..): read from
    # the code, so that the encoding of the mode (Option<bool>, an enum) does not matter
    guard_of_mode = {}
    mode_nodes = {}
    # legality may be asked through pass-through helpers (`has_legal_lvalue_path(scopes, mode)` handing its own parameter on)
    asks = {"is_legal_lvalue_path": 1}   # method name -> index of the mode argument
    for _round in range(3):
        for g in tc.fns:
            if not g.body or g.name in asks or g.ret != "bool":
                continue
            pn = [x for x in g.param_names() if x != "self"]
            for x in sir.walk(g.body):
                if x.get("k") == "mcall" and x["m"] in asks and len(x["args"]) > asks[x["m"]]:
                    a_ = sir.strip_ref(x["args"][asks[x["m"]]])
                    if a_.get("k") == "path" and len(a_["segs"]) == 1 and a_["segs"][0] in pn:
                        asks[g.name] = pn.index(a_["segs"][0])
    for g in tc.fns:
        if not g.body or g.name in asks:
            continue
        for x in sir.walk(g.body):
            if x.get("k") == "mcall" and x["m"] in asks and len(x["args"]) > asks[x["m"]] and g.ret == "bool":
                marg = x["args"][asks[x["m"]]]
                guard_of_mode.setdefault(sir.expr_str(marg), set()).add(g.name)
                mode_nodes[sir.expr_str(marg)] = marg
    if len(guard_of_mode) < 3:
        return [ob("C11.guard/anchor", False, "proc_gen/expr.rs", "the per-mode guards (methods asking is_legal_lvalue_path with a fixed mode) were not found: %s" % guard_of_mode)]
    for f in tc.fns:
        if not f.body or "proc_gen" not in f.module or "tag" not in f.module:
            continue
        gs = None
        for x in sir.walk(f.body):
            if x.get("k") == "mcall" and x["m"] == "lvalue_path" and len(x["args"]) == 3:
                n += 1
                mode = sir.expr_str(x["args"][2])
                recv = sir.expr_str(x["recv"])
                gs = gs or G.guards_of(f.body)
                held = []   # (receiver, method) of every call in a condition that is true where the emission runs
                for kind, subj, pol in gs.get(id(x), []):
                    if kind == "cond" and pol:
                        for y in sir.walk(subj):
                            if y.get("k") == "mcall":
                                held.append((sir.expr_str(y["recv"]), y["m"]))
                        if subj.get("k") in ("path", "field"):
                            held.append(("", sir.expr_str(subj)))
                    if kind == "pat" and pol:
                        held.append(("", sir.expr_str(subj[0]) + "~" + subj[1]))
                key = "C11.guard/%s/%s#%d" % (f.qual, mode, n)
                names = guard_of_mode.get(mode)
                if names is None:
                    # the mode is computed (`Some(model)` with `model` chosen together with the guard): follow the values
                    obs.append(computed_mode_site(ctx, f, x, key, recv, held, guard_of_mode, mode_nodes))
                    continue
                ok = any(r == recv and m in names for r, m in held)
                if not ok and any("general" in nm for nm in names):
                    ok = any("lvalue_path_from_data_scope" in m or "lvalue_path_from_data_scope" in r for r, m in held)
                obs.append(ob(key, ok, ctx.where(f), "lvalue_path(%s) is emitted under `%s.%s(..)`; conditions holding there: %s" % (mode, recv, "|".join(sorted(names)), [("%s.%s" % h) for h in held][:4])))
    if n < 5:
        obs.append(ob("C11.floor/lvalue-sites", False, "proc_gen/tag.rs", "only %d lvalue_path emissions found (floor 5; 10 on the reviewed tree, fewer when shared through a helper)" % n))
    return obs


def never_rule(ctx):
    ob = ctx.ob
    tc = ctx.tc
    obs = []
    model = ExprModel(tc)
    g = pt.main_expression_fn(tc, model, "proc_gen")
    if g is None:
        return [ob("C11.never/anchor", False, "proc_gen/expr.rs", "expression generator not found")]
    genf, gm, _n = g
    table = arm_table(gm, model)
    access = {"ScopeRef", "DataField", "StaticMember", "DynamicMember", "Cond", "LitObj", "LitArr"}
    for v in model.variants:
        if v not in table or v in access:
            continue
        arm, _case = table[v][0]
        b = arm["body"]
        tail = None
        if b.get("k") == "block" and b["stmts"]:
            last = b["stmts"][-1]
            if last.get("k") == "expr" and not last.get("semi"):
                tail = last["e"]
        else:
            tail = b
        ok = tail is not None and tail.get("k") == "path" and tail["segs"][-1] == "NotInPath"
        obs.append(ob("C11.never/%s" % v, ok, ctx.where(genf), "%s is not assignable; its arm returns %s" % (v, sir.expr_str(tail) if tail is not None else "?")))
    # the access forms extend the path of their object whatever their own operand looks like: `a.b` adds a member slice, `a[e]`
    # an indirect slice - no guard on the shape of `e` (an index computed by operators is as much a position as a plain one)
    for v, slice_ in (("StaticMember", "StaticMember"), ("DynamicMember", "IndirectValue")):
        if v not in table:
            continue
        arm, _case = table[v][0]
        inpath_arms = []
        for n in sir.walk(arm["body"]):
            if n.get("k") == "match":
                for a_ in n["arms"]:
                    if re.search(r"\bInPath\b", sir.pat_str(a_["pat"])):
                        inpath_arms.append(a_)
            if n.get("k") == "if" and n["cond"].get("k") == "let" and re.search(r"\bInPath\b", sir.pat_str(n["cond"]["pat"])):
                inpath_arms.append({"pat": n["cond"]["pat"], "guard": None, "body": n["then"]})
        if not inpath_arms:
            obs.append(ob("C11.never/extends/%s" % v, None, ctx.where(genf), "the arm does not inspect the object's path state in a form this rule reads"))
            continue
        guarded = [a_ for a_ in inpath_arms if a_.get("guard") is not None]
        pushing = [a_ for a_ in inpath_arms if any(x.get("k") in ("call", "path") and (sir.call_path(x) if x.get("k") == "call" else x.get("s", "")).endswith("PathSlice::" + slice_) for x in sir.walk(a_["body"]))]
        dropping = [a_ for a_ in inpath_arms if any(x.get("k") == "path" and x["segs"][-1] == "NotInPath" for x in sir.walk(a_["body"]))]
        okx = not guarded and not dropping and len(pushing) == len(inpath_arms)
        obs.append(ob("C11.never/extends/%s" % v, okx, ctx.where(genf),
                      "an in-path object always yields an in-path access with a `%s` slice appended" % slice_ if okx else
                      "the path of an in-path object is %s" % ("extended only under a condition on the operand (`if %s`)" % sir.expr_str(guarded[0]["guard"])[:60] if guarded else "given up (NotInPath) in some case" if dropping else "not extended by a `%s` slice in every case" % slice_),
                      witness=None if okx else 'model:value="{{ list[idx + 1] }}" gets no l-value path: the write-back is lost'))
    # scope kinds
    ef = [f for f in tc.fns if f.base == "Element" and f.name == "to_proc_gen" and f.body]
    if ef:
        f = ef[0]
        pushes = []
        for x in sir.walk(f.body):
            if x.get("k") == "struct" and x["path"].endswith("ScopeVar"):
                fl = {y["name"]: y["e"] for y in x["fields"]}
                pushes.append((sir.expr_str(fl.get("var")), fl.get("lvalue_path")))
        idx = [p for p in pushes if "index" in p[0]]
        item = [p for p in pushes if "item" in p[0] and "index" not in p[0]]
        ok_idx = bool(idx) and all(sir.expr_str(p[1]).endswith("Invalid") for p in idx)
        obs.append(ob("C11.never/for-index", ok_idx, ctx.where(f), "loop index scope has lvalue_path %s" % [sir.expr_str(p[1]) for p in idx]))
        # item: `Var {..}` exactly when lvalue_path_from_data_scope is Some, `Invalid` otherwise (if-let / match / map..unwrap_or)
        import guards as gd
        ok_item = None
        for p in item:
            e = p[1]
            if e is None:
                continue
            G = gd.guards_of(e)
            vars_ = [x for x in sir.walk(e) if x.get("k") == "struct" and x["path"].endswith("Var")]
            invs = [x for x in sir.walk(e) if x.get("k") == "path" and x["segs"][-1] == "Invalid"]
            m_l = lambda ex: "lvalue_path_from_data_scope" in sir.expr_str(ex)
            if vars_ and invs:
                sv_ = [gd.option_state(G.get(id(x), []), m_l) for x in vars_]
                si_ = [gd.option_state(G.get(id(x), []), m_l) for x in invs]
                if all(x == "some" for x in sv_) and (all(x == "none" for x in si_) or any(n_.get("k") == "mcall" and n_["m"] in ("unwrap_or", "unwrap_or_else", "map_or") for n_ in sir.walk(e))):
                    ok_item = True
                elif any(x == "none" for x in sv_) or any(x == "some" for x in si_):
                    ok_item = False
            elif vars_ and not invs:
                ok_item = False
        obs.append(ob("C11.never/for-item", ok_item, ctx.where(f), "loop item carries a path exactly when the list expression has one (else Invalid): %s" % ok_item))
        # decision of lvalue_path_from_data_scope, read as a table over (has model path, has script path)
        import minieval
        dec = [x for x in sir.walk(f.body) if x.get("k") == "local" and x["pat"].get("name") == "lvalue_path_from_data_scope"]
        okd = None
        tab = {}
        if dec:
            # the arm for a dynamic list expression
            arms = [a for m_ in sir.walk(dec[0]["init"]) if m_.get("k") == "match" for a in m_["arms"] if "Dynamic" in sir.pat_str(a["pat"])]
            body = arms[0]["body"] if arms else dec[0]["init"]
            try:
                for mv in (True, False):
                    for sv in (True, False):
                        env = {"$mcall": {"has_model_lvalue_path": mv, "has_script_lvalue_path": sv}}
                        # bind the two locals (whatever they are called) by their initialisers
                        for st in sir.walk(body):
                            if st.get("k") == "local" and st["pat"].get("k") == "p_ident" and st.get("init") is not None:
                                t_ = sir.expr_str(st["init"])
                                if "has_model_lvalue_path" in t_:
                                    env[st["pat"]["name"]] = mv
                                elif "has_script_lvalue_path" in t_:
                                    env[st["pat"]["name"]] = sv
                        tab[(mv, sv)] = minieval.ev(body, env)
                okd = tab == {(True, True): None, (True, False): ("Some", True), (False, True): ("Some", False), (False, False): None}
            except minieval.Unknown:
                okd = None
        obs.append(ob("C11.never/for-ambiguous", okd, ctx.where(f), "list path kind by (has model path, has script path): %s (expected: both -> none, model only -> data scope, script only -> script, neither -> none)" % (tab or "not read")))
        # the list's own path is handed to the runtime (`F(list, key, state, PATH, ..)`) exactly when the item scope was declared
        # with a path: the item paths emitted inside the loop spread that array
        import absint as ai
        pm = sir.parent_map(f.body)
        sites = [x for x in sir.walk(f.body) if x.get("k") == "mcall" and x["m"] == "lvalue_path" and len(x["args"]) == 3 and sir.expr_str(x["args"][2]) == "None"]
        okl = None
        dl = "emission of the list path not found in a form this rule reads"
        for c in sites:
            cur = c
            node = None
            while id(cur) in pm:
                cur = pm[id(cur)]
                if cur.get("k") in ("if", "match") and "lvalue_path_from_data_scope" in sir.expr_str(cur.get("cond") or cur.get("e")):
                    node = cur
                    break
            if node is None:
                continue

            def hooks(it, e, st):
                if e.get("k") == "mcall" and e["m"] == "lvalue_path":
                    return [(("Ok", ai.UNIT), st.event(("path",)))]
                return None
            res = {}
            for nm, val in (("none", ai.NONE), ("data scope", ("Some", True)), ("script", ("Some", False))):
                it = ai.Interp(hooks=hooks, idx=tc)
                try:
                    outs = it.run(node, {"lvalue_path_from_data_scope": val, "w": ai.FREE, "p": ai.FREE, "scopes": ai.FREE})
                except ai.TooManyPaths:
                    outs = []
                kinds = set()
                for o in outs:
                    if o.tainted:
                        kinds.add("?")
                    kinds.add("path" if any(ev[0] == "path" for ev in o.events) else "null" if any(ev[0] == "write" and "null" in ev[1] for ev in o.events) else "nothing")
                res[nm] = sorted(kinds)
            if any("?" in v or not v for v in res.values()):
                continue
            okl = res == {"none": ["null"], "data scope": ["path"], "script": ["path"]}
            dl = "the list path is written for %s" % res
        obs.append(ob("C11.never/for-list-path", okl, ctx.where(f), dl,
                      witness=None if okl is not False else "wx:for over a list of a wxs module with an event binding on the item: F(..,null,..) while the item emits [...h,\"f\"], spreading null"))
    inner = [f for f in tc.fns if f.name == "to_proc_gen_define_children_content_inner" and f.body]
    if inner:
        f = inner[0]
        sv = [x for x in sir.walk(f.body) if x.get("k") == "struct" and x["path"].endswith("ScopeVar")]
        ok = bool(sv) and all(any(y["name"] == "lvalue_path" and sir.expr_str(y["e"]).endswith("Invalid") for y in x["fields"]) for x in sv)
        obs.append(ob("C11.never/slot-values", ok, ctx.where(f), "slot-value scopes are never assignable: %s" % ok))
    return obs


def hole_rule(ctx):
    """path arrays are written without empty elements: `[,"g"]` / `[a,,b]` (lib/dyck.py follows the separator flags)"""
    import dyck
    ob = ctx.ob
    tc = ctx.tc
    fns = [f for f in tc.fns if f.body and f.module[:1] in (["proc_gen"], ["group"], ["binding_map"])]
    A = dyck.Analyzer(tc, fns)
    for f in fns:
        A.summary(f)
    obs = []
    targets = [f for f in fns if "lvalue" in f.name or f.name in ("to_lvalue_path_arr", "write_lvalue_path")]
    for f in targets:
        hs = sorted(A.holes.get(f.qual, []))
        obs.append(ob("C11.agree/no-hole/%s" % f.qual, not hs, ctx.where(f), "; ".join(hs) if hs else "no path through the separator flags writes an empty array element",
                      witness=None if not hs else "`(c ? m : n).g` as an l-value yields `[..].concat([,\"g\"])`: a hole instead of the member name"))
    if len(targets) < 3:
        obs.append(ob("C11.floor/no-hole", False, "proc_gen/expr.rs", "only %d l-value path writers found (floor 3)" % len(targets)))
    return obs


def wave10_rules(ctx):
    """obligations added after the tenth wave of seeded changes (all shared: the same code carries the other property too)"""
    from share import relabel
    obs = []
    # a conditional always yields a Condition slice holding both branches: its path is the path of the branch taken (C06)
    from rules.c06 import wave8_rules as c06_w8
    obs += relabel(c06_w8(ctx), "C06.paths/Cond/result", "C11.cond/result")
    # the module path of an inline script is the path it is registered under (C13)
    from rules.c13 import same_rule
    obs += relabel(same_rule(ctx), "C13.same/inline-descriptor", "C11.prefix/inline-descriptor")
    # what the expression generator pastes after `.` is a validated member name, never a string value: value and path then
    # address the same member (C02.holes)
    from rules.c02 import holes_rule
    o, _sites = holes_rule(ctx)
    obs += relabel(o, "C02.holes/Expression::to_proc_gen_rec", "C11.member/holes")
    return obs


def wave7_rules(ctx):
    """obligations added after the seventh wave of seeded changes"""
    import guards as G
    ob = ctx.ob
    tc = ctx.tc
    obs = []
    # (1) inside the path module a path array is printed in the mode in which it was found legal: the guard's mode argument and
    #     the printer's mode argument are the same expression
    n_sites = 0
    for f in tc.fns:
        if not f.body or f.module[:2] != ["proc_gen", "expr"]:
            continue
        gs = None
        for x in sir.walk(f.body):
            if x.get("k") == "mcall" and x["m"] == "to_lvalue_path_arr" and len(x["args"]) == 3:
                n_sites += 1
                gs = gs or G.guards_of(f.body)
                recv = sir.expr_str(x["recv"])
                mode = sir.expr_str(x["args"][2])
                asked = []
                for kind, subj, pol in gs.get(id(x), []):
                    if kind == "cond" and pol:
                        for y in sir.walk(subj):
                            if y.get("k") == "mcall" and y["m"] == "is_legal_lvalue_path" and len(y["args"]) == 2 and sir.expr_str(y["recv"]) == recv:
                                asked.append(sir.expr_str(y["args"][1]))
                if not asked:
                    continue    # guarded by the caller (C11.guard)
                ok = mode in asked
                obs.append(ob("C11.guard/internal/%s" % f.qual.split("::")[-1], ok, ctx.where(f), "`%s` is found legal in mode %s and printed in mode `%s`" % (recv, asked, mode),
                              witness=None if ok else "model:v=\"{{ c ? a.b : m.x }}\" prints `[]` for the script branch instead of `null`"))
    # (2) the module path recorded for a <wxs src> scope is the path the module is loaded from
    tp = [f for f in tc.fns if f.base == "Template" and f.name == "to_proc_gen" and f.body]
    if tp:
        f = tp[0]
        stored = [fl["e"] for n in sir.walk(f.body) if n.get("k") == "struct" and n["segs"][-1] == "Script" and "ScopeVarLvaluePath" in n["path"] for fl in n["fields"] if fl["name"] == "abs_path"]
        loaded = []
        for n in sir.walk(f.body):
            wfc = sir.write_fmt_call(n)
            if wfc:
                text = "".join(p_[1] if p_[0] == "lit" else "{}" for p_ in wfc[1])
                if re.search(r"=R\[\{\}\]\(\)", text):
                    loaded += [sir.expr_str(sir.strip_ref(a)) for p_ in wfc[1] if p_[0] == "hole" and isinstance(p_[1], dict) and p_[1].get("k") == "call" and sir.call_name(p_[1]) == "gen_lit_str" for a in p_[1]["args"]]
        if stored and loaded:
            names = [sir.expr_str(sir.strip_ref(e_)) for e_ in stored]
            ok = all(nm in loaded for nm in names)
            obs.append(ob("C11.prefix/script-path-origin", ok, ctx.where(f), "a script scope records the path `%s`; the module is loaded from `R[%s]`" % (names, loaded),
                          witness=None if ok else "a template in a sub-directory with a relative <wxs src>: paths name a different module than the one that is read"))
        else:
            obs.append(ob("C11.prefix/script-path-origin", None, ctx.where(f), "script prologue not in a form this rule reads"))
    return obs


def run(ctx):
    r = agree_rule(ctx)
    if isinstance(r, tuple):
        obs, wf = r
        obs += prefix_rule(ctx, wf)
    else:
        obs = r
    obs += guard_rule(ctx)
    obs += wave7_rules(ctx)
    obs += wave10_rules(ctx)
    obs += ternary_rule(ctx)
    obs += never_rule(ctx)
    from rules.c07 import emit_rule
    for f in ctx.tc.fns:
        if hasattr(f, "_map_idx"):
            del f._map_idx
    for x in emit_rule(ctx):
        if "/agree/" in x["key"]:
            x = dict(x)
            x["key"] = x["key"].replace("C07.emit/agree", "C11.sibling")
            obs.append(x)
    obs += hole_rule(ctx)
    return obs
