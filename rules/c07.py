"""C07 - binding-map fast path is sound and only offered where complete (structural half)."""
import json, os, re
import sir
import emitseq as es
from exprmodel import ExprModel

RULE = ("C07.children: collect/disable walk the sub-expression iterators, which must cover every child of every variant (C05.children). "
        "C07.values: for_each_value_mut visits every field of every ElementKind variant whose type can hold a Value (computed from the "
        "type definitions) and passes disable=true exactly for the structural positions (if conditions, for list, template target/data, "
        "slot name and slot values, virtual-node slot). C07.dynamic: the dynamic-tree table marks exactly For, If, TemplateRef, Include, "
        "Slot; Include disables the whole collector; <template name> bodies are analysed with the counter positive and generated with an "
        "empty collector; a value is mapped only when the counter is zero and disable is false. C07.emit: (i) every generator arm that "
        "destructures Value::Dynamic either binds binding_map_keys and registers an updater, or belongs to a dynamic-tree element kind / "
        "tabled structural helper; (ii) the updater closure re-emits the same call as the tree-update statement next to it (same fragments, "
        "holes and argument order) modulo the guard prefix; (iii) the updater prepares its expression inside the closure.")
EXPLANATION = ("Visit completeness, the dynamic-tree table and sibling agreement between the two emitters of each setter are decided on "
               "the syntax tree for all element kinds and attribute families; trees are never rendered.")
ASSUMPTIONS = ["the runtime calls exactly the updaters registered under A[field][i]", "refs/binding_map_structural.json lists the structural positions named in the property"]

REFS = os.path.join(os.path.dirname(os.path.dirname(os.path.abspath(__file__))), "refs")


def value_bearing(tc):
    """type name -> True if a value of the type can (transitively) hold a parse::tag::Value (children Vec<Node> excluded)."""
    memo = {}

    def holds(ty, depth=0):
        t = ty.replace(" ", "")
        if depth > 8:
            return False
        if re.search(r"\bValue\b", t):
            return True
        found = False
        for name in set(re.findall(r"\b[A-Z]\w+\b", t)):
            if name in ("Vec", "Option", "Box", "Range", "Position", "Node", "Ident", "StrName", "CompactString", "String", "Value"):
                continue
            if name in memo:
                found = found or memo[name]
                continue
            memo[name] = False
            st = tc.struct(name)
            en = tc.enum(name)
            r = False
            if st is not None:
                r = any(holds(f["ty"], depth + 1) for f in st["fields"])
            elif en is not None:
                r = any(holds(f["ty"], depth + 1) for v in en["variants"] for f in v["fields"])
            memo[name] = r
            found = found or r
        return found
    return holds


def _chain_roots(e):
    """variables an iterator chain draws from: the root of the receiver chain and of every `.chain(..)` / `.zip(..)` argument"""
    out = set()
    e = sir.strip_ref(e) if isinstance(e, dict) else e
    r = sir.root_expr_name(e)
    if r:
        out.add(r)
    cur = e
    while isinstance(cur, dict) and cur.get("k") in ("mcall", "field", "index", "try", "unary", "ref"):
        if cur.get("k") == "mcall" and cur["m"] in ("chain", "zip"):
            for a in cur["args"]:
                out |= _chain_roots(a)
        cur = cur.get("recv") or cur.get("base") or cur.get("e")
        cur = sir.strip_ref(cur) if isinstance(cur, dict) else cur
    return out


def _derive_aliases(body, aliases, rounds=4):
    """names that hold (parts of) the values named in `aliases`: loop variables, if-let / match bindings, locals initialised from
    them, and the parameters of closures handed to an iterator chain over them"""
    aliases = set(aliases)
    for _ in range(rounds):
        before = len(aliases)
        for n in sir.walk(body):
            k = n.get("k")
            if k == "for" and _chain_roots(n["e"]) & aliases:
                aliases.update(nm for nm, _p in sir.pat_bindings(n["pat"]))
            elif k in ("if", "while") and n["cond"].get("k") == "let" and _chain_roots(n["cond"]["e"]) & aliases:
                aliases.update(nm for nm, _p in sir.pat_bindings(n["cond"]["pat"]))
            elif k == "match" and _chain_roots(n["e"]) & aliases:
                for a in n["arms"]:
                    aliases.update(nm for nm, _p in sir.pat_bindings(a["pat"]))
            elif k == "local" and n.get("init") is not None and _chain_roots(n["init"]) & aliases:
                aliases.update(nm for nm, _p in sir.pat_bindings(n["pat"]))
            elif k == "mcall" and any(isinstance(a, dict) and a.get("k") == "closure" for a in n["args"]) and _chain_roots(n["recv"]) & aliases:
                for a in n["args"]:
                    if a.get("k") == "closure":
                        for p_ in a.get("params", []):
                            pp = p_.get("pat", p_) if isinstance(p_, dict) else None
                            if isinstance(pp, dict):
                                aliases.update(nm for nm, _p in sir.pat_bindings(pp))
        if len(aliases) == before:
            break
    return aliases


def values_rule(ctx):
    ob = ctx.ob
    tc = ctx.tc
    obs = []
    ek = tc.enum("ElementKind")
    if ek is None:
        return [ob("C07.values/anchor", False, "parse/tag.rs", "enum ElementKind not found")]
    holds = value_bearing(tc)
    structural = json.load(open(os.path.join(REFS, "binding_map_structural.json")))["structural"]
    fe = [f for f in tc.fns if f.name == "for_each_value_mut" and f.base == "Element" and f.body]
    if len(fe) != 1:
        return [ob("C07.values/anchor", False, "parse/tag.rs", "Element::for_each_value_mut not found")]
    f = fe[0]
    where = ctx.where(f)
    m = None
    for n in sir.walk(f.body):
        if n.get("k") == "match" and len(n["arms"]) >= 6:
            m = n
            break
    if m is None:
        return [ob("C07.values/anchor", False, where, "match over ElementKind not found")]
    cb = f.param_names()[-1]
    for v in ek["variants"]:
        vname = v["name"]
        arm = None
        for a in m["arms"]:
            if vname in sir.pat_variants(a["pat"]):
                arm = a
        vb = [fl["name"] for fl in v["fields"] if holds(fl["ty"]) and fl["name"] != "children"]
        if arm is None:
            obs.append(ob("C07.values/%s" % vname, not vb, where, "no arm for %s (value-bearing fields %s)" % (vname, vb)))
            continue
        case = arm["pat"]["cases"][0] if arm["pat"].get("k") == "p_or" else arm["pat"]
        bound = {}
        if case.get("k") == "p_struct":
            for fl in case["fields"]:
                p = fl["pat"]
                bound[fl["name"]] = p.get("name") if p.get("k") == "p_ident" else None
        toks = []
        for fname in vb:
            key = "C07.values/%s.%s" % (vname, fname)
            b = bound.get(fname)
            if b is None:
                obs.append(ob(key, False, where, "field `%s` of %s can hold a Value but is ignored by for_each_value_mut (`_` / `..`): its bindings are never scope-converted nor registered" % (fname, vname)))
                continue
            # calls f(<something derived from b>, flag) or <b>.for_each_value_mut(f)
            flags = []
            delegated = False
            aliases = _derive_aliases(arm["body"], {b})
            for n in sir.walk(arm["body"]):
                if n.get("k") == "call" and sir.expr_str(n["f"]) == cb and len(n["args"]) == 2 and sir.root_expr_name(n["args"][0]) in aliases:
                    flags.append(n["args"][1].get("v"))
                if n.get("k") == "mcall" and n["m"] == f.name and sir.root_expr_name(n["recv"]) in aliases:
                    delegated = True
            want = ("%s.%s" % (vname, fname)) in structural
            if delegated:
                obs.append(ob(key, True, where, "delegated to %s.for_each_value_mut" % b))
            elif not flags:
                obs.append(ob(key, False, where, "field `%s` is bound but never passed to the visitor" % fname))
            elif any(fl is not want for fl in flags):
                obs.append(ob(key, False, where, "visited with disable_binding_map=%s, expected %s (%s position)" % (flags, want, "structural" if want else "mappable"),
                              witness="a field used only in that position is advertised in the binding map although the map cannot reach it" if want else None))
            else:
                obs.append(ob(key, True, where, "visited with disable_binding_map=%s" % want))
    # CommonElementAttributes
    ce = [g for g in tc.fns if g.name == "for_each_value_mut" and g.base == "CommonElementAttributes" and g.body]
    st = tc.struct("CommonElementAttributes")
    if len(ce) != 1 or st is None:
        obs.append(ob("C07.values/common/anchor", False, "parse/tag.rs", "CommonElementAttributes::for_each_value_mut not found"))
    else:
        g = ce[0]
        cbn = g.param_names()[-1]
        pat = None
        for n in sir.walk(g.body):
            if n.get("k") == "local" and n["pat"].get("k") == "p_struct" and n["pat"]["segs"][-1] == "CommonElementAttributes":
                pat = n["pat"]
        bound = {}
        if pat:
            for fl in pat["fields"]:
                bound[fl["name"]] = fl["pat"].get("name") if fl["pat"].get("k") == "p_ident" else None
        for fl in st["fields"]:
            if not holds(fl["ty"]):
                continue
            key = "C07.values/Common.%s" % fl["name"]
            b = bound.get(fl["name"]) if pat else fl["name"]
            if b is None:
                obs.append(ob(key, False, ctx.where(g), "field `%s` can hold a Value but is ignored" % fl["name"]))
                continue
            aliases = _derive_aliases(g.body, {b})
            flags = [n["args"][1].get("v") for n in sir.walk(g.body) if n.get("k") == "call" and sir.expr_str(n["f"]) == cbn and len(n["args"]) == 2 and sir.root_expr_name(n["args"][0]) in aliases]
            obs.append(ob(key, bool(flags) and all(x is False for x in flags), ctx.where(g), "visited with disable_binding_map=%s" % flags))
    return obs


def dynamic_rule(ctx):
    ob = ctx.ob
    tc = ctx.tc
    obs = []
    cands = [f for f in tc.fns if f.base == "Element" and f.body and any(n.get("k") == "mcall" and n["m"] == "for_each_value_mut" for n in sir.walk(f.body))
             and any(n.get("k") == "mcall" and n["m"] == "truncate" for n in sir.walk(f.body))]
    if len(cands) != 1:
        return [ob("C07.dynamic/anchor", False, "parse/tag.rs", "scope/binding-map analysis pass not found")]
    f = cands[0]
    where = ctx.where(f)
    tables = {}
    for n in sir.walk(f.body):
        if n.get("k") == "local" and n.get("init") is not None and n["init"].get("k") == "match" and n["pat"].get("k") == "p_ident":
            t = {}
            for a in n["init"]["arms"]:
                b = a["body"]
                if b.get("k") == "lit" and b.get("t") == "bool":
                    for v in sir.pat_variants(a["pat"]):
                        t[v] = b["v"]
            if t:
                tables[n["pat"]["name"]] = t
    ek = tc.enum("ElementKind")
    variants = [v["name"] for v in ek["variants"]] if ek else []
    want_dyn = {"For": True, "If": True, "TemplateRef": True, "Include": True, "Slot": True, "Normal": False, "Pure": False}
    dyn = None
    glob = None
    for name, t in tables.items():
        if t.get("For") is True and t.get("If") is True:
            dyn = (name, t)
        elif t.get("Include") is True and sum(1 for x in t.values() if x) == 1:
            glob = (name, t)
    if dyn is None:
        obs.append(ob("C07.dynamic/table", False, where, "dynamic-tree table not found (candidates %s)" % list(tables)))
    else:
        for v in variants:
            w = want_dyn.get(v)
            got = dyn[1].get(v)
            if w is None:
                obs.append(ob("C07.dynamic/table/%s" % v, got is not None, where, "new element kind %s: table says %s" % (v, got)))
            else:
                obs.append(ob("C07.dynamic/table/%s" % v, got is w, where, "%s subtree instances %s unique per template instance; table marks dynamic=%s" % (v, "are not" if w else "are", got),
                              witness=("<a wx:if=\"{{c}}\" x=\"{{f}}\"/> : `f` is advertised although the element may not exist" if w and not got else None)))
        # counter discipline
        name = dyn[0]
        nodes = list(sir.walk(f.body))
        inc = [i for i, n in enumerate(nodes) if n.get("k") == "binary" and n["op"] == "+=" and "inside_dynamic_tree" in sir.expr_str(n["l"])]
        dec = [i for i, n in enumerate(nodes) if n.get("k") == "binary" and n["op"] == "-=" and "inside_dynamic_tree" in sir.expr_str(n["l"])]
        values = [i for i, n in enumerate(nodes) if n.get("k") == "mcall" and n["m"] == "for_each_value_mut"]
        rec_helpers = set(g_.name for g_ in tc.fns if g_.body and g_ is not f and g_.name != f.name and any(x.get("k") == "mcall" and x["m"] == f.name for x in sir.walk(g_.body)) and "parse" in g_.module)
        rec = [i for i, n in enumerate(nodes) if (n.get("k") == "mcall" and n["m"] == f.name and sir.expr_str(n["recv"]) != "self" and len(n["args"]) == 1)
               or (n.get("k") in ("call", "mcall") and (sir.call_name(n) or "").split("::")[-1] in rec_helpers)]
        guarded = True
        pm = sir.parent_map(f.body)
        for i in inc + dec:
            p = nodes[i]
            okg = False
            while id(p) in pm:
                p = pm[id(p)]
                if p.get("k") == "if" and sir.expr_str(p["cond"]) == name:
                    okg = True
            guarded = guarded and okg
        ok = len(inc) == 1 and len(dec) == 1 and values and rec and inc[0] < values[0] and rec[-1] < dec[0] and guarded
        obs.append(ob("C07.dynamic/counter", bool(ok), where, "counter incremented (@%s) before own values (@%s) and children, decremented (@%s) after the last child (@%s), both under `if %s`" % (inc, values[:1], dec, rec[-1:] if rec else None, name)))
    import guards as gd
    calls = [n for n in sir.walk(f.body) if n.get("k") == "mcall" and n["m"] == "disable_all"]
    Gd = gd.guards_of(f.body)
    okc = False
    for c in calls:
        for kind, subj, pol in Gd.get(id(c), []):
            # `if <table local>` (Include => true) or directly `if let ElementKind::Include {..} = &self.kind` / a match arm on it
            if kind == "cond" and pol and glob is not None and sir.expr_str(subj) == glob[0]:
                okc = True
            if kind == "pat" and pol and "Include" in subj[1] and not any(v_ in subj[1] for v_ in ("Normal", "Pure", "For", "If", "TemplateRef", "Slot")) and "kind" in sir.expr_str(subj[0]):
                okc = True
    if not calls:
        obs.append(ob("C07.dynamic/include", False, where, "an <include> must disable the whole collector, but disable_all() is never called"))
    else:
        obs.append(ob("C07.dynamic/include", okc, where, "an <include> disables the whole collector (disable_all() runs exactly for ElementKind::Include): %s" % okc))
    # Value: mapped only when counter == 0 and !disable
    vf = [g for g in tc.fns if g.base == "Value" and g.name == f.name and g.body]
    if len(vf) != 1:
        obs.append(ob("C07.dynamic/value", False, "parse/tag.rs", "Value analysis not found"))
    else:
        g = vf[0]
        okv = False
        d = ""
        for n in sir.walk(g.body):
            if n.get("k") == "if":
                c = sir.expr_str(n["cond"]).replace(" ", "")
                if "inside_dynamic_tree" in c:
                    d = c
                    then_dis = any(x.get("k") == "mcall" and x["m"] == "disable_binding_map_keys" for x in sir.walk(n["then"]))
                    else_col = n.get("else") is not None and any(x.get("k") == "mcall" and x["m"] == "collect_binding_map_keys" for x in sir.walk(n["else"]))
                    dis_param = g.param_names()[-1]
                    okv = then_dis and else_col and re.fullmatch(r"sas\.inside_dynamic_tree>0\|\|%s" % dis_param, c) is not None
        obs.append(ob("C07.dynamic/value", okv, ctx.where(g), "keys are collected only when `!(%s)`, otherwise disabled: %s" % (d, okv)))
        conv = [i for i, n in enumerate(sir.walk(g.body)) if n.get("k") == "mcall" and n["m"] == "convert_scopes"]
        col = [i for i, n in enumerate(sir.walk(g.body)) if n.get("k") == "mcall" and n["m"] in ("collect_binding_map_keys", "disable_binding_map_keys")]
        obs.append(ob("C07.dynamic/convert-first", bool(conv) and bool(col) and conv[0] < min(col), ctx.where(g), "scope conversion happens before binding-map collection (scope variables are not data fields)"))
    # template bodies: counter 1 in analysis, empty collector in generation
    tp = [g for g in tc.fns if g.base == "Template" and g.name == "parse" and g.body]
    if len(tp) == 1:
        g = tp[0]
        inits = []
        for lp in sir.walk(g.body):
            pass
        sub_loop = [n for n in sir.walk(g.body) if n.get("k") == "for" and "sub_templates" in sir.expr_str(n["e"])]
        sub_vals, main_vals = [], []
        from rules.c05 import scope_state_inits
        for n, fields in scope_state_inits(tc, g):
            lits = [str(e_.get("v")) for e_ in (fields.get("inside_dynamic_tree") or []) if e_.get("k") == "lit"]
            val = lits[-1] if lits else None
            in_sub = any(any(y is n for y in sir.walk(lp)) for lp in sub_loop)
            (sub_vals if in_sub else main_vals).append(val)
        ok = sub_vals and all(int(x) >= 1 for x in sub_vals if x is not None) and main_vals == ["0"]
        obs.append(ob("C07.dynamic/template-bodies/analysis", bool(ok), ctx.where(g), "<template name> bodies analysed with counter %s, main content with %s" % (sub_vals, main_vals)))
    tg = [g for g in tc.fns if g.base == "Template" and g.name == "to_proc_gen" and g.body]
    if len(tg) == 1:
        g = tg[0]
        ok = False
        for lp in sir.walk(g.body):
            if lp.get("k") == "for" and "sub_templates" in sir.expr_str(lp["e"]):
                news = [n for n in sir.walk(lp["body"]) if n.get("k") == "call" and (sir.call_path(n) or "").endswith("BindingMapCollector::new")]
                uses = [n for n in sir.walk(lp["body"]) if n.get("k") == "call" and sir.call_name(n) == "write_template_item"]
                if news and uses:
                    arg = sir.expr_str(sir.strip_ref(uses[0]["args"][3])) if len(uses[0]["args"]) > 3 else ""
                    bound = [n for n in sir.walk(lp["body"]) if n.get("k") == "local" and n["pat"].get("name") == arg and n.get("init") is news[0]]
                    ok = bool(bound)
        obs.append(ob("C07.dynamic/template-bodies/generation", ok, ctx.where(g), "<template name> bodies are generated with an empty binding-map collector: %s" % ok))
    return obs


def find_tokens(tokens, pred, acc=None):
    acc = acc if acc is not None else []
    for t in tokens:
        if pred(t):
            acc.append(t)
        if t[0] == "if":
            find_tokens(t[2], pred, acc)
            find_tokens(t[3], pred, acc)
        elif t[0] == "match":
            for _p, b in t[2]:
                find_tokens(b, pred, acc)
        elif t[0] == "for":
            find_tokens(t[2], pred, acc)
        elif t[0] == "closure-call":
            for c in t[3]:
                find_tokens(c, pred, acc)
    return acc


def strip_guard(tokens):
    """remove the guard prefix of a tree-update statement: `if(C||K||<state>)` / `C||K||<state>?` -> (kind, rest)"""
    toks = list(tokens)
    if not toks or toks[0][0] != "lit":
        return None, toks
    head = toks[0][1]
    if head.startswith("if(C||K||") and len(toks) >= 3 and toks[1][0] == "call" and toks[1][1] == "lvalue_state_expr" and toks[2][0] == "lit" and toks[2][1].startswith(")"):
        rest = [("lit", toks[2][1][1:])] + toks[3:]
        return "if(C||K||state)", es.merge(rest)
    if head.startswith("C||K||") and len(toks) >= 3 and toks[1][0] == "call" and toks[1][1] == "lvalue_state_expr" and toks[2][0] == "lit" and toks[2][1].startswith("?"):
        rest = [("lit", toks[2][1][1:])] + toks[3:]
        return "C||K||state?", es.merge(rest)
    return None, toks


def emit_rule(ctx):
    ob = ctx.ob
    tc = ctx.tc
    obs = []
    n_sites = 0
    ek_dyn = {"For", "If", "TemplateRef", "Include", "Slot"}
    for f in tc.fns:
        if not f.body or "proc_gen" not in f.module:
            continue
        # (i) arms destructuring Value::Dynamic
        for n in sir.walk(f.body):
            pats = []
            if n.get("k") == "arm":
                pats = [(n["pat"], n["body"])]
            elif n.get("k") == "if" and n["cond"].get("k") == "let":
                pats = [(n["cond"]["pat"], n["then"])]
            for pat, body in pats:
                for sub in sir.walk(pat):
                    if sub.get("k") == "p_struct" and sub["segs"][-1] == "Dynamic" and len(sub["segs"]) >= 2 and sub["segs"][-2] in ("Value", "Self"):
                        fields = {fl["name"]: fl["pat"] for fl in sub["fields"]}
                        bmk = fields.get("binding_map_keys")
                        binds = bmk is not None and bmk.get("k") == "p_ident"
                        registers = any(x.get("k") == "mcall" and x["m"] == "to_proc_gen_write_map" for x in sir.walk(body))
                        # which element kind arm are we in?
                        kind = None
                        pm = ctx_parent(f)
                        p = n
                        while id(p) in pm:
                            p = pm[id(p)]
                            if p.get("k") == "arm":
                                vs = [v for v in sir.pat_variants(p["pat"]) if v in ek_dyn | {"Normal", "Pure"}]
                                if vs:
                                    kind = vs[0]
                                    break
                        key = "C07.emit/registers/%s/%s" % (f.qual, kind or "-")
                        if binds and registers:
                            obs.append(ob(key, True, ctx.where(f), "binds binding_map_keys and registers an updater"))
                        elif kind in ek_dyn or (kind == "Pure"):
                            obs.append(ob(key, True, ctx.where(f), "value of a %s element: structural / dynamic-tree position, never mapped" % kind))
                        elif f.base in ("SlotKind", "StaticStrOrProcGen"):
                            obs.append(ob(key, True, ctx.where(f), "helper for slot / slot-name values: updater is registered by the element arm (checked below) or the position is structural"))
                        else:
                            obs.append(ob(key, False, ctx.where(f), "a mappable dynamic value is emitted without registering a binding-map updater (binding_map_keys %s): the advertised slot A[field][i] stays undefined" % ("bound but unused" if binds else "ignored")))
        # (ii)+(iii) per write_map site
        toks = es.linearize(f.body, top=True)
        stmts = []

        def walk_order(ts):
            for t in ts:
                if t[0] == "closure-call" and t[1] in ("expr_stmt",):
                    stmts.append(("stmt", t))
                    for c in t[3]:
                        walk_order(c)
                elif t[0] == "closure-call" and t[1] == "to_proc_gen_write_map":
                    stmts.append(("map", t))
                elif t[0] == "closure-call":
                    for c in t[3]:
                        walk_order(c)
                elif t[0] == "if":
                    walk_order(t[2])
                    walk_order(t[3])
                elif t[0] == "match":
                    for _p, b in t[2]:
                        walk_order(b)
                elif t[0] == "for":
                    walk_order(t[2])
        walk_order(toks)
        last_main = None
        for kind, t in stmts:
            if kind == "stmt":
                inner = t[3][0] if t[3] else []
                if find_tokens(inner, lambda x: x[0] == "call" and x[1] == "lvalue_state_expr"):
                    last_main = inner
                continue
            n_sites += 1
            upd_closure = t[3][0] if t[3] else []
            upd_stmts = [x for x in upd_closure if x[0] == "closure-call" and x[1] == "expr_stmt"]
            key_base = "%s#%d" % (f.qual, n_sites)
            # name the site by its callee literal
            first = upd_stmts[0][3][0] if upd_stmts and upd_stmts[0][3] else []
            head = first[0][1] if first and first[0][0] == "lit" else ""
            nm = re.sub(r"[^A-Za-z.]", "", head.split("(")[0]) or "holecallee"
            key_base = "%s/%s" % (f.qual, nm)
            # (iii)
            prepares = [x for x in find_tokens(upd_closure, lambda x: False)]
            prep_inside = bool(find_tokens(upd_closure, lambda x: x[0] == "prep"))
            if nm == "T":
                pass
            obs.append(ob("C07.emit/fresh/%s" % key_base, prep_inside, ctx.where(f),
                          "the updater closure prepares its expression inside the closure: %s%s" % (prep_inside, "" if prep_inside else " - hoisted temporaries (`var $A=..` of dynamic members, conditionals, ??) are captured from the creation pass and go stale"),
                          witness=None if prep_inside else '<a slot="{{ l[i] }}"/>: after only `i` changed, A["i"] updater calls R.s(N,X(D.l)[$A]) with the old $A'))
            # (ii)
            if (last_main is None and nm not in ("T", "R.s")) or not first:
                obs.append(ob("C07.emit/agree/%s" % key_base, False, ctx.where(f), "no tree-update statement / updater statement found next to the binding-map registration"))
                continue
            gk, main_rest = strip_guard(last_main) if last_main is not None else (None, [])
            if nm == "T":
                # text: creation/update is `T(Y(v)[,cb])`, the updater is `T(N,Y(v))`
                want_upd = es.show(first).replace(" ", "")
                okk = re.fullmatch(r"'T\(N,Y\('<p\.value_expr\(\)>'\)\)'", want_upd) is not None
                obs.append(ob("C07.emit/agree/%s" % key_base, okk, ctx.where(f), "text updater emits %s (expected T(N,Y(<value>)))" % es.show(first)))
                continue
            if nm == "R.s":
                okk = re.fullmatch(r"'R\.s\(N,'<p\.value_expr\(\)>'\)'", es.show(first).replace(" ", "")) is not None
                obs.append(ob("C07.emit/agree/%s" % key_base, okk, ctx.where(f), "slot updater emits %s (expected R.s(N,<value>))" % es.show(first)))
                continue
            a = es.show(main_rest)
            b = es.show(first)
            same = a == b
            detail = "tree update: %s  ||  binding-map updater: %s" % (a, b)
            if not gk:
                same = False
                detail = "tree-update statement has no recognised guard prefix; " + detail
            obs.append(ob("C07.emit/agree/%s" % key_base, same, ctx.where(f), detail,
                          witness=None if same else '<wxs module="m">..</wxs><a bind:tap="{{ m.f }}" x="{{q}}"/> : updater emits R.v(N,"tap",..,!0),[2,..] - the path is outside the call'))
    if n_sites < 7:
        obs.append(ob("C07.floor/write-map-sites", False, "proc_gen/tag.rs", "only %d binding-map registration sites found (floor 7)" % n_sites))
    return obs


_pm_cache = {}


def ctx_parent(f):
    if id(f) not in _pm_cache:
        _pm_cache[id(f)] = sir.parent_map(f.body)
    return _pm_cache[id(f)]


def contains_prepare(f, tok):
    """does the closure passed to this to_proc_gen_write_map call contain a to_proc_gen_prepare call?  (found on the IR)"""
    # locate the IR node: the k-th to_proc_gen_write_map call in f in source order corresponds to the k-th 'map' token
    calls = [n for n in sir.walk(f.body) if n.get("k") == "mcall" and n["m"] == "to_proc_gen_write_map"]
    idx = getattr(f, "_map_idx", 0)
    f._map_idx = idx + 1
    if idx >= len(calls):
        return False
    c = calls[idx]
    clos = [a for a in c["args"] if a.get("k") == "closure"]
    if not clos:
        return False
    return any(x.get("k") == "mcall" and x["m"] == "to_proc_gen_prepare" for x in sir.walk(clos[0]["body"]))


def collector_rule(ctx):
    """C07.collector: the three views of "field f is mapped" agree: get_field (used by is_empty and the updater registration),
    list_fields (the advertised table A) and is_empty (whether an updater is emitted at all)."""
    ob = ctx.ob
    tc = ctx.tc
    obs = []
    ie = [f for f in tc.fns if f.name == "is_empty" and f.base == "BindingMapKeys" and f.body]
    wm = [f for f in tc.fns if f.name == "to_proc_gen_write_map" and f.base == "BindingMapKeys" and f.body]
    if len(ie) != 1 or len(wm) != 1:
        return [ob("C07.collector/anchor", False, "binding_map.rs", "is_empty / to_proc_gen_write_map not found")]
    f = ie[0]

    def is_mapped_test(e):
        """`bmc.get_field(k).is_some()` -> True, `.is_none()` -> False, else None"""
        e = sir.strip_ref(e)
        if e.get("k") == "mcall" and e["m"] in ("is_some", "is_none") and e["recv"].get("k") == "mcall" and e["recv"]["m"] == "get_field":
            return e["m"] == "is_some"
        return None
    ok = None
    d = "a form this rule does not read"
    loops = [n for n in sir.walk(f.body) if n.get("k") == "for" and "keys" in sir.expr_str(n["e"])]
    tail = f.body["stmts"][-1] if f.body["stmts"] else None
    tail_e = tail.get("e") if tail is not None and tail.get("k") == "expr" else None
    if len(loops) == 1:
        ifs = [n for n in sir.walk(loops[0]["body"]) if n.get("k") == "if"]
        tail_v = tail_e.get("v") if tail_e is not None and tail_e.get("k") == "lit" else None
        if len(ifs) == 1:
            mt = is_mapped_test(ifs[0]["cond"])
            rets = [n["e"].get("v") for n in sir.walk(ifs[0]["then"]) if n.get("k") == "return" and n.get("e") is not None]
            if mt is not None and len(rets) == 1 and tail_v is not None:
                # `if mapped { return X }` ... Y : is_empty is X when some key is mapped (mt) / unmapped (not mt), Y otherwise
                ok = (mt is True and rets == [False] and tail_v is True)
                d = "for key in keys { if %s { return %s } } %s" % (sir.expr_str(ifs[0]["cond"]), rets, tail_v)
    elif tail_e is not None:
        e = tail_e
        neg = False
        while e.get("k") in ("unary", "paren"):
            if e.get("k") == "unary" and e.get("op") == "!":
                neg = not neg
            e = e["e"]
        if e.get("k") == "mcall" and e["m"] in ("any", "all") and e["args"] and e["args"][0].get("k") == "closure" and "keys" in sir.expr_str(e["recv"]):
            body = e["args"][0]["body"]
            while body.get("k") == "block" and len(body["stmts"]) == 1 and body["stmts"][0].get("k") == "expr":
                body = body["stmts"][0]["e"]
            mt = is_mapped_test(body)
            if mt is not None:
                # any(mapped) negated, or all(unmapped)
                ok = (e["m"] == "any" and mt is True and neg) or (e["m"] == "all" and mt is False and not neg)
                d = "%s%s(%s)" % ("!" if neg else "", e["m"], sir.expr_str(body))
    obs.append(ob("C07.collector/is_empty", ok, ctx.where(f), "is_empty() is false iff some key is mapped: %s" % d,
                  witness=None if ok is not False else 'data-x="{{a + b}}" with wx:if="{{b}}": `a` stays advertised but its updater is never registered'))
    # write_map registers under the same test
    g = wm[0]
    tests = [is_mapped_test(n) for n in sir.walk(g.body) if n.get("k") == "mcall" and n["m"] in ("is_some", "is_none")]
    tests = [t for t in tests if t is not None]
    writes_a = any((sir.write_fmt_call(n) or (None, []))[1][:1] == [("lit", "A[")] for n in sir.walk(g.body))
    ok2 = (True in tests or False in tests) if writes_a else False
    obs.append(ob("C07.collector/write_map", ok2, ctx.where(g), "updaters are registered (`A[key][i]=`) under a test that the key is mapped: %s" % tests))
    # get_field / list_fields agree: both honour overall_disabled and only report Mapped
    gf = [h for h in tc.fns if h.name == "get_field" and h.base == "BindingMapCollector" and h.body]
    lf = [h for h in tc.fns if h.name == "list_fields" and h.base == "BindingMapCollector" and h.body]
    for nm, hs in (("get_field", gf), ("list_fields", lf)):
        if len(hs) != 1:
            obs.append(ob("C07.collector/%s" % nm, False, "binding_map.rs", "%s not found" % nm))
            continue
        h = hs[0]
        dis = any(x.get("k") in ("field", "path") and sir.expr_str(x).endswith("overall_disabled") for x in sir.walk(h.body))
        arms = {}
        for n in sir.walk(h.body):
            if n.get("k") == "arm":
                b = n["body"]
                while b.get("k") == "block" and len(b["stmts"]) == 1 and b["stmts"][0].get("k") == "expr":
                    b = b["stmts"][0]["e"]
                vs_ = set(sir.pat_variants(n["pat"])) | set(x["segs"][-1] for x in sir.walk(n["pat"]) if x.get("segs"))
                for v in vs_:
                    if v in ("Mapped", "Disabled"):
                        arms[v] = sir.expr_str(b)
            if n.get("k") == "if" and n["cond"].get("k") == "let":
                vs = sir.pat_variants(n["cond"]["pat"])
                if "Mapped" in vs:
                    arms.setdefault("Mapped", "Some" if any(x.get("k") == "call" and sir.call_name(x) == "Some" for x in sir.walk(n["then"])) else "?")
        if not dis:
            okh = False
        elif arms.get("Disabled") == "None" and arms.get("Mapped", "").startswith("Some"):
            okh = True
        elif arms.get("Disabled", "None") != "None" or (arms.get("Mapped") is not None and not arms["Mapped"].startswith("Some")):
            okh = False
        else:
            okh = None
        obs.append(ob("C07.collector/%s" % nm, okh, ctx.where(h), "%s reports a field only if the collector is not globally disabled and the field is Mapped: consults overall_disabled=%s arms=%s" % (nm, dis, arms)))
    # disable_field is sticky: add_field after disable_field must not re-map
    af = [h for h in tc.fns if h.name == "add_field" and h.base == "BindingMapCollector" and h.body]
    if af:
        h = af[0]
        uses_entry = any(n.get("k") == "mcall" and n["m"] in ("or_insert_with", "or_insert") for n in sir.walk(h.body))
        overwrites = any(n.get("k") == "mcall" and n["m"] == "insert" for n in sir.walk(h.body))
        obs.append(ob("C07.collector/add_field-sticky", uses_entry and not overwrites, ctx.where(h), "add_field keeps an existing (possibly Disabled) entry: entry().or_insert*=%s, overwriting insert=%s" % (uses_entry, overwrites)))
    df = [h for h in tc.fns if h.name == "disable_field" and h.base == "BindingMapCollector" and h.body]
    if df:
        h = df[0]
        ok = any(n.get("k") == "mcall" and n["m"] == "insert" and "Disabled" in sir.expr_str(n) for n in sir.walk(h.body))
        obs.append(ob("C07.collector/disable_field", ok, ctx.where(h), "disable_field overwrites the entry with Disabled: %s" % ok))
    return obs


def updater_complete_rule(ctx):
    """every binding-map updater runs to its end: no early return; where it reports the element with `E(N)`, that is its last,
    unconditional statement (the runtime applies pending property changes only for reported elements)"""
    ob = ctx.ob
    tc = ctx.tc
    obs = []
    k = 0
    with_report = 0
    for f in tc.fns:
        if not f.body or f.module[:1] != ["proc_gen"]:
            continue
        j = 0
        for n in sir.walk(f.body):
            if not (n.get("k") == "mcall" and n["m"] == "to_proc_gen_write_map"):
                continue
            for a in n["args"]:
                if a.get("k") != "closure":
                    continue
                k += 1
                j += 1
                body = a["body"]
                rets = [x for x in sir.walk(body, into_closures=False) if x.get("k") == "return"]
                probs = []
                if rets:
                    probs.append("%d early return(s) inside the updater" % len(rets))
                reports = [x for x in sir.walk(body) if x.get("k") == "lit" and x.get("t") == "str" and x.get("v") == "E(N)"]
                if reports:
                    with_report += 1
                    stmts = body.get("stmts", []) if body.get("k") == "block" else []
                    last = stmts[-1] if stmts else None
                    ok_last = last is not None and any(x is reports[-1] for x in sir.walk(last)) and last.get("k") == "expr" and \
                        sir.strip_ref(last["e"]).get("k") in ("mcall", "try") and not any(x.get("k") in ("if", "match") for x in sir.walk(last, into_closures=False) if x is not last)
                    if not ok_last:
                        probs.append("`E(N)` is not the last, unconditional statement of the updater")
                obs.append(ob("C07.emit/complete/%s#%d" % (f.qual, j), not probs, ctx.where(f), "; ".join(probs) if probs else "the updater has no early exit%s" % (" and ends by reporting the element (`E(N)`)" if reports else ""),
                              witness=None if not probs else "a property whose name starts with `on`/`bind` is set but never applied after a fast-path update"))
    if k < 7 or with_report < 2:
        obs.append(ob("C07.floor/updaters", False, "proc_gen/tag.rs", "%d updaters, %d reporting (floors 7 / 2)" % (k, with_report)))
    return obs


def wave10_rules(ctx):
    """obligations added after the tenth wave of seeded changes"""
    import absint as ai
    from share import relabel
    ob = ctx.ob
    tc = ctx.tc
    obs = []
    # (1) a field that is advertised has every one of its updaters registered: `add_field` answers None only for a field that is
    #     disabled - no path through its `Mapped` case gives up
    af = [f for f in tc.fns if f.name == "add_field" and f.base == "BindingMapCollector" and f.body]
    if af:
        f = af[0]
        gives_up = []
        for n in sir.walk(f.body):
            pat, body = None, None
            if n.get("k") == "if" and n["cond"].get("k") == "let":
                pat, body = n["cond"]["pat"], n["then"]
            elif n.get("k") == "arm":
                pat, body = n["pat"], n["body"]
            if pat is None or "Mapped" not in sir.pat_str(pat):
                continue
            for x in sir.walk(body):
                if x.get("k") == "return" and x.get("e") is not None and sir.expr_str(x["e"]).replace(" ", "") == "None":
                    gives_up.append("a `return None` inside the case of a mapped field")
            tail = body
            while tail is not None and tail.get("k") == "block" and tail["stmts"]:
                last = tail["stmts"][-1]
                tail = last.get("e") if last.get("k") == "expr" and not last.get("semi") else None
            if tail is not None and sir.expr_str(tail).replace(" ", "") == "None":
                gives_up.append("the case of a mapped field ends in `None`")
        obs.append(ob("C07.collector/add-never-gives-up", not gives_up, ctx.where(f), "; ".join(gives_up) if gives_up else "a mapped field always gets the next updater index",
                      witness=None if not gives_up else "a field bound in 25 places: the 25th binding has no updater while the field stays advertised"))
    # (2) a dynamic value is either mapped or switches its fields off: in the analysis of a value no path leaves the binding case
    #     without one of the two
    vf = [f for f in tc.fns if f.name == "init_scopes_and_binding_map_keys" and f.base == "Value" and f.body]
    if vf:
        f = vf[0]
        arms = [a for a in sir.walk(f.body) if a.get("k") == "arm" and "Dynamic" in sir.pat_str(a["pat"])]
        verdict, d = None, "the case of a binding is not in a form this rule reads"
        if len(arms) == 1:
            def hooks(it, e, st):
                if e.get("k") == "mcall" and e["m"] in ("disable_binding_map_keys", "collect_binding_map_keys"):
                    return [(ai.UNIT, st.event(("keys", e["m"])))]
                if e.get("k") == "mcall" and e["m"] == "convert_scopes":
                    return [(ai.UNIT, st)]
                if e.get("k") == "call" and (sir.call_path(e) or "").endswith("BindingMapKeys::new"):
                    return [(ai.FREE, st)]
                return None
            it = ai.Interp(hooks=hooks, idx=tc)
            env = {"self": ai.FREE, "sas": ai.FREE, "disable_binding_map": ai.FREE}
            for b_ in sir.walk(arms[0]["pat"]):
                if b_.get("k") == "p_ident":
                    env[b_["name"]] = ai.FREE
            try:
                outs = it.run(arms[0]["body"], env)
            except ai.TooManyPaths:
                outs = []
            silent = [o for o in outs if not any(ev[0] == "keys" for ev in o.events)]
            if outs:
                verdict = not silent
                d = "all %d paths either collect or disable the keys of the expression" % len(outs) if verdict else "%d of %d paths leave the binding without collecting or disabling its keys" % (len(silent), len(outs))
        obs.append(ob("C07.values/mapped-or-disabled", verdict, ctx.where(f), d, witness=None if verdict is not False else "list=\"{{ [x, y] }}\" next to another binding of x: the fast path updates the other binding only"))
    # (3) walking an expression for its keys visits every child once (shared with C01.size/child-once: a member chain is a child)
    from rules.c01 import child_once_rule
    obs += child_once_rule(ctx, "C07.values/child-once")
    return obs


def wave8_rules(ctx):
    """obligations added after the eighth wave of seeded changes"""
    import guards as G
    ob = ctx.ob
    tc = ctx.tc
    obs = []
    # (1) the key list of a binding keeps every (field, index) pair it is given: the index has been reserved by then
    ad = [f for f in tc.fns if f.name == "add" and f.base == "BindingMapKeys" and f.body]
    if ad:
        f = ad[0]
        gs = G.guards_of(f.body)
        pushes = [n for n in sir.walk(f.body) if n.get("k") == "mcall" and n["m"] in ("push", "insert", "push_back")]
        guarded = [p_ for p_ in pushes if gs.get(id(p_))]
        rets = [n for n in sir.walk(f.body) if n.get("k") == "return"]
        ok = bool(pushes) and not guarded and not rets
        obs.append(ob("C07.keys/add-unconditional", ok, ctx.where(f), "BindingMapKeys::add records every pair it is handed" if ok else "BindingMapKeys::add can drop a pair (an early return or a guarded push): the slot reserved for it in `A[field]` stays empty",
                      witness=None if ok else "{{a + a}}: A[\"a\"]=new Array(2) with only index 0 assigned"))
    # (2) the updater is assigned to the slot of *every* mapped field of the binding
    wm = [f for f in tc.fns if f.name == "to_proc_gen_write_map" and f.body]
    if wm:
        f = wm[0]
        probs = []
        loops = [n for n in sir.walk(f.body) if n.get("k") == "for" and any(sir.write_fmt_call(x) for x in sir.walk(n["body"]))]
        if not loops:
            obs.append(ob("C07.emit/every-key", None, ctx.where(f), "the slot assignments are not written by a loop this rule reads"))
        else:
            for lp in loops:
                chain, r_ = [], sir.strip_ref(lp["e"])
                # resolve a local iterator
                if r_.get("k") == "path" and len(r_["segs"]) == 1:
                    for l_ in sir.walk(f.body):
                        if l_.get("k") == "local" and l_["pat"].get("name") == r_["segs"][0] and l_.get("init") is not None:
                            r_ = sir.strip_ref(l_["init"])
                while r_.get("k") == "mcall":
                    chain.append(r_["m"])
                    r_ = r_["recv"]
                cut = [m_ for m_ in chain if m_ in ("take_while", "skip_while", "take", "skip", "step_by", "find", "nth", "last", "first")]
                if cut:
                    probs.append("the keys are cut short by `%s`" % cut[0])
                if "keys" not in sir.expr_str(r_) and "keys" not in sir.expr_str(lp["e"]):
                    probs.append("the loop does not run over the binding's keys (`%s`)" % sir.expr_str(lp["e"])[:40])
                if any(x.get("k") in ("break", "return") for x in sir.walk(lp["body"], into_closures=False)):
                    probs.append("the loop can stop early (`break`/`return`)")
            obs.append(ob("C07.emit/every-key", not probs, ctx.where(f), "every key of the binding that is still mapped gets the updater" if not probs else "; ".join(probs),
                          witness=None if not probs else "{{b + a}} with `b` disabled later: A[\"a\"] is advertised but never assigned"))
    # (3) an <include> disables the map wherever it stands: the call depends on the element kind alone
    ib = [f for f in tc.fns if f.name == "init_scopes_and_binding_map_keys" and f.base == "Element" and f.body]
    if ib:
        f = ib[0]
        gs = G.guards_of(f.body)
        extra = []
        for c in sir.walk(f.body):
            if c.get("k") == "mcall" and c["m"] == "disable_all":
                for kind, subj, pol in gs.get(id(c), []):
                    if kind == "cond" and any(x.get("k") == "field" and x["name"] == "inside_dynamic_tree" for x in sir.walk(subj)):
                        extra.append(sir.expr_str(subj)[:60])
                    if kind == "cond" and subj.get("k") == "binary" and subj.get("op") in ("==", "!=", "<", ">", "<=", ">="):
                        extra.append(sir.expr_str(subj)[:60])
        obs.append(ob("C07.dynamic/include-anywhere", not extra, ctx.where(f), "disable_all() for an <include> does not depend on where the element stands" if not extra else "disable_all() runs only under %s" % sorted(set(extra))[:2],
                      witness=None if not extra else "<block wx:if=..><include src=..></block> plus a plain {{a}}: `a` is advertised although the included content cannot be reached"))
    return obs


def run(ctx):
    from rules.c05 import check_iterators
    obs = []
    o, _m, its = check_iterators(ctx)
    for x in o:
        x = dict(x)
        x["key"] = x["key"].replace("C05.children", "C07.children")
        obs.append(x)
    # collect/disable use the iterators
    tc = ctx.tc
    for name in ("collect_binding_map_keys", "disable_binding_map_keys"):
        fs = [f for f in tc.fns if f.name == name and f.base == "Expression" and f.body]
        ok = len(fs) == 1 and any(n.get("k") == "for" and any(x.get("k") == "mcall" and x["m"] == "sub_expressions" for x in sir.walk(n["e"])) for n in sir.walk(fs[0].body)) \
            and any(n.get("k") == "mcall" and n["m"] == name for n in sir.walk(fs[0].body))
        obs.append(ctx.ob("C07.children/walker/%s" % name, ok, "parse/expr.rs", "%s recurses over sub_expressions(): %s" % (name, ok)))
    for f in tc.fns:
        if hasattr(f, "_map_idx"):
            del f._map_idx
    obs += values_rule(ctx)
    obs += dynamic_rule(ctx)
    obs += emit_rule(ctx)
    obs += collector_rule(ctx)
    obs += updater_complete_rule(ctx)
    obs += wave8_rules(ctx)
    obs += wave10_rules(ctx)
    return obs
